"""C11 - static graphs (narrow): parallel builders write owner-indexed, slot-claimed or atomically."""
import re

from gsa.cfg import Fn, S, is_call, walk
from gsa import race

EXPL = ("narrow: every body passed to galois::do_all / galois::on_each in the local-computation graph headers and FileGraph "
        "(transpose, constructNodes, constructFrom(prefix sums), in-edge construction, edge sorting, degree initialisation, "
        "local ranges) and every per-thread constructFrom(FileGraph&, tid, total) builder called from the ReadGraph functors, "
        "for every instantiation of the driver matrix: each write to storage that is not local to the body is indexed by the "
        "loop element (or the thread's own node/edge partition), by the owner's CSR range of a prefix array, by a slot claimed "
        "with an atomic fetch-and-add, is itself an atomic read-modify-write, or targets per-thread storage; no body reads "
        "X[f(n)] of an array it writes at X[n]. Decides absence of these data races in the builders, not that the constructed "
        "graph equals the input.")

FILES = ("LC_CSR_Graph.h", "LC_CSR_CSC_Graph.h", "LC_InOut_Graph.h", "LC_CSR_Hypergraph.h", "LC_Linear_Graph.h",
         "LC_InlineEdge_Graph.h", "LC_Morph_Graph.h", "FileGraph.cpp", "FileGraphParallel.cpp", "ReadGraph.h", "MorphGraph.h")
G = "galois::graphs::"


def file_edge_type(ctx, fx):
    ctx.rule("C11.file-edge-type",
             "every local-computation graph layout reads the file's edge data as the FILE's edge type (the class's FileEdgeTy "
             "template argument, which with_file_edge_data / with_edge_data can make different from the in-memory EdgeTy) and "
             "converts: the template argument of FileGraph::getEdgeData<X> in constructEdgeValue / constructFrom equals "
             "FileEdgeTy in every instantiation, including the ones where the two types differ (sibling agreement of CSR, "
             "CSR+CSC, linear, inline-edge and morph-LC layouts)")
    n = differ = 0
    for f in fx.functions:
        if f["kind"] != "inst" or not (f.get("cls") or "").startswith("galois::graphs::LC_"):
            continue
        for b in f.get("blocks", []):
            for e in b["ev"]:
                if not (e.get("k") == "call" and e.get("name") == "getEdgeData" and (e.get("cls") or "").endswith("FileGraph")):
                    continue
                m = re.search(r"getEdgeData<(.*)>$", e.get("fk") or "")
                got = m.group(1).strip() if m else "?"
                cargs = [x.strip() for x in f.get("targs", "").split("||")[0].split("|")]
                fet = cargs[-1] if cargs else "?"
                ety = cargs[1] if len(cargs) > 1 else "?"
                if fet == "void":
                    continue
                n += 1
                if fet != ety:
                    differ += 1
                ctx.ob("C11.file-edge-type", f["qn"], got == fet,
                       "reads the file's edge data as %s, the file holds %s (in-memory edge type %s)" % (got, fet, ety),
                       "%s:%s" % (f["file"], e.get("l")), "%s/%s" % (f["cls"].split("::")[-1], fet), fnkey=f["key"])
    ctx.floor("FileGraph::getEdgeData call sites in LC graph builders", n, 6)
    ctx.floor("... of which with a file edge type different from the in-memory type", differ, 3)


def whole_graph_loops(ctx, fx):
    ctx.rule("C11.sort-all.covers-every-node",
             "the whole-graph maintenance loops of the LC graphs (sortAllEdgesByDst, sortAllInEdgesByDst, sortAll...) run over "
             "every node: their do_all range is an explicit whole range (iterate(0, size()) or iterate(begin(), end())), not "
             "iterate(*this), which hands each thread its stored local_begin()..local_end() -- for the NUMA-blocked layout "
             "those are indexed by thread id, set only by some construction paths and never recomputed, so nodes of threads "
             "that are not active any more (or of a graph built through constructEdge) are never visited and stay unsorted")
    n = 0
    for f in fx.functions:
        if f["kind"] == "pattern" or not re.search(r"galois/graphs/LC_\w+\.h$", f["file"]) or not f["name"].startswith("sortAll"):
            continue
        fn = ctx.fn(f)
        its = [e for _, e in fn.events(lambda e: e.get("k") == "call" and e.get("name") == "iterate")]
        if not its:
            continue
        n += 1
        det = []
        for e in its:
            a = [S(x) for x in e.get("a", [])]
            if len(a) == 1 and a[0].replace("(", "").replace(")", "") in ("*this", "this"):
                det.append("the loop runs over iterate(*this): each thread only visits its stored local range")
            elif len(a) != 2:
                det.append("range is iterate(%s)" % ", ".join(a))
        ctx.ob("C11.sort-all.covers-every-node", f["qn"], not det, "; ".join(det), fn.loc(), f["name"], fnkey=f["key"])
    ctx.floor("sortAll* loops of the LC graphs", n, 2)


def run(ctx):
    ctx.explanation = EXPL
    fx = ctx.load("src", "drv_lcgraph", "drv_morph")
    file_edge_type(ctx, fx)
    whole_graph_loops(ctx, fx)
    ctx.rule("C11.race.owner-or-atomic",
             "parallel body: every non-local write is OWNER / CSR / CLAIMED / ATOMIC / THREAD; an index loaded from shared data "
             "with a plain write, or a neighbour read of an array written in the same body, is a race")
    lam = {}
    for f in fx.functions:
        if f["kind"] != "pattern" and "::lambda@" in f["qn"]:
            lam.setdefault(f["qn"].split("::lambda@")[-1].split("#")[0], []).append(f)
    nbodies = 0
    nwrites = 0
    classes = {}
    for f in fx.functions:
        if f["kind"] == "pattern" or not f["file"].endswith(FILES):
            continue
        fn = ctx.fn(f)
        for pos, e in fn.events(lambda e: e.get("k") == "call" and e.get("name") in ("do_all", "on_each")):
            lids = [a["id"] for a in e.get("a", []) if isinstance(a, dict) and a.get("k") == "lambda"]
            for lid in lids:
                key = lid.split("lambda@")[-1]
                bodies = [g for g in lam.get(key, []) if g.get("parent", "").split("(")[0] and
                          f["key"].startswith(g.get("parent", "")[:min(len(g.get("parent", "")), 200)].split("(")[0])]
                if not bodies:
                    bodies = lam.get(key, [])[:1]
                for g in bodies[:1]:
                    elems = [p["n"] for p in g["params"]][:1] if e["name"] == "do_all" else [p["n"] for p in g["params"]][:1]
                    writes, problems = race.analyse(g, elems)
                    nbodies += 1
                    nwrites += len(writes)
                    for _, _, c in writes:
                        classes[c] = classes.get(c, 0) + 1
                    ctx.ob("C11.race.owner-or-atomic", f["qn"] + "::" + e["name"] + "-body", not problems,
                           "; ".join(problems[:3]), fn.loc(pos), "L%s" % key.split(":")[1] if ":" in key else key,
                           nontrivial=bool(writes), fnkey=g["key"])
    ctx.floor("parallel bodies in the graph builders", nbodies, 30)
    # per-thread builders called from the ReadGraph functors
    nb = 0
    for f in fx.functions:
        if f["kind"] != "inst" or not f["file"].endswith(FILES):
            continue
        if f["name"] not in ("constructFrom", "constructNodesFrom", "constructOutEdgesFrom", "constructInEdgesFrom",
                             "constructEdgesFrom"):
            continue
        pn = [p["n"] for p in f["params"]]
        if "tid" not in pn or "total" not in pn:
            continue
        writes, problems = race.analyse(f, [])
        nb += 1
        nwrites += len(writes)
        for _, _, c in writes:
            classes[c] = classes.get(c, 0) + 1
        # the partition must come from the (tid, total) division
        fn = ctx.fn(f)
        div = [e for _, e in fn.events(lambda e: e.get("k") == "call" and e.get("name") in ("divideByNode", "divideByEdge"))]
        if not div or not all([S(a) for a in e.get("a", [])][2:4] == ["tid", "total"] for e in div):
            problems.append("node range is not divideByNode(.., tid, total)")
        ctx.ob("C11.race.owner-or-atomic", f["qn"], not problems, "; ".join(problems[:3]), fn.loc(), "per-thread-builder",
               nontrivial=bool(writes), fnkey=f["key"])
    ctx.floor("per-thread constructFrom builders", nb, 8)
    ctx.floor("classified writes in parallel builders", nwrites, 80)
    ctx.note("write classes: %s" % sorted(classes.items()))
    if classes.get("ATOMIC", 0) < 2 or classes.get("CLAIMED", 0) < 2:
        ctx.broken("expected atomic counters and claimed slots in transpose/in-edge construction; classes=%s" % classes)
