"""C03 - do_all / on_each (structural clauses)."""
from gsa.cfg import Fn, S, SN, is_call, is_assign, walk, lit, cmp_pred
from gsa import lock as L
from gsa import rules as R
from . import wl_locks
from . import mo

EXPL = ("do_all stealing executor (every instantiation in the driver matrix: steal x {random access, forward, "
        "local-iterator container, integer range}), on_each and the thread pool, every CFG path: the shared range "
        "[shared_beg, shared_end) and its size are touched only under work_mutex (helpers that assume the lock are called "
        "with it held); a successful getWork/stealWork hands out a range, advances the shared bound and updates the size, "
        "an unsuccessful one changes nothing; transferWork assigns exactly what it stole, iff it stole; the worker loop "
        "works before stealing and exits only when it could not steal (and the detector agrees); cascade and decascade "
        "compute the same child indices and guard, the children's ranges tile the parent's, every child woken is waited "
        "for, done is cleared before the release signal and set last; region body runs exactly once between cascade and "
        "decascade; on_each calls the function once with (tid, numT). Exactly-once under steal interleavings beyond the "
        "lock discipline and condition-variable liveness are not decided.")

DA = "galois::runtime::internal::DoAllStealingExec"
TC = DA + "::ThreadContext"
TP = "galois::substrate::ThreadPool"
PS = TP + "::per_signal"

LOCK_TABLE = [
    dict(cls=TC, lock="work_mutex", guarded=["shared_beg", "shared_end", "m_size"], lockvalue=False,
         exempt={"hasWorkWeak": "steal hint; re-validated under the lock by stealWork/getWork",
                 "doWork": "initial copies are placeholders overwritten by getWork under the lock before use"},
         helpers={"steal_from_beg": "private; called by stealWork under the lock",
                  "steal_from_end": "private; called under the lock",
                  "steal_from_end_impl": "private; called under the lock"}),
]


def run(ctx):
    ctx.explanation = EXPL
    fx = ctx.load("src", "drv_term")
    wl_locks.check(ctx, fx, prefix="C03", table=LOCK_TABLE, fn_opts={}, callee_releases={}, family="do_all",
                   floor_fns=12)
    get_steal(ctx, fx)
    steal_once(ctx, fx)
    worker_loop(ctx, fx)
    pool(ctx, fx)
    on_each(ctx, fx)
    clamp_agreement(ctx, fx)
    # the join is only a join if the loads that see a child's `done` acquire what the child wrote (and the stores release):
    # the thread pool's rows of the memory-order table are part of this property (C06 evaluates the whole table)
    mo.check_rows(ctx, fx, "C03", mo.THREADPOOL_ROWS, floor=8)


def clamp_agreement(ctx, fx):
    ctx.rule("C03.threads.clamp-agreement",
             "every site that clamps a requested thread count - setActiveThreads, ThreadPool::runInternal, the dedicated-thread "
             "bookkeeping, BarrierInstance::get - clamps with the reservation-aware bound getMaxUsableThreads(); none uses "
             "getMaxThreads() (after runDedicated the two differ, and a loop started on more threads than the pool runs loses "
             "the last block of a do_all and the last ids of an on_each)")
    sites = []
    for f in fx.functions:
        if f["kind"] == "pattern":
            continue
        fn = None
        for b in f.get("blocks", []):
            for e in b["ev"]:
                if e.get("k") == "call" and e.get("name") == "min" and len(e.get("a", [])) == 2:
                    bounds = [x for a in e["a"] for x in walk(a) if isinstance(x, dict) and x.get("k") == "call" and
                              x.get("name") in ("getMaxThreads", "getMaxUsableThreads")]
                    if bounds:
                        sites.append((f, e, bounds[0].get("name")))
    ctx.floor("thread-count clamp sites", len(sites), 4)
    seen = set()
    for f, e, nm in sites:
        key = (f["qn"], e.get("l"))
        if key in seen:
            continue
        seen.add(key)
        ctx.ob("C03.threads.clamp-agreement", f["qn"], nm == "getMaxUsableThreads",
               "line %s clamps the requested count with %s(): after a thread was reserved by runDedicated the loop is started for "
               "more threads than the pool will run" % (e.get("l"), nm), "%s:%s" % (f["file"], e.get("l")), "L%s" % e.get("l"),
               fnkey=f["key"])


def insts(fx, qn):
    return [f for f in fx.functions if f["qn"] == qn and f["kind"] == "inst"]


def get_steal(ctx, fx):
    ctx.rule("C03.getwork.pairing",
             "getWork: exactly on the paths where work is present the private range is assigned, shared_beg advanced and "
             "m_size updated, and true is returned; otherwise nothing is written and false is returned")
    ctx.rule("C03.stealwork.pairing",
             "stealWork: exactly on the paths where the lock was taken and work is present the stolen range and size are "
             "assigned, the shared bound moved and m_size reduced; the result is true exactly then")
    ctx.rule("C03.transfer.same-values",
             "transferWork: assignWork is called iff stealWork succeeded, with the same range and size objects that "
             "stealWork filled, and its result is returned")
    fs = insts(fx, TC + "::getWork")
    ctx.floor("ThreadContext::getWork instantiations", len(fs), 3)
    for f in fs:
        fn = ctx.fn(f)
        det = []
        has = lambda t: t.get("k") == "call" and t.get("name") == "hasWorkWeak"
        pb, pe = f["params"][0]["n"], f["params"][1]["n"]
        w = {
            "priv_beg": lambda e: (e.get("k") == "assign" and e.get("lp") == pb) or (e.get("k") == "call" and e.get("op") == "=" and e.get("rp") == pb),
            "priv_end": lambda e: (e.get("k") == "assign" and e.get("lp") == pe) or (e.get("k") == "call" and e.get("op") == "=" and e.get("rp") == pe),
            "shared_beg": lambda e: (e.get("k") == "assign" and e.get("lp") == "this->shared_beg") or (e.get("k") == "call" and e.get("op") == "=" and e.get("rp") == "this->shared_beg"),
            "m_size": lambda e: e.get("k") == "assign" and e.get("lp") == "this->m_size",
        }
        ge_no = fn.guard_edges(has, False)
        ge_yes = fn.guard_edges(has, True)
        if not ge_yes:
            det.append("no test of hasWorkWeak()")
        for nm, p in w.items():
            if fn.exit_reachable_without(p, edge_ok=lambda b, i, s: (b, i) not in ge_no):
                det.append("%s not updated on a path with work" % nm)
            if fn.guarded_positions(p, has, True):
                det.append("%s written on a path without work" % nm)
        # result
        succ_true = lambda e: e.get("k") == "assign" and e.get("lp") == "succ" and e.get("rp") == "true"
        if fn.exit_reachable_without(succ_true, edge_ok=lambda b, i, s: (b, i) not in ge_no) or \
                fn.guarded_positions(succ_true, has, True):
            det.append("result is not tied to the presence of work")
        rets = {S(e.get("e")) for _, e in fn.events(lambda e: e["k"] == "ret")}
        if rets != {"succ"}:
            det.append("returns %s" % sorted(rets))
        # the private range starts at the old shared_beg and shared_beg becomes its end
        ab = [S(e["a"][0]) if e["k"] == "call" else e.get("rp") for _, e in fn.events(w["priv_beg"])]
        if ab != ["this->shared_beg"]:
            det.append("private range does not start at shared_beg: %s" % ab)
        ae = [S(e["a"][0]) if e["k"] == "call" else e.get("rp") for _, e in fn.events(w["priv_end"])]
        asb = [S(e["a"][0]) if e["k"] == "call" else e.get("rp") for _, e in fn.events(w["shared_beg"])]
        if ae != asb or len(ae) != 1:
            det.append("private end %s and new shared_beg %s differ" % (ae, asb))
        if fn.reaches_without(w["shared_beg"], w["priv_beg"]):
            det.append("shared_beg advanced before the private begin was taken")
        ctx.ob("C03.getwork.pairing", TC + "::getWork", not det, "; ".join(det), fn.loc(), "getWork", fnkey=f["key"])
    fs = insts(fx, TC + "::stealWork")
    ctx.floor("ThreadContext::stealWork instantiations", len(fs), 3)
    for f in fs:
        fn = ctx.fn(f)
        det = []
        has = lambda t: t.get("k") == "call" and t.get("name") == "hasWorkWeak"
        tl = lambda t: t.get("k") == "call" and t.get("name") == "try_lock"
        sb, se, ss = (f["params"][i]["n"] for i in range(3))

        def wr(name):
            return lambda e: (e.get("k") == "assign" and e.get("lp") == name) or \
                (e.get("k") == "call" and e.get("op") == "=" and e.get("rp") == name) or \
                (e.get("k") == "call" and e.get("name") in ("steal_from_beg", "steal_from_end") and
                 name in [S(a) for a in e.get("a", [])])
        moved = lambda e: (e.get("k") in ("assign",) and e.get("lp") in ("this->shared_beg", "this->shared_end")) or \
            (e.get("k") == "call" and e.get("op") == "=" and e.get("rp") in ("this->shared_beg", "this->shared_end")) or \
            (e.get("k") == "call" and e.get("name") in ("steal_from_beg", "steal_from_end"))
        msz = lambda e: e.get("k") == "assign" and e.get("lp") == "this->m_size"
        ge_no = fn.guard_edges(has, False) | fn.guard_edges(tl, False)
        eok = lambda b, i, s: (b, i) not in ge_no
        for nm, p in (("steal_beg", wr(sb)), ("steal_end", wr(se)), ("steal_size", wr(ss)), ("shared bound", moved), ("m_size", msz)):
            if fn.exit_reachable_without(p, edge_ok=eok):
                det.append("%s not updated on a successful steal" % nm)
            if fn.guarded_positions(p, has, True) or fn.guarded_positions(p, tl, True):
                det.append("%s written without lock+work" % nm)
        succ_true = lambda e: e.get("k") == "assign" and e.get("lp") == "succ" and e.get("rp") == "true"
        if fn.exit_reachable_without(succ_true, edge_ok=eok) or fn.guarded_positions(succ_true, has, True) or \
                fn.guarded_positions(succ_true, tl, True):
            det.append("result is not tied to lock+work")
        rets = {S(e.get("e")) for _, e in fn.events(lambda e: e["k"] == "ret")}
        if rets != {"succ"}:
            det.append("returns %s" % sorted(rets))
        # the size removed from m_size is the stolen size
        for _, e in fn.events(msz):
            if e.get("op") == "-=" and e.get("rp") != ss:
                det.append("m_size reduced by %s, not by the stolen size" % e.get("rp"))
            if e.get("op") == "=" and e.get("rp") not in ("0",):
                det.append("m_size set to %s" % e.get("rp"))
        ctx.ob("C03.stealwork.pairing", TC + "::stealWork", not det, "; ".join(sorted(set(det))), fn.loc(), "stealWork",
               fnkey=f["key"])
    fs = insts(fx, DA + "::transferWork")
    ctx.floor("transferWork instantiations", len(fs), 3)
    for f in fs:
        fn = ctx.fn(f)
        det = []
        st = [e for _, e in fn.events(is_call(name="stealWork"))]
        aw = [e for _, e in fn.events(is_call(name="assignWork"))]
        if len(st) != 1 or len(aw) != 1:
            det.append("stealWork/assignWork call sites: %d/%d" % (len(st), len(aw)))
        else:
            sa = [S(a) for a in st[0].get("a", [])][:3]
            aa = [S(a) for a in aw[0].get("a", [])]
            if sa != aa:
                det.append("assignWork(%s) does not receive what stealWork(%s) filled" % (aa, sa))
            if S(st[0].get("recv")) == S(aw[0].get("recv")):
                det.append("work assigned back to the victim")
            succ = lambda t: S(t, fn.defs()) .endswith("stealWork(%s)" % ",".join(S(a) for a in st[0].get("a", []))) or S(t) == "succ"
            awp = is_call(name="assignWork")
            if fn.guarded_positions(awp, lambda t: S(t) == "succ", True):
                det.append("assignWork reachable when the steal failed")
            ge = fn.guard_edges(lambda t: S(t) == "succ", False)
            if fn.exit_reachable_without(awp, edge_ok=lambda b, i, s: (b, i) not in ge):
                det.append("stolen work dropped (no assignWork on the success path)")
            d = fn.defs().get("succ")
            if d is None or "stealWork" not in S(d):
                det.append("succ is not the result of stealWork")
            rets = {S(e.get("e")) for _, e in fn.events(lambda e: e["k"] == "ret")}
            if rets != {"succ"}:
                det.append("returns %s" % sorted(rets))
        ctx.ob("C03.transfer.same-values", DA + "::transferWork", not det, "; ".join(det), fn.loc(), "transferWork",
               fnkey=f["key"])
    fs = insts(fx, TC + "::assignWork")
    ctx.floor("assignWork instantiations", len(fs), 3)
    for f in fs:
        fn = ctx.fn(f)
        b, e_, sz = (f["params"][i]["n"] for i in range(3))
        det = []
        for fld, src in (("this->shared_beg", b), ("this->shared_end", e_), ("this->m_size", sz)):
            p = lambda e, fld=fld: (e.get("k") == "assign" and e.get("lp") == fld) or \
                (e.get("k") == "call" and e.get("op") == "=" and e.get("rp") == fld)
            vals = [S(e["a"][0]) if e["k"] == "call" else e.get("rp") for _, e in fn.events(p)]
            if vals != [src] or fn.exit_reachable_without(p):
                det.append("%s <- %s (expected %s on every path)" % (fld, vals, src))
        ctx.ob("C03.transfer.same-values", TC + "::assignWork", not det, "; ".join(det), fn.loc(), "assignWork",
               fnkey=f["key"])


def steal_once(ctx, fx):
    """assignWork overwrites the thief's shared range, so a second successful steal before the first stolen range was
    executed drops that range. After a steal attempt another attempt may only be reached on the path where the first
    reported failure."""
    ctx.rule("C03.steal.stop-after-success",
             "trySteal / stealWithinSocket / stealOutsideSocket: after a steal attempt (stealWithinSocket, stealOutsideSocket, "
             "transferWork) a further attempt is reachable only through the branch on which the previous attempt's result is "
             "false; a successful steal returns / leaves the loop without stealing again (the second assignWork would overwrite "
             "the not yet executed first range)")
    for qn, callees in ((DA + "::trySteal", ("stealWithinSocket", "stealOutsideSocket")),
                        (DA + "::stealWithinSocket", ("transferWork",)),
                        (DA + "::stealOutsideSocket", ("transferWork",))):
        fs = insts(fx, qn)
        ctx.floor(qn + " instantiations", len(fs), 3)
        for f in fs:
            fn = ctx.fn(f)
            st = lambda e: e.get("k") == "call" and e.get("name") in callees
            calls = list(fn.events(st))
            det = []
            if not calls:
                det.append("no steal attempt")
            for pos, e in calls:
                holder = None
                for p2, e2 in fn.events(lambda x: x["k"] in ("assign", "decl")):
                    src = e2.get("rhs") if e2["k"] == "assign" else e2.get("init")
                    if src is not None and any(n.get("sid") == e.get("sid") for n in walk(src)):
                        holder = e2["lp"] if e2["k"] == "assign" else e2["n"]
                        start = fn.after(p2)
                if holder is None:
                    det.append("result of %s dropped at %s" % (e.get("name"), fn.loc(pos).split(":")[-1]))
                    continue
                hits, _ = fn.search_tracked([start], stop=st, track={holder})
                for hp, known in hits:
                    if known.get(holder) is not False:
                        det.append("after %s at line %s another steal attempt (line %s) is reachable although the first may have "
                                   "succeeded" % (e.get("name"), e.get("l"), fn.ev(hp).get("l")))
            # a reported success reflects a real steal: `return true` only with a true result
            ctx.ob("C03.steal.stop-after-success", qn, not det, "; ".join(sorted(set(det))[:3]), fn.loc(), "steal",
                   fnkey=f["key"])


def worker_loop(ctx, fx):
    ctx.rule("C03.loop.work-then-steal-then-exit",
             "DoAllStealingExec::operator(): doWork precedes trySteal in every round; the loop is left only on a path where "
             "trySteal failed, and (with termination detection) only after localTermination(workHappened) and a true "
             "globalTermination(); every doWork result reaches workHappened")
    ctx.rule("C03.dowork.applies-once",
             "doWork: the function is applied to *beg for every position of each private range handed out by getWork and "
             "to nothing else (loop from beg to end, one call per increment)")
    fs = insts(fx, DA + "::operator()")
    ctx.floor("DoAllStealingExec::operator() instantiations", len(fs), 3)
    for f in fs:
        fn = ctx.fn(f)
        det = []
        dw = is_call(name="doWork")
        ts = is_call(name="trySteal")
        if fn.reaches_without(ts, dw):
            det.append("trySteal before doWork")
        for p, _ in fn.events(ts):
            h, _ = fn.search([fn.after(p)], stop=lambda e: ts(e) or dw(e))
            if any(ts(fn.ev(q)) for q in h):
                det.append("two steals without working in between")
        stole = lambda t: S(t) == "stole"
        ge = fn.guard_edges(stole, False)
        _, ex = fn.search([fn.entry_state()], edge_ok=lambda b, i, s: (b, i) not in ge)
        if ex:
            det.append("loop can exit although the last steal succeeded")
        d = fn.defs().get("stole")
        if d is None or "trySteal" not in S(d):
            det.append("stole is not the result of trySteal")
        lt = is_call(name="localTermination")
        use_term = any(True for _ in fn.events(lt))
        if use_term:
            quit_ = lambda t: S(t) == "quit"
            geq = fn.guard_edges(quit_, True)
            _, ex = fn.search([fn.entry_state()], edge_ok=lambda b, i, s: (b, i) not in geq)
            if ex:
                det.append("loop can exit without globalTermination() being true")
            dq = fn.defs().get("quit")
            if dq is None or "globalTermination" not in S(dq):
                det.append("quit is not the result of globalTermination()")
            args = {S(e["a"][0]) for _, e in fn.events(lt)}
            if args != {"workHappened"}:
                det.append("localTermination argument %s" % sorted(args))
            if fn.guarded_positions(lt, stole, False):
                det.append("idle reported although work was just stolen")
        # doWork result -> workHappened
        wh = lambda e: e.get("k") == "assign" and e.get("lp") == "workHappened" and e.get("rp") == "true"
        dwl = lambda t: t.get("k") == "call" and t.get("name") == "doWork"
        ged = fn.guard_edges(dwl, False)
        for p, _ in fn.events(dw):
            h, _ = fn.search([fn.after(p)], stop=lambda e: wh(e) or lt(e), edge_ok=lambda b, i, s: (b, i) not in ged)
            if any(lt(fn.ev(q)) for q in h):
                det.append("work done but not recorded in workHappened")
        ctx.ob("C03.loop.work-then-steal-then-exit", DA + "::operator()", not det, "; ".join(sorted(set(det))), fn.loc(),
               "loop", fnkey=f["key"])
    fs = insts(fx, TC + "::doWork")
    ctx.floor("doWork instantiations", len(fs), 3)
    for f in fs:
        fn = ctx.fn(f)
        det = []
        fcall = lambda e: e.get("k") == "call" and (e.get("rp") == "func" or S(e.get("recv")) == "func")
        calls = list(fn.events(fcall))
        if len(calls) != 1:
            det.append("function call sites: %d" % len(calls))
        else:
            a = [S(x) for x in calls[0][1].get("a", [])]
            if a != ["*beg"]:
                det.append("function applied to %s" % a)
            gw = is_call(name="getWork")
            if fn.reaches_without(fcall, gw):
                det.append("function applied before a range was obtained")
            gargs = {tuple(S(x) for x in e.get("a", [])[:2]) for _, e in fn.events(gw)}
            if gargs != {("beg", "end")}:
                det.append("getWork fills %s" % sorted(gargs))
            inc = lambda e: (e.get("k") == "call" and e.get("op") == "++" and e.get("rp") == "beg") or \
                (e.get("k") == "assign" and e.get("op") == "++" and e.get("lp") == "beg")
            # between two applications there is exactly one increment
            h, _ = fn.search([fn.after(calls[0][0])], stop=lambda e: fcall(e) or inc(e))
            if any(fcall(fn.ev(q)) for q in h):
                det.append("element applied twice without advancing")
            for p, _ in fn.events(inc):
                h, _ = fn.search([fn.after(p)], stop=lambda e: fcall(e) or inc(e) or gw(e))
                if any(inc(fn.ev(q)) for q in h):
                    det.append("element skipped (two increments without an application)")
            # loop condition beg != end
            loops = [b for b in fn.blocks.values() if (b.get("term") or {}).get("cls") in ("ForStmt", "WhileStmt")]
            inner = [b for b in loops if S(lit(b["term"]["cond"])[0]).replace("(", "").replace(")", "") in ("beg != end", "end != beg")]
            if len(inner) != 1:
                det.append("inner loop is not `beg != end`")
        ctx.ob("C03.dowork.applies-once", TC + "::doWork", not det, "; ".join(det), fn.loc(), "doWork", fnkey=f["key"])


def pool(ctx, fx):
    ctx.rule("C03.pool.cascade-decascade-agree",
             "cascade and decascade compute the same midpoint, address the same children (signals[wbegin], signals[midpoint]) "
             "under the same second-child guard; the children's ranges tile (wbegin, wend]; every child woken is waited for")
    ctx.rule("C03.pool.wakeup-order", "per_signal::wakeup clears done before the release signal (fastRelease = 1 / notify under m); "
             "the slow path writes done and waits on it under the same mutex")
    ctx.rule("C03.pool.region-once", "threadLoop / runInternal: wait -> cascade -> work() exactly once -> decascade; "
             "decascade's last action is done = 1, after waiting for the children")
    def spin_waits(fn, f):
        """[(position, what is waited for, alias-expanded)] -- a busy wait is an atomic load that can reach itself again (a
        loop polling the flag), written in the function itself or in a helper the flag is handed to by reference
        (`spinUntilSet(signals[i]->done)`)"""
        out = []
        al = fn.aliases()
        nrm = lambda x: x.replace("me.", "this->my_box.").replace("my_box.", "this->my_box.").replace("this->this->", "this->")
        for pos, e in fn.events(lambda e: e.get("k") == "atomic" and e["kind"] == "load"):
            again, _ = fn.search([fn.after(pos)], stop=lambda x, e=e: x is e)
            if again:
                out.append((pos, nrm(S(e.get("obj"), al))))
        for pos, ce in fn.events(lambda e: e.get("k") == "call" and e.get("fk")):
            g = fx.callee(ce)
            if g is None or g is f or not g.get("blocks") or g["kind"] == "pattern":
                continue
            gfn = ctx.fn(g)
            for k, arg in enumerate(ce.get("a", [])):
                if k >= len(g.get("params", [])):
                    continue
                pn = g["params"][k]["n"]
                for gpos, ge in gfn.events(lambda e: e.get("k") == "atomic" and e["kind"] == "load"):
                    if S(ge.get("obj"), gfn.aliases()) != pn:
                        continue
                    again, _ = gfn.search([gfn.after(gpos)], stop=lambda x, ge=ge: x is ge)
                    if again:
                        out.append((pos, nrm(S(arg, al))))
        return out

    cs = fx.fns(qn=TP + "::cascade")
    ds = fx.fns(qn=TP + "::decascade")
    ctx.floor("ThreadPool::cascade/decascade", min(len(cs), len(ds)), 1)
    if cs and ds:
        c, d = ctx.fn(cs[0]), ctx.fn(ds[0])
        det = []
        mc, md = c.defs().get("midpoint"), d.defs().get("midpoint")
        if mc is None or md is None or S(mc, c.aliases()) != S(md, d.aliases()):
            det.append("midpoint differs: %s vs %s" % (S(mc, c.aliases()) if mc else None, S(md, d.aliases()) if md else None))
        ch1, ch2 = c.defs().get("child1"), c.defs().get("child2")
        s1 = S(ch1, c.aliases()) if ch1 is not None else ""
        s2 = S(ch2, c.aliases()) if ch2 is not None else ""
        dwaits = spin_waits(d, ds[0])
        nrm2 = lambda x: x.replace("me.", "this->my_box.").replace("my_box.", "this->my_box.").replace("this->this->", "this->")
        wt = sorted({w for _, w in dwaits})
        if not s1 or nrm2(s1) + "->done" not in wt:
            det.append("first child woken %s, waited for %s" % (s1, wt))
        if not s2 or nrm2(s2) + "->done" not in wt:
            det.append("second child woken %s, waited for %s" % (s2, wt))
        # guards
        def guards(fn):
            out = []
            for bid in fn.blocks:
                br = fn.branch(bid)
                if br:
                    out.append(SN(br[0], fn.aliases()))      # comparison spelling normalised: a > b is b < a
            return out
        gc, gd = guards(c), guards(d)
        second = "(midpoint < this->my_box.wend)"
        norm = lambda g: g.replace("me.", "this->my_box.").replace("my_box.", "this->my_box.").replace("this->this->", "this->")
        gcn = [norm(x) for x in gc]
        gdn = [norm(x) for x in gd]
        sc = [g for g in gcn if "midpoint <" in g]
        sd = [g for g in gdn if "midpoint <" in g]
        if not sc or sc != sd:
            det.append("second-child guard differs: %s vs %s" % (sc, sd))
        # tiling
        al = c.aliases()
        asg = {e["lp"]: S(e.get("rhs"), al) for _, e in c.events(lambda e: e.get("k") == "assign")}
        want = {"child1->wbegin": "(X.wbegin + 1)", "child1->wend": "midpoint",
                "child2->wbegin": "(midpoint + 1)", "child2->wend": "X.wend"}
        for k, v in want.items():
            got = norm(asg.get(k, "")).replace("this->my_box", "X")
            if got != v:
                det.append("%s = %s (expected %s)" % (k, asg.get(k), v.replace("X", "me")))
        # wake-ups after the ranges are written; each child woken exactly once
        for ch in ("child1", "child2"):
            wk = lambda e, ch=ch: is_call(name="wakeup")(e) and e.get("rp") == ch
            rng = lambda e, ch=ch: e.get("k") == "assign" and e.get("lp") == ch + "->wend"
            rng2 = lambda e, ch=ch: e.get("k") == "assign" and e.get("lp") == ch + "->wbegin"
            if sum(1 for _ in c.events(wk)) != 1 or c.reaches_without(wk, rng) or c.reaches_without(wk, rng2):
                det.append("%s woken before its range is written (or not exactly once)" % ch)
        # decascade waits: spin loops on both children (checked above: each child woken is in the set waited for)
        if len(wt) < 2:
            det.append("decascade busy-waits on %s, expected both children" % wt)
        ctx.ob("C03.pool.cascade-decascade-agree", TP + "::cascade", not det, "; ".join(det), c.loc(), "children",
               fnkey=cs[0]["key"])
        # done = 1 last, after the waits, on every path
        det = []
        done1 = lambda e: e.get("k") == "atomic" and e["kind"] == "store" and e["p"] in ("me.done", "my_box.done") and S(e["a"][0]) == "1"
        if d.exit_reachable_without(done1):
            det.append("a path leaves decascade without done = 1")
        for p, _ in d.events(done1):
            h, _ = d.search([d.after(p)], stop=lambda e: e.get("k") == "atomic")
            if h:
                det.append("atomic access after done = 1")
        # on the path with children the waits precede done = 1
        def haskids(t):      # `wbegin != wend` in any spelling (== answers "negated"), through `me.` or `my_box.`
            s_ = norm(SN(t, d.aliases()))
            pos, neg = "(this->my_box.wbegin != this->my_box.wend)", "(this->my_box.wbegin == this->my_box.wend)"
            return True if s_ == pos else ("neg" if s_ == neg else False)
        gek = d.guard_edges(haskids, False)
        first = nrm2(s1) + "->done"
        w1pos = {p for p, w in dwaits if w == first}
        ld1 = lambda e: any(d.ev(p) is e for p in w1pos)
        if d.reaches_without(done1, ld1, edge_ok=lambda b, i, s: (b, i) not in gek) or not gek:
            det.append("done = 1 reachable without waiting for the first child")
        ctx.ob("C03.pool.region-once", TP + "::decascade", not det, "; ".join(det), d.loc(), "done", fnkey=ds[0]["key"])
    for f in fx.fns(qn=PS + "::wakeup"):
        fn = ctx.fn(f)
        det = []
        clr = lambda e: e.get("k") == "atomic" and e["kind"] == "store" and e["p"] == "this->done" and S(e["a"][0]) == "0"
        sig = lambda e: (e.get("k") == "atomic" and e["kind"] == "store" and e["p"] == "this->fastRelease") or \
            is_call(name="notify_one")(e) or is_call(name="notify_all")(e)
        if fn.reaches_without(sig, clr) or fn.exit_reachable_without(sig) or fn.exit_reachable_without(clr):
            det.append("release signal before (or without) done = 0")
        res = L.analyse(fn)
        fast = lambda t: S(t) == f["params"][0]["n"]
        ge_fast = fn.guard_edges(fast, True)
        for p, e in fn.events(clr):
            pass
        # slow path: done written and notify issued under m
        for p, e in fn.events(lambda e: is_call(name="notify_one")(e) or is_call(name="notify_all")(e)):
            if any("m" not in st for st in res.states_at.get(p, set())):
                det.append("notify without holding m")
            h = fn.reaches_without(lambda x: x is e, clr)
        slow_clr = [p for p, e in fn.events(clr) if any("m" in st for st in res.states_at.get(p, set()))]
        if not slow_clr:
            det.append("slow path does not clear done under m")
        if res.problems:
            det.append("mutex pairing %s" % res.problems[:2])
        ctx.ob("C03.pool.wakeup-order", f["qn"], not det, "; ".join(det), fn.loc(), "wakeup", fnkey=f["key"])
    for f in fx.fns(qn=PS + "::wait"):
        fn = ctx.fn(f)
        det = []
        res = L.analyse(fn)
        cw = [(p, e) for p, e in fn.events(is_call(name="wait", recv=r"cv$"))]
        if len(cw) != 1:
            det.append("cv.wait call sites: %d" % len(cw))
        else:
            p, e = cw[0]
            if any("m" not in st for st in res.states_at.get(p, set())):
                det.append("cv.wait without holding m")
            if len(e.get("a", [])) < 2:
                det.append("cv.wait without a predicate (spurious wake-ups)")
        lam = [g for g in fx.functions if g["qn"].startswith(f["qn"] + "::lambda")]
        if not lam or not any("done" in S(x.get("e")) and "!" in S(x.get("e")) for g in lam
                              for _, x in Fn(g).events(lambda x: x["k"] == "ret")):
            det.append("wait predicate is not !done")
        # fast path: spin until fastRelease then reset it
        ldf = lambda e: e.get("k") == "atomic" and e["kind"] == "load" and e["p"] == "this->fastRelease"
        rsf = lambda e: e.get("k") == "atomic" and e["kind"] == "store" and e["p"] == "this->fastRelease" and S(e["a"][0]) == "0"
        if fn.reaches_without(rsf, ldf) or not any(True for _ in fn.events(rsf)):
            det.append("fast path does not consume the flag after observing it")
        ctx.ob("C03.pool.wakeup-order", f["qn"], not det, "; ".join(det), fn.loc(), "wait", fnkey=f["key"])
    for qn in (TP + "::threadLoop", TP + "::runInternal"):
        for f in fx.fns(qn=qn):
            fn = ctx.fn(f)
            det = []
            ca = is_call(name="cascade")
            de = is_call(name="decascade")
            wk = lambda e: e.get("k") == "call" and (e.get("rp") or "").endswith("work") and e.get("op") == "()"
            nw = sum(1 for _ in fn.events(wk))
            if nw != 1:
                det.append("work() call sites: %d" % nw)
            if fn.reaches_without(wk, ca):
                det.append("work() before cascade")
            for p, _ in fn.events(wk):
                h, _ = fn.search([fn.after(p)], stop=lambda e: wk(e) or de(e))
                if any(wk(fn.ev(q)) for q in h):
                    det.append("work() twice without decascade")
            if qn.endswith("threadLoop"):
                wt = is_call(name="wait", recv=r"^me$|my_box$")
                if fn.reaches_without(ca, wt):
                    det.append("cascade before the wake-up wait")
            if qn.endswith("runInternal"):
                # normal completion passes decascade
                if fn.exit_reachable_without(de, starts=[fn.after(p) for p, _ in fn.events(wk)]):
                    # exceptional returns are catch handlers (separate entry); the straight path must decascade
                    det.append("normal path returns without decascade")
            ctx.ob("C03.pool.region-once", qn, not det, "; ".join(det), fn.loc(), "region", fnkey=f["key"])


def on_each(ctx, fx):
    ctx.rule("C03.oneach.once", "on_each_impl: run(numT, runFun) with numT = getActiveThreads(); runFun calls the function "
             "exactly once with (ThreadPool::getTID(), numT)")
    fs = insts(fx, "galois::runtime::internal::on_each_impl")
    ctx.floor("on_each_impl instantiations", len(fs), 2)
    for f in fs:
        fn = ctx.fn(f)
        det = []
        runs = [e for _, e in fn.events(is_call(name="run"))]
        if len(runs) != 1:
            det.append("run call sites: %d" % len(runs))
        else:
            a = [S(x) for x in runs[0].get("a", [])]
            if a[:1] != ["numT"] or len(a) != 2:
                det.append("run arguments %s" % a)
            d = fn.defs().get("numT")
            if d is None or "getActiveThreads" not in S(d):
                det.append("numT is not getActiveThreads()")
        lam = [g for g in fx.functions if g.get("parent") and g["qn"].startswith("galois::runtime::internal::on_each_impl::lambda")
               and g["key"].split("::lambda")[0] == f["key"].split("(")[0]]
        if not lam:
            lam = [g for g in fx.functions if g["qn"].startswith("galois::runtime::internal::on_each_impl::lambda")
                   and g.get("parent", "")[:200] == f["key"].split("(const")[0][:200]]
        if not lam:
            lam = [g for g in fx.functions if g["qn"].startswith("galois::runtime::internal::on_each_impl::lambda")]
        ok_l = False
        for g in lam:
            gn = Fn(g)
            calls = [e for _, e in gn.events(lambda e: e.get("k") == "call" and (e.get("rp") == "fn_ref" or S(e.get("recv")) == "fn_ref"))]
            if len(calls) == 1:
                al2 = dict(gn.aliases())
                al2.update(gn.defs())        # a const local holding getTID() is the same thing
                a = [S(x, al2) for x in calls[0].get("a", [])]
                if a == ["getTID()", "numT"]:
                    ok_l = True
                else:
                    det.append("function called with %s" % a)
            elif calls:
                det.append("function call sites in runFun: %d" % len(calls))
        if not ok_l and not det:
            det.append("runFun does not call the function with (getTID(), numT)")
        ctx.ob("C03.oneach.once", f["qn"], not det, "; ".join(sorted(set(det))), fn.loc(), "on_each", fnkey=f["key"])
