"""C09 - allocators (structural clauses)."""
import re

from gsa.cfg import Fn, S, canon, is_call, is_assign, walk, lit, SN
from gsa import lock as L
from gsa.layout import Poly, Interp
from gsa import rules as R
from . import wl_locks

EXPL = ("Heaps, allocators and storage (instantiations from the library sources and the memory driver), every CFG path: "
        "bump heaps round the request up with the align-up idiom, compute the returned pointer from the offset before the "
        "bump, bump and capacity-test with the same aligned value, skip the block header on refill and link the new block "
        "before publishing it; no path on which the block pointer was found null uses it without a refill; the partial "
        "allocation variant re-reads the remaining space after a refill and clamps to it; free lists link before "
        "publishing and read the link before handing a node out; allocate/deallocate siblings use the same size-class "
        "function, threshold and header offset; element counts are multiplied by sizeof at every byte-allocator call; "
        "heap state shared between threads is touched only under its lock, released on all paths; singleton creation is "
        "double-checked under the lock; hand-written move operations disarm or swap the source's resource; the guarding "
        "static_asserts are present. Disjointness of live blocks as a value property, the offset split arithmetic and "
        "NUMA placement are not decided.")

RT = "galois::runtime::"
SUB = "galois::substrate::"
ALIGN_RE = re.compile(r"^\(\(\((\w+) \+ sizeof\(double\)\) - 1\) & ~\(sizeof\(double\) - 1\)\)$")


def insts(fx, qn, kind="inst"):
    return [f for f in fx.functions if f["qn"] == qn and (f["kind"] == kind or (kind == "any" and f["kind"] != "pattern"))]


def run(ctx):
    ctx.explanation = EXPL
    fx = ctx.load("src", "drv_mem", "drv_containers")
    bump(ctx, fx)
    null_use(ctx, fx)
    links(ctx, fx)
    siblings(ctx, fx)
    bytes_kind(ctx, fx)
    locks(ctx, fx)
    moves(ctx, fx)
    asserts(ctx, fx)


# ------------------------------------------------------------------ bump
def _lin(t, fresh):
    """linear form of an expression over offset / alignedSize / AllocSize (A); None when outside that fragment"""
    if not isinstance(t, dict):
        return None
    k = t.get("k")
    if k == "int":
        return Poly.const(t["v"])
    if k == "sizeof" and not isinstance(t.get("c"), dict) and "c" in t:
        return Poly.const(t["c"])
    if k == "cast":
        return _lin(t["e"], fresh)
    s = S(t)
    if s == "this->offset":
        return Poly.sym("offset")
    if s == "alignedSize":
        return Poly.sym("aligned")
    if k in ("ref", "mem") and s.endswith("AllocSize"):
        return Poly.sym("A")
    if k == "bin" and t["op"] in ("+", "-"):
        a, b = _lin(t["l"], fresh), _lin(t["r"], fresh)
        if a is None or b is None:
            return None
        return a + b if t["op"] == "+" else a - b
    return None


def bump_fit(ctx, fx, fn, cls, bumpe):
    """state = (frozenset of facts `poly <= 0`, offset value: 'sym' or an int after a refill)"""
    # constant the offset restarts at, from refill's own body
    rconst = None
    for rf in insts(fx, cls + "::refill"):
        for _, e in ctx.fn(rf).events(lambda e: e.get("k") == "assign" and e.get("op") == "=" and e.get("lp") in ("this->offset", "*o")):
            v = _lin(e.get("rhs"), None)
            if v is not None and v.is_const():
                rconst = v.cval()
    if rconst is None:
        return ["refill() does not restart the offset at a constant"]
    init = (frozenset(), "sym")

    def on_event(st, pos, e):
        facts, off = st
        if e.get("k") == "call" and e.get("name") == "refill":
            touches = (not e.get("a")) or any("offset" in S(a) for a in e.get("a", []))
            if touches:
                return (frozenset(f for f in facts if not any("offset" in m for m in f.t)), rconst)
            return st
        if e.get("k") == "assign" and e.get("lp") == "this->offset" and not bumpe(e):
            return (frozenset(f for f in facts if not any("offset" in m for m in f.t)), "sym")
        if e.get("k") == "assign" and e.get("lp") == "alignedSize":
            return (frozenset(f for f in facts if not any("aligned" in m for m in f.t)), off)
        return st

    def on_edge(st, bid, i, t, val):
        facts, off = st
        if isinstance(t, dict) and t.get("k") == "bin" and t.get("op") in (">", ">=", "<", "<="):
            a, b = _lin(t["l"], None), _lin(t["r"], None)
            if a is not None and b is not None:
                op = t["op"]
                if not val:
                    op = {">": "<=", ">=": "<", "<": ">=", "<=": ">"}[op]
                d = {"<=": a - b, "<": a - b + Poly.const(1), ">=": b - a, ">": b - a + Poly.const(1)}[op]
                facts = facts | {d}
        return (facts, off)

    at = fn.flow(init, on_event, on_edge)
    det = []
    for pos, e in fn.events(bumpe):
        for facts, off in at.get(pos, ()):
            need = (Poly.sym("offset") if off == "sym" else Poly.const(off)) + Poly.sym("aligned") - Poly.sym("A")
            ok = False
            for f in facts:
                if off != "sym":
                    f = f.subst("offset", off)      # facts learnt after the refill speak about the restarted offset
                d = need - f
                if d.is_const() and d.cval() <= 0:
                    ok = True
            if not ok:
                det.append("a path reaches the bump at line %s with offset = %s and no comparison bounding offset + aligned "
                           "size by AllocSize (facts: %s)" % (e.get("l"), "member" if off == "sym" else off,
                                                             sorted(repr(f) + " <= 0" for f in facts) or "none"))
    return det


def bump(ctx, fx):
    ctx.rule("C09.bump.align-bump-order",
             "bump allocate(): the request is rounded up by (size + sizeof(double) - 1) & ~(sizeof(double) - 1); by symbolic "
             "interpretation of every path that bumps, the returned pointer is head + (offset before the bump) and the offset "
             "afterwards is offset + aligned size, bumped exactly once (the capacity comparison is rule C09.bump.fit)")
    ctx.rule("C09.bump.refill", "refill(): the new block is linked (BP->next = head) before head = BP and the offset restarts "
             "after the block header (sizeof(Block))")
    ctx.rule("C09.bump.partial-clamp", "allocate(size, allocated): after a refill the remaining space is re-read and the aligned "
             "size is clamped to it before the bump; allocated = min(size, aligned)")
    ctx.rule("C09.bump.fit", "allocate(size): on every path to `offset += aligned` a comparison on that path bounds the block's "
             "current offset (the member, or sizeof(Block) just after a refill) plus the aligned size by the source heap's "
             "AllocSize, with neither value changed in between (linear facts from branch edges; the header is part of the block)")
    for cls in (RT + "BumpHeap", RT + "BumpWithMallocHeap"):
        fs = insts(fx, cls + "::allocate")
        ctx.floor(cls + "::allocate instantiations", len(fs), 1)
        for f in fs:
            fn = ctx.fn(f)
            det = []
            size = f["params"][0]["n"]
            d = fn.defs().get("alignedSize")
            al_decl = [e for _, e in fn.events(lambda e: e.get("k") == "decl" and e.get("n") == "alignedSize")]
            init = S(al_decl[0].get("init")) if al_decl else ""
            m = ALIGN_RE.match(init)
            if not m or m.group(1) != size:
                det.append("aligned size is %s" % init)
            bumpe = lambda e: e.get("k") == "assign" and e.get("lp") == "this->offset" and e.get("op") == "+="
            bumps = list(fn.events(bumpe))
            if not bumps:
                det.append("no bump of offset")
            for _, e in bumps:
                if e.get("rp") != "alignedSize":
                    det.append("offset bumped by %s" % e.get("rp"))
            # Semantics, not spelling: interpret the function with head = H, offset = O, alignedSize = A (byte polynomials,
            # pointer arithmetic scaled): on every path that bumps, the pointer returned is H + O with O the offset BEFORE
            # the bump, and the offset afterwards is O + A. `char* r = (char*)head; r += offset;` and
            # `char* r = (char*)head + offset;` are the same thing.
            H, O, A = Poly.sym("H"), Poly.sym("O"), Poly.sym("A")
            it = Interp(fn, {"this->head": H, "this->offset": O, "alignedSize": A}, {}, lambda e: e.get("k") == "ret", max_paths=64)
            npaths = 0
            for st, obs in it.run():
                off = st.get("this->offset")
                if off is None or off.p == O:
                    continue            # this path did not bump (malloc fall-back, abort)
                npaths += 1
                al = st.get("alignedSize")
                if off.p != O + (al.p if al is not None else A):
                    det.append("a path leaves offset = %s, expected offset + aligned size" % off.p)
                for o in obs:
                    v = o.get("value")
                    if v is None or v.p != H + O:
                        det.append("a path that bumps returns %s, expected head + the offset before the bump" % (v.p if v is not None else "?"))
            if bumps and not npaths:
                det.append("no returning path bumps the offset")
            # bump exactly once on every returning path that hands out from the block
            for p, _ in bumps:
                h, _ = fn.search([fn.after(p)], stop=bumpe)
                if h:
                    det.append("offset bumped twice")
            ctx.ob("C09.bump.align-bump-order", cls + "::allocate", not det, "; ".join(sorted(set(det))), fn.loc(),
                   "allocate/%d" % len(f["params"]), fnkey=f["key"])
            if len(f["params"]) == 1:
                det = bump_fit(ctx, fx, fn, cls, bumpe)
                ctx.ob("C09.bump.fit", cls + "::allocate", not det, "; ".join(sorted(set(det))), fn.loc(), "allocate/1",
                       fnkey=f["key"])
            if len(f["params"]) == 2:
                det = []
                rf = is_call(name="refill")
                rem_as = lambda e: e.get("k") == "assign" and e.get("lp") == "remaining"
                cmp_blocks = [bid for bid in fn.blocks if fn.branch(bid) and S(fn.branch(bid)[0]) == "(alignedSize > remaining)"]
                clamp = lambda e: e.get("k") == "assign" and e.get("lp") == "alignedSize" and e.get("rp") == "remaining"
                if not cmp_blocks:
                    det.append("no comparison of the aligned size with the remaining space")
                for p, _ in fn.events(rf):
                    if fn.reaches_without(bumpe, rem_as, starts=[fn.after(p)]):
                        det.append("remaining space not re-read after the refill")
                    # must pass the comparison block
                    passed = []
                    h, _ = fn.search([fn.after(p)], stop=bumpe,
                                     edge_ok=lambda b, i, s: not (b in cmp_blocks))
                    if h:
                        det.append("bump reachable after a refill without clamping to the remaining space")
                for bid in cmp_blocks:
                    s = fn.blocks[bid]["succ"]
                    t, pol = fn.branch(bid)
                    tgt = s[0] if pol else s[1]
                    if tgt is None or fn.reaches_without(bumpe, clamp, starts=[(tgt, 0)]):
                        det.append("aligned size exceeds the remaining space and is not clamped")
                rv = [S(e.get("init")) for _, e in fn.events(lambda e: e.get("k") == "decl" and e.get("n") == "remaining")]
                if rv and "this->head" not in rv[0]:
                    det.append("remaining space computed without checking for a block: %s" % rv[0])
                outp = f["params"][1]["n"]
                oa = [S(e.get("rhs")) for _, e in fn.events(lambda e: e.get("k") == "assign" and e.get("lp") == outp)]
                if oa != ["((alignedSize > %s) ? %s : alignedSize)" % (size, size)] or \
                        fn.exit_reachable_without(lambda e: e.get("k") == "assign" and e.get("lp") == outp):
                    det.append("allocated = %s" % oa)
                ctx.ob("C09.bump.partial-clamp", cls + "::allocate", not det, "; ".join(sorted(set(det))), fn.loc(),
                       "partial", fnkey=f["key"])
        for f in insts(fx, cls + "::refill"):
            fn = ctx.fn(f)
            det = []
            if cls.endswith("BumpHeap"):
                link = lambda e: e.get("k") == "assign" and e.get("lp") == "BP->next" and e.get("rp") == "this->head"
                pub = lambda e: e.get("k") == "assign" and e.get("lp") == "this->head" and e.get("rp") == "BP"
                off = lambda e: e.get("k") == "assign" and e.get("lp") == "this->offset"
            else:
                h_, o_ = f["params"][1]["n"], f["params"][2]["n"]
                link = lambda e: e.get("k") == "assign" and e.get("lp") == "BP->next" and e.get("rp") == h_
                pub = lambda e: e.get("k") == "assign" and e.get("lp") == h_ and e.get("rp") == "BP"
                off = lambda e: e.get("k") == "assign" and e.get("lp") == "*" + o_
            if fn.reaches_without(pub, link) or fn.exit_reachable_without(pub) or fn.exit_reachable_without(link):
                det.append("block published before (or without) being linked")
            ov = {S(e.get("rhs")) for _, e in fn.events(off)}
            if not ov or any(not v.startswith("sizeof(") or "Block" not in v for v in ov):
                det.append("offset restarts at %s" % sorted(ov))
            ctx.ob("C09.bump.refill", cls + "::refill", not det, "; ".join(det), fn.loc(), "refill", fnkey=f["key"])


def null_use(ctx, fx):
    ctx.rule("C09.null.no-use-after-null-test",
             "heap allocate(): on a path where the block pointer (head) was tested null it is not used (dereferenced, returned "
             "as a block base, or subtracted from the block size) before a refill")
    n = 0
    for cls in ("BumpHeap", "BumpWithMallocHeap", "BlockHeap", "FreeListHeap"):
        for f in insts(fx, RT + cls + "::allocate"):
            fn = ctx.fn(f)
            headlit = lambda t: S(t) == "this->head"
            ge_null = fn.guard_edges(headlit, False)
            if not ge_null:
                continue
            n += 1
            refill = lambda e: e.get("k") == "call" and e.get("name") in ("refill",) or \
                (e.get("k") == "call" and e.get("name") == "allocate" and e.get("cls") != RT + cls and
                 e.get("k") == "call" and False)
            use = lambda e: (e.get("k") in ("decl",) and "this->head" in (e.get("ip") or "") and e.get("n") != "remaining") or \
                (e.get("k") == "read" and (e.get("p") or "").startswith("this->head->")) or \
                (e.get("k") == "read" and "this->head->" in (e.get("p") or "")) or \
                (e.get("k") == "ret" and "this->head" in S(e.get("e"))) or \
                (e.get("k") == "assign" and e.get("op") == "=" and "this->head->" in (e.get("rp") or ""))
            bad = []
            for (b, i) in ge_null:
                s = fn.blocks[b]["succ"][i]
                if s is None:
                    continue
                hits, _ = fn.search_tracked([(s, 0)], stop=lambda e: use(e) or refill(e),
                                            track={"this->head", "remaining"}, init={"this->head": False})
                bad += [p for p, _k in hits if use(fn.ev(p))]
            ctx.ob("C09.null.no-use-after-null-test", RT + cls + "::allocate", not bad,
                   "head used at %s on a path where it was found null and no refill happened" % sorted({fn.loc(p) for p in bad}),
                   fn.loc(), "head/%d" % len(f["params"]), fnkey=f["key"])
    ctx.floor("allocate functions with a null test of head", n, 4)


# ----------------------------------------------------------------- links
def links(ctx, fx):
    ctx.rule("C09.freelist.link-order",
             "free-list push: node->next = old head precedes the publication of the node (head = node / CAS / unlock_and_set); "
             "pop: the successor is read before the node is handed out and becomes the new head")
    cases = [
        (RT + "FreeListHeap::deallocate", r"NH->next$", r"^this->head$", lambda e: is_assign(lp=r"^this->head$")(e) and e.get("rp") == "NH"),
        (RT + "SelfLockFreeListHeap::deallocate", r"NH->next$", r"^OH$", lambda e: e.get("k") == "call" and "compare_and_swap" in (e.get("name") or "")),
        (RT + "BlockHeap::refill", r"BP->next$", r"^this->head$", lambda e: is_assign(lp=r"^this->head$")(e) and e.get("rp") == "BP"),
        (RT + "internal::PageAllocState::pageFree", r"nh->next$", r"getValue\(\)$", lambda e: is_call(name="unlock_and_set")(e) and [S(a) for a in e.get("a", [])] == ["nh"]),
    ]
    for qn, lhs_re, rhs_re, pub in cases:
        fs = insts(fx, qn)
        ctx.floor(qn, len(fs), 1)
        for f in fs[:3]:
            fn = ctx.fn(f)
            link = lambda e: e.get("k") == "assign" and re.search(lhs_re, e.get("lp", "")) and re.search(rhs_re, e.get("rp") or "")
            det = []
            if not any(True for _ in fn.events(link)):
                det.append("no link of the node to the old head")
            if not any(True for _ in fn.events(pub)):
                det.append("node never published")
            if fn.reaches_without(pub, link):
                det.append("node published before its next pointer was set")
            if qn.endswith("SelfLockFreeListHeap::deallocate"):
                # OH is (re)read from head in every CAS round
                oh = lambda e: e.get("k") == "assign" and e.get("lp") == "OH" and e.get("rp") == "this->head"
                for p, _ in fn.events(pub):
                    pass
                if fn.reaches_without(link, oh):
                    det.append("old head not read before linking")
            ctx.ob("C09.freelist.link-order", qn, not det, "; ".join(det), fn.loc(), "push", fnkey=f["key"])
    # pops
    for f in insts(fx, RT + "FreeListHeap::allocate")[:3]:
        fn = ctx.fn(f)
        det = []
        take = lambda e: e.get("k") == "decl" and e.get("n") == "ptr" and e.get("ip") == "this->head"
        adv = lambda e: e.get("k") == "assign" and e.get("lp") == "this->head" and e.get("rp") == "this->head->next"
        if fn.reaches_without(adv, take):
            det.append("head advanced before the node was taken")
        if not any(True for _ in fn.events(adv)):
            det.append("head not advanced to head->next")
        headlit = lambda t: S(t) == "this->head"
        if fn.guarded_positions(adv, headlit, True):
            det.append("pop from a possibly empty list")
        # empty list -> source heap
        ge = fn.guard_edges(headlit, True)
        src = lambda e: e.get("k") == "call" and e.get("name") == "allocate"
        if fn.exit_reachable_without(src, edge_ok=lambda b, i, s: (b, i) not in ge):
            det.append("empty free list does not fall back to the source heap")
        ctx.ob("C09.freelist.link-order", RT + "FreeListHeap::allocate", not det, "; ".join(det), fn.loc(), "pop",
               fnkey=f["key"])
    for f in insts(fx, RT + "internal::PageAllocState::pageAlloc")[:2]:
        fn = ctx.fn(f)
        det = []
        us = [e for _, e in fn.events(is_call(name="unlock_and_set"))]
        if len(us) != 1 or [S(a) for a in us[0].get("a", [])] != ["h->next"]:
            det.append("list head not advanced to h->next")
        rets = {S(e.get("e")) for _, e in fn.events(lambda e: e["k"] == "ret")}
        if rets != {"h", "this->allocFromOS()"}:
            det.append("returns %s" % sorted(rets))
        hl = lambda t: S(t) == "h"
        if fn.guarded_positions(lambda e: e.get("k") == "ret" and S(e.get("e")) == "h", hl, True):
            det.append("null node handed out")
        ctx.ob("C09.freelist.link-order", RT + "internal::PageAllocState::pageAlloc", not det, "; ".join(det), fn.loc(),
               "pop", fnkey=f["key"])
    for f in insts(fx, RT + "SelfLockFreeListHeap::allocate")[:2]:
        fn = ctx.fn(f)
        det = []
        nh = lambda e: e.get("k") == "assign" and e.get("lp") == "NH" and e.get("rp") == "OH->next"
        cas = lambda e: e.get("k") == "call" and "compare_and_swap" in (e.get("name") or "")
        if fn.reaches_without(cas, nh):
            det.append("CAS before the successor was read")
        args = [[S(a) for a in e.get("a", [])] for _, e in fn.events(cas)]
        if args != [["&this->head", "OH", "NH"]]:
            det.append("CAS arguments %s" % args)
        ohl = lambda t: S(t) == "OH"
        if fn.guarded_positions(nh, ohl, True):
            det.append("successor of a null head read")
        ctx.ob("C09.freelist.link-order", RT + "SelfLockFreeListHeap::allocate", not det, "; ".join(det), fn.loc(), "pop",
               fnkey=f["key"])


# -------------------------------------------------------------- siblings
def siblings(ctx, fx):
    ctx.rule("C09.sibling.size-class",
             "allocate/deallocate siblings agree: Pow_2_BlockHeap uses the same malloc threshold and the same nextLog2 class of "
             "the same argument and hands out blocks of the class size; PerBackend alloc/deallocOffset use nextLog2(sz) and "
             "1 << ll; AddHeader and SerialNumaHeap add and subtract the same offset; FixedSizeAllocator asks its heap for "
             "sizeof(Ty), the size the heap was created with")
    P2 = RT + "Pow_2_BlockHeap::"
    a = fx.fns(qn=P2 + "allocateBlock")
    d = fx.fns(qn=P2 + "deallocateBlock")
    ctx.floor("Pow_2_BlockHeap allocate/deallocateBlock", min(len(a), len(d)), 1)
    if a and d:
        fa, fd = ctx.fn(a[0]), ctx.fn(d[0])
        det = []

        def thr(fn):
            out = []
            for bid in fn.blocks:
                br = fn.branch(bid)
                if br and "pow2" in S(br[0]):
                    out.append(S(br[0]))
            return out
        ta, td = thr(fa), thr(fd)
        if not ta or ta != td:
            det.append("thresholds differ: %s vs %s" % (ta, td))
        ca = [S(e) for _, e in fa.events(is_call(name="nextLog2"))]
        cd = [S(e) for _, e in fd.events(is_call(name="nextLog2"))]
        if not ca or ca != cd or ca != ["nextLog2(%s)" % a[0]["params"][0]["n"]]:
            det.append("size class: %s vs %s" % (ca, cd))
        al = [e for _, e in fa.events(is_call(name="allocate"))]
        dl = [e for _, e in fd.events(is_call(name="deallocate"))]
        if len(al) != 1 or S(al[0].get("recv")) != "this->heapTable[i]" or [S(x) for x in al[0].get("a", [])] != ["pow2(i)"]:
            det.append("allocate uses %s" % [S(e) for e in al])
        if len(dl) != 1 or S(dl[0].get("recv")) != "this->heapTable[i]":
            det.append("deallocate uses %s" % [S(e) for e in dl])
        # malloc <-> free on the big path
        if any(True for _ in fa.events(is_call(name="malloc"))) != any(True for _ in fd.events(is_call(name="free"))):
            det.append("malloc/free fallback not paired")
        ctx.ob("C09.sibling.size-class", P2 + "allocateBlock", not det, "; ".join(det), fa.loc(), "pow2", fnkey=a[0]["key"])
    for f in fx.fns(qn=P2 + "populateTable"):
        fn = ctx.fn(f)
        pb = [e for _, e in fn.events(is_call(name="push_back"))]
        ok = len(pb) == 1 and "pow2(i)" in S(pb[0])
        loops = [b for b in fn.blocks.values() if (b.get("term") or {}).get("cls") in ("ForStmt", "WhileStmt")]
        ok = ok and len(loops) == 1 and bool(loops[0]["term"].get("cond")) and bool(re.fullmatch(
            r"\(i <= (\w+::)*LOG2_MAX_SIZE\)", SN(lit(loops[0]["term"]["cond"])[0])))      # `LOG2_MAX_SIZE >= i` is the same
        ctx.ob("C09.sibling.size-class", f["qn"], ok, "heap table does not hold one heap of size 2^i for every i <= LOG2_MAX_SIZE",
               fn.loc(), "table", fnkey=f["key"])
    PB = SUB + "PerBackend::"
    a = fx.fns(qn=PB + "allocOffset")
    d = fx.fns(qn=PB + "deallocOffset")
    ctx.floor("PerBackend alloc/deallocOffset", min(len(a), len(d)), 1)
    if a and d:
        fa, fd = ctx.fn(a[0]), ctx.fn(d[0])
        det = []
        # locals are found by what they hold, never by name: the class is the local defined as nextLog2(<size parameter>),
        # the block size the local defined as 1 << <class>
        cls_of, size_of = {}, {}
        for fn, f in ((fa, a[0]), (fd, d[0])):
            szp = f["params"][-1]["n"]
            defs = fn.defs()
            cl = [n for n, v in defs.items() if v is not None and S(v) in ("this->nextLog2(%s)" % szp, "nextLog2(%s)" % szp)]
            if len(cl) != 1:
                det.append("%s: no single local holds nextLog2(%s): %s" % (f["name"], szp, cl))
                continue
            cls_of[f["name"]] = cl[0]
            sz = [n for n, v in defs.items() if v is not None and S(v) == "(1 << %s)" % cl[0]]
            if len(sz) != 1:
                det.append("%s: no single local holds 1 << %s: %s" % (f["name"], cl[0], sz))
                continue
            size_of[f["name"]] = sz[0]
        if len(cls_of) == 2 and len(size_of) == 2:
            cd, ca = cls_of["deallocOffset"], cls_of["allocOffset"]
            # the free list an offset is returned to is the one of its class
            pushd = [S(e.get("recv")) for _, e in fd.events(is_call(name="push_back"))]
            if pushd != ["this->freeOffsets[%s]" % cd]:
                det.append("deallocOffset returns the offset to %s" % pushd)
            # the search for a free offset starts at the class of the request: the first free-list access of allocOffset
            # is indexed by the class local or by a local initialised from it
            firsts = [S(e.get("recv")) for _, e in fa.events(is_call(name="empty"))]
            def holds_class(ix):
                if ix == ca:
                    return True
                dd = [e for _, e in fa.events(lambda e: e.get("k") == "decl" and e.get("n") == ix)]
                return bool(dd) and (dd[0].get("ip") or "").strip() == ca
            m = re.match(r"this->freeOffsets\[(\w+)\]$", firsts[0]) if firsts else None
            if not m or not holds_class(m.group(1)):
                det.append("allocOffset starts searching at %s" % (firsts[0] if firsts else None))
            # rollback CAS expects offset + size
            offp = d[0]["params"][0]["n"]
            cas = [e for _, e in fd.events(lambda e: e.get("k") == "atomic" and e.get("kind") == "cas")]
            exn = None
            for e in cas:
                ar = e.get("a") or []
                if ar:
                    exn = S(ar[0])
            exv = fd.defs().get(exn) if exn else None
            szd = size_of["deallocOffset"]
            if exv is None or S(exv) not in ("(%s + %s)" % (offp, szd), "(%s + %s)" % (szd, offp)):
                det.append("rollback expects %s = %s" % (exn, S(exv) if exv is not None else None))
            for e in cas:
                if len(e.get("a") or []) < 2 or S(e["a"][1]) != offp:
                    det.append("rollback installs %s, expected the offset being returned" % (S(e["a"][1]) if len(e.get("a") or []) > 1 else None))
        ctx.ob("C09.sibling.size-class", PB + "allocOffset", not det, "; ".join(det), fa.loc(), "offsets", fnkey=a[0]["key"])
    # the bump path of allocOffset is a check-then-act on an atomic: `load + size <= limit` can hold for two threads at once,
    # so only the value that fetch_add itself returned says whether THIS request fitted
    ctx.rule("C09.offsets.bump-recheck",
             "PerBackend::allocOffset: the offset handed out from the bump region is the value returned by "
             "nextLoc.fetch_add(size), and it is returned only on a path where that very value satisfies "
             "value + size <= ptAllocSize (the earlier test of a separate load does not count: two threads can both pass it "
             "for the last bytes); otherwise the request falls through to the free lists")
    if a:
        fa = ctx.fn(a[0])
        det = []
        rmw = [(p, e) for p, e in fa.events(lambda e: e.get("k") == "atomic" and e.get("kind") == "rmw" and e.get("p") == "this->nextLoc")]
        ctx.floor("PerBackend::allocOffset bump (fetch_add on nextLoc)", len(rmw), 1)
        sizen = size_of.get("allocOffset") if "size_of" in dir() else None
        for p, e in rmw:
            # the local that holds the result
            holder = [(q, d) for q, d in fa.events(lambda d: d.get("k") == "decl" and "init" in d and
                                                   any(x is e or (isinstance(x, dict) and x.get("k") in ("atomic", "call") and
                                                                  "fetch_add" in S(x)) for x in walk(d["init"])))]
            rets_direct = [r for _, r in fa.events(lambda r: r.get("k") == "ret" and "fetch_add" in S(r.get("e")))]
            if rets_direct:
                det.append("the result of nextLoc.fetch_add is returned without being compared with the capacity: two threads "
                           "that both passed the load-based test get offsets past the end of the per-thread region")
            for q, d in holder:
                x = d["n"]

                def fits(t, x=x):
                    c = canon(t)
                    while isinstance(c, dict) and c.get("k") in ("cast", "paren"):
                        c = c.get("e")
                    if not (isinstance(c, dict) and c.get("k") == "bin" and c.get("op") in ("<=", "<")):
                        return False
                    l, r = c["l"], c["r"]
                    names = sorted(S(y) for y in walk(l) if isinstance(y, dict) and y.get("k") == "ref")
                    plus = isinstance(l, dict) and l.get("k") == "bin" and l.get("op") == "+"
                    return plus and x in names and len(names) == 2 and (sizen is None or sizen in names) and S(r).endswith("ptAllocSize")
                ge = fa.guard_edges(fits, True)
                retx = lambda r, x=x: r.get("k") == "ret" and S(r.get("e")) == x
                redecl = lambda r, x=x: r.get("k") == "decl" and r.get("n") == x      # another variable of the same name
                h, _ = fa.search([fa.after(q)], stop=lambda r: retx(r) or redecl(r), edge_ok=lambda b, i, s_: (b, i) not in ge)
                h = [y for y in h if retx(fa.ev(y))]
                if h:
                    det.append("the offset returned by fetch_add is handed out (line %s) without `%s + size <= ptAllocSize` "
                               "having been established for it" % (fa.ev(h[0]).get("l"), x))
            if not holder and not rets_direct:
                det.append("the result of nextLoc.fetch_add is dropped")
        ctx.ob("C09.offsets.bump-recheck", PB + "allocOffset", not det, "; ".join(det), fa.loc(), "bump", fnkey=a[0]["key"])
    # AddHeader
    ah = [f for f in fx.functions if f.get("cls") == RT + "AddHeader" and f["kind"] == "inst"]
    by = {}
    for f in ah:
        by.setdefault(f["clsk"], {})[f["name"]] = f
    n = 0
    for k, d in by.items():
        if not {"allocate", "deallocate", "getHeader"} <= set(d):
            continue
        n += 1
        fa, fd, fg = ctx.fn(d["allocate"]), ctx.fn(d["deallocate"]), ctx.fn(d["getHeader"])
        det = []
        sa = [S(e) for _, e in fa.events(is_call(name="allocate"))]
        if not sa or not sa[0].endswith("allocate((size + offset))"):
            det.append("source allocation is %s" % sa)
        ra = {S(e.get("e")) for _, e in fa.events(lambda e: e["k"] == "ret")}
        if ra != {"(ptr + offset)"}:
            det.append("allocate returns %s" % sorted(ra))
        rg = {S(e.get("e")) for _, e in fg.events(lambda e: e["k"] == "ret")}
        if rg != {"(ptr - offset)"}:
            det.append("getHeader returns %s" % sorted(rg))
        sd = [S(a0) for _, e in fd.events(is_call(name="deallocate")) for a0 in e.get("a", [])]
        if sd != ["getHeader(ptr)"]:
            det.append("deallocate frees %s" % sd)
        ctx.ob("C09.sibling.size-class", RT + "AddHeader::allocate", not det, "; ".join(det), fa.loc(), "header",
               fnkey=d["allocate"]["key"])
    ctx.floor("AddHeader instantiations", n, 1)
    sa = fx.fns(qn=RT + "SerialNumaHeap::allocate")
    sd = fx.fns(qn=RT + "SerialNumaHeap::deallocate")
    ctx.floor("SerialNumaHeap allocate/deallocate", min(len(sa), len(sd)), 1)
    if sa and sd:
        fa, fd = ctx.fn(sa[0]), ctx.fn(sd[0])
        det = []
        big = [S(e) for _, e in fa.events(is_call(name="largeMallocInterleaved"))]
        if not big or "(size + offset)" not in big[0]:
            det.append("allocation size %s" % big)
        ra = {S(e.get("e")) for _, e in fa.events(lambda e: e["k"] == "ret")}
        if not ra or not all(x.endswith("+ offset)") for x in ra):
            det.append("allocate returns %s" % sorted(ra))
        rp = [e for _, e in fd.events(lambda e: e.get("k") == "decl" and e.get("n") == "realPtr")]
        if not rp or S(rp[0].get("init")) != "(ptr - offset)":
            det.append("deallocate recovers %s" % (S(rp[0].get("init")) if rp else None))
        ctx.ob("C09.sibling.size-class", RT + "SerialNumaHeap::allocate", not det, "; ".join(det), fa.loc(), "numa-header",
               fnkey=sa[0]["key"])
    fsa = [f for f in fx.functions if f["qn"] == RT + "FixedSizeAllocator::allocate" and f["kind"] == "inst"]
    ctx.floor("FixedSizeAllocator::allocate instantiations", len(fsa), 2)
    ctors = {f["clsk"]: f for f in fx.functions if f["qn"] == RT + "FixedSizeAllocator::FixedSizeAllocator" and f["kind"] == "inst"
             and not f["params"]}
    for f in fsa:
        fn = ctx.fn(f)
        ty = f["clsk"].split("<", 1)[1].rsplit(">", 1)[0]
        a = [S(x) for _, e in fn.events(is_call(name="allocate")) for x in e.get("a", [])]
        det = []
        if len(a) != 1 or not a[0].startswith("sizeof("):
            det.append("heap asked for %s" % a)
        c = ctors.get(f["clsk"])
        if c:
            ini = [i for i in c.get("inits", []) if i.get("field") == "heap"]
            if not ini or (a and S(ini[0].get("init")).replace("FixedSizeHeap{", "").rstrip("}") != a[0]):
                det.append("heap created with %s but asked for %s" % (S(ini[0].get("init")) if ini else None, a))
        ctx.ob("C09.sibling.size-class", RT + "FixedSizeAllocator::allocate", not det, "; ".join(det), fn.loc(), "sizeof",
               fnkey=f["key"])


# ------------------------------------------------------------ bytes kind
def bytes_kind(ctx, fx):
    ctx.rule("C09.bytes.count-times-sizeof",
             "every call of a byte allocator from a typed container/allocator passes (element count) * sizeof(element type)")
    checks = [
        ("galois::LargeArray::allocate", ("largeMallocBlocked", "largeMallocInterleaved", "largeMallocLocal", "largeMallocFloating"), 0, "n"),
        ("galois::LargeArray::allocateSpecified", ("largeMallocSpecified",), 0, "numberOfElements"),
        (RT + "Pow_2_BlockAllocator::allocate", ("allocateBlock",), 0, "size"),
        (RT + "Pow_2_BlockAllocator::deallocate", ("deallocateBlock",), 1, "len"),
        (RT + "ExternalHeapAllocator::allocate", ("allocate",), 0, "size"),
        ("galois::PODResizeableArray::reserve", ("realloc",), 1, "this->capacity_"),
    ]
    for qn, callees, argi, count in checks:
        fs = insts(fx, qn)
        ctx.floor(qn + " instantiations", len(fs), 1)
        for f in fs[:6]:
            fn = ctx.fn(f)
            calls = [e for _, e in fn.events(lambda e: e.get("k") == "call" and e.get("name") in callees)]
            det = []
            if not calls:
                det.append("no call to %s" % (callees,))
            for e in calls:
                a = e.get("a", [])
                s = S(a[argi]) if len(a) > argi else ""
                if not re.fullmatch(r"\(%s \* sizeof\([^)]*\)\)" % re.escape(count), s):
                    det.append("%s receives %s" % (e.get("name"), s))
            if qn.endswith("allocateSpecified"):
                for e in calls:
                    a = [S(x) for x in e.get("a", [])]
                    if len(a) < 4 or not a[3].startswith("sizeof("):
                        det.append("element size argument %s" % a[3:])
            ctx.ob("C09.bytes.count-times-sizeof", qn, not det, "; ".join(sorted(set(det))), fn.loc(), "bytes", fnkey=f["key"])
    # PODResizeableArray: resize reserves before growing; reserve grows the capacity geometrically until >= n
    for f in insts(fx, "galois::PODResizeableArray::resize")[:3]:
        fn = ctx.fn(f)
        rs = is_call(name="reserve")
        sz = lambda e: e.get("k") == "assign" and e.get("lp") == "this->size_"
        ok = not fn.reaches_without(sz, rs) and any(True for _ in fn.events(rs)) and \
            all([S(a) for a in e.get("a", [])] == [f["params"][0]["n"]] for _, e in fn.events(rs))
        ctx.ob("C09.bytes.count-times-sizeof", f["qn"], ok, "size grown before reserve(n)", fn.loc(), "resize", fnkey=f["key"])
    for f in insts(fx, "galois::PODResizeableArray::reserve")[:3]:
        fn = ctx.fn(f)
        n = f["params"][0]["n"]
        loops = [b for b in fn.blocks.values() if (b.get("term") or {}).get("cls") == "WhileStmt"]
        ok = len(loops) == 1 and S(lit(loops[0]["term"]["cond"])[0]) == "(this->capacity_ < %s)" % n
        ra = is_call(name="realloc")
        grow = lambda e: e.get("k") == "assign" and e.get("lp") == "this->capacity_" and e.get("op") == "<<="
        ok = ok and any(True for _ in fn.events(grow)) and any(True for _ in fn.events(ra)) and \
            not fn.guarded_positions(ra, lambda t: S(t) == "(this->capacity_ < %s)" % n, False)
        ctx.ob("C09.bytes.count-times-sizeof", f["qn"], ok, "capacity is not doubled until it reaches n before realloc",
               fn.loc(), "reserve", fnkey=f["key"])


# ------------------------------------------------------------------ locks
LOCK_TABLE = [
    dict(cls=RT + "SizedHeapFactory", lock="lock", guarded=["heaps", "allLocalHeaps"], lockvalue=False, exempt={}),
    dict(cls=SUB + "PerBackend", lock="freeOffsetsLock", guarded=["freeOffsets"], lockvalue=False, exempt={}),
    dict(cls=RT + "internal::PageAllocState", lock="mapLock", guarded=["ownerMap"], lockvalue=False, exempt={}),
]


def locks(ctx, fx):
    wl_locks.check(ctx, fx, prefix="C09", table=LOCK_TABLE, fn_opts={}, callee_releases={}, family="allocator",
                   floor_fns=5)
    ctx.rule("C09.lock.heap-call-under-lock", "LockedHeap: the source heap is called only with the lock held; mmap/munmap only "
             "under allocLock; the page pool's per-thread list value is read under its lock when it is used")
    for nm in ("allocate", "deallocate"):
        fs = insts(fx, RT + "LockedHeap::" + nm)
        ctx.floor("LockedHeap::" + nm, len(fs), 1)
        for f in fs[:3]:
            fn = ctx.fn(f)
            res = L.analyse(fn)
            src = [(p, e) for p, e in fn.events(lambda e: e.get("k") == "call" and e.get("name") == nm)]
            ok = bool(src) and all(all("lock" in st for st in res.states_at.get(p, {frozenset()})) for p, _ in src) and \
                not res.problems
            ctx.ob("C09.lock.heap-call-under-lock", RT + "LockedHeap::" + nm, ok,
                   "source heap called without the lock / lock not released: %s" % res.problems[:2], fn.loc(), nm,
                   fnkey=f["key"])
    for qn, callee in (("trymmap", "mmap"), (SUB + "freePages", "munmap")):
        fs = fx.fns(qn=qn)
        ctx.floor(qn, len(fs), 1)
        for f in fs[:1]:
            fn = ctx.fn(f)
            res = L.analyse(fn)
            cs = [(p, e) for p, e in fn.events(lambda e: e.get("k") == "call" and e.get("name") == callee)]
            ok = bool(cs) and all(all("allocLock" in st for st in res.states_at.get(p, {frozenset()})) for p, _ in cs) and \
                not res.problems
            ctx.ob("C09.lock.heap-call-under-lock", qn, ok, "%s outside allocLock" % callee, fn.loc(), callee, fnkey=f["key"])
    PA = RT + "internal::PageAllocState::"
    for nm in ("pageAlloc", "pageFree"):
        for f in insts(fx, PA + nm)[:2]:
            fn = ctx.fn(f)
            al = fn.aliases()
            res = L.analyse(fn)
            det = []
            if res.problems:
                det.append("pairing %s" % res.problems[:2])
            for p, e in fn.events(is_call(name="getValue")):
                used_in_branch = False
                blk = fn.blocks[p[0]]
                c = (blk.get("term") or {}).get("cond")
                if c is not None and any(x.get("sid") == e.get("sid") for x in walk(c)):
                    used_in_branch = True
                lk = L.norm(S(e.get("recv"), al))
                held = all(lk in st for st in res.states_at.get(p, {frozenset()}))
                if not held and not (nm == "pageAlloc" and used_in_branch):
                    det.append("list head read without its lock at %s" % fn.loc(p))
            ctx.ob("C09.lock.heap-call-under-lock", PA + nm, not det, "; ".join(det), fn.loc(), nm, fnkey=f["key"])
    ctx.rule("C09.singleton.double-checked", "StaticSingleInstance::getInstance: the instance is created only under the lock, "
             "after re-reading the pointer under the lock, and published by unlock_and_set; the lock is released on all paths")
    fs = insts(fx, RT + "StaticSingleInstance::getInstance")
    ctx.floor("StaticSingleInstance::getInstance instantiations", len(fs), 2)
    for f in fs:
        fn = ctx.fn(f)
        res = L.analyse(fn)
        det = []
        if res.problems:
            det.append("pairing %s" % res.problems[:2])
        news = [(p, e) for p, e in fn.events(lambda e: e.get("k") == "new")]
        if len(news) != 1:
            det.append("creation sites: %d" % len(news))
        for p, e in news:
            if not all("ptr" in st for st in res.states_at.get(p, {frozenset()})):
                det.append("instance created without the lock")
            reread = lambda x: x.get("k") == "assign" and x.get("lp") == "f" and "getValue" in (x.get("rp") or "")
            lk = is_call(name="lock")
            if fn.reaches_without(lambda x: x is e, reread, starts=[fn.after(q) for q, _ in fn.events(lk)]):
                det.append("pointer not re-read under the lock before creating")
            if fn.guarded_positions(lambda x: x is e, lambda t: S(t) == "f", False):
                det.append("instance created although one exists")
            if not fn.must_follow(p, is_call(name="unlock_and_set")):
                det.append("new instance not published")
        ctx.ob("C09.singleton.double-checked", RT + "StaticSingleInstance::getInstance", not det, "; ".join(det), fn.loc(),
               "getInstance", fnkey=f["key"])


# ------------------------------------------------------------------ moves
def moves(ctx, fx):
    ctx.rule("C09.move.source-disarmed",
             "every hand-written move constructor / move assignment of a class whose destructor releases a resource either "
             "swaps the resource field with the source's or stores the destructor's sentinel into the source")
    table = [
        (SUB + "PerThreadStorage", "offset"), (SUB + "PerSocketStorage", "offset"),
        ("galois::LargeArray", "m_data"), ("galois::LargeArray", "m_realdata"),
        ("galois::PODResizeableArray", "data_"),
    ]
    for cls, fld in table:
        fs = [f for f in fx.functions if f.get("cls") == cls and f["kind"] == "inst" and
              (f.get("movector") or f.get("moveassign"))]
        ctx.floor("move operations of " + cls, len(fs), 2)
        seen = set()
        for f in fs:
            kind = "ctor" if f.get("movector") else "assign"
            if (f["clsk"], kind) in seen:
                continue
            seen.add((f["clsk"], kind))
            fn = ctx.fn(f)
            src = f["params"][0]["n"]
            disarm = lambda e: (e.get("k") == "assign" and e.get("lp") == "%s.%s" % (src, fld)) or \
                (e.get("k") == "call" and e.get("name") == "swap" and any(S(a) in ("%s.%s" % (src, fld), src) for a in e.get("a", []))) or \
                (e.get("k") == "call" and e.get("op") == "=" and S(e.get("recv")) == "*this" and src in S(e.get("a", [None])[0]))
            ok = not fn.exit_reachable_without(disarm)
            if kind == "ctor" and not ok:
                # delegating: *this = std::move(o)
                ok = not fn.exit_reachable_without(lambda e: e.get("k") == "call" and e.get("op") == "=")
            ctx.ob("C09.move.source-disarmed", cls + "::" + ("move-ctor" if kind == "ctor" else "move-assign"), ok,
                   "source's %s is neither swapped nor reset: it still releases the moved resource" % fld, fn.loc(), fld,
                   fnkey=f["key"])
    # destructors honour the sentinel
    for cls in (SUB + "PerThreadStorage", SUB + "PerSocketStorage"):
        for f in insts(fx, cls + "::destruct")[:2]:
            fn = ctx.fn(f)
            sent = lambda t: t.get("k") == "bin" and t.get("op") == "==" and "offset" in S(t) and "~0" in S(t)
            rel = is_call(name="deallocOffset")
            det = []
            if fn.guarded_positions(rel, sent, False):
                det.append("offset released although it holds the moved-from sentinel")
            reset = lambda e: e.get("k") == "assign" and e.get("lp") == "this->offset" and "~0" in (e.get("rp") or "")
            for p, _ in fn.events(rel):
                if not fn.must_follow(p, reset):
                    det.append("offset not disarmed after release (double release on a second destruct)")
            ctx.ob("C09.move.source-disarmed", cls + "::destruct", not det, "; ".join(det), fn.loc(), "sentinel",
                   fnkey=f["key"])


def asserts(ctx, fx):
    ctx.rule("C09.static-asserts", "the compile-time guards are present: sizeof(Block) <= AllocSize in BlockHeap, "
             "(1 << MIN_SIZE) == GALOIS_CACHE_LINE_SIZE for per-thread storage")
    texts = [s["text"].replace(" ", "") for s in fx.static_asserts]
    need = [(r"sizeof\(.*Block\)<=.*AllocSize", "BlockHeap block fits the source allocation"),
            (r"\(1<<MIN_SIZE\)==.*CACHE_LINE_SIZE", "smallest per-thread size class is a cache line")]
    fxp = ctx.load("src", patterns=True)
    texts += [s["text"].replace(" ", "") for s in fxp.static_asserts]
    for sub, what in need:
        ok = any(re.search(sub, t) for t in texts)
        ctx.ob("C09.static-asserts", "static_assert", ok, "missing static_assert: " + what, "", sub)
