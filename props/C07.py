"""C07 - deterministic scheduling (structural clauses, narrow)."""
import re

from gsa.cfg import Fn, S, SN, is_call, walk, lit
from gsa import rules as R

EXPL = ("Deterministic executor (every instantiation of the driver matrix: plain, det_id, det_parallel_break, no_pushes, "
        "local_state, fixed_neighborhood, intent_to_read, neighborhood_visitor), every CFG path incl. back edges, with "
        "branches on constant-returning disabled managers pruned: the inspect phase (pendingLoop) and the commit phase "
        "(commitLoop) are separated by a barrier in both directions; the shared round flags innerDone/outerDone/"
        "hasNewWork obey the barrier-interval rule (no write->read, read->write or different-value write->write without "
        "a barrier; same-value writes allowed); new work is sorted, then merged by thread 0 strictly between two "
        "barriers, then copied; the winner of a mark conflict is decided by comparing item ids only; new-item order reads "
        "only (parent, count); no relational comparison of pointers (one documented tie-break exempt), no rand/clock and "
        "no thread id flows into an id; executeTask transfers the push buffer only after a conflict-free run and numbers "
        "pushes 1,2,..; commitLoop commits or re-queues exactly once and always resets; pendingLoop installs the context "
        "before the operator and reports retry on conflict. Thread-count independence of merge/renumbering values and "
        "window sizing are not decided.")

EX = "galois::runtime::internal::Executor"
NW = "galois::runtime::internal::NewWorkManager"
DC = "galois::runtime::internal::DeterministicContextBase"
DFILE = "Executor_Deterministic.h"


def insts(fx, qn):
    return [f for f in fx.functions if f["qn"] == qn and f["kind"] == "inst"]


def run(ctx):
    ctx.explanation = EXPL
    fx = ctx.load("src", "drv_det")
    phases(ctx, fx)
    remote_state(ctx, fx)
    new_work(ctx, fx)
    winners(ctx, fx)
    taint(ctx, fx)
    tasks(ctx, fx)


def phases(ctx, fx):
    ctx.rule("C07.phases.barrier-separated",
             "Executor::go: every path from pendingLoop to commitLoop and from commitLoop (around the back edges) to the next "
             "pendingLoop passes barrier.wait()")
    ctx.rule("C07.flags.barrier-interval",
             "Executor::go: between a write of innerDone/outerDone/hasNewWork and a read, between a read and a write, and "
             "between writes of different values there is a barrier on every path (same-value writes by all threads allowed)")
    fs = insts(fx, EX + "::go")
    ctx.floor("deterministic Executor::go instantiations", len(fs), 6)
    for f in fs:
        fn = ctx.fn(f)
        env = R.const_call_env(fx, fn)
        eok = R.edges_under(fn, env)
        bw = lambda e: is_call(name="wait", recv=r"barrier$")(e) or \
            (e.get("k") == "call" and e.get("name") in ("checkBreak", "executeDAG", "buildIntentToRead",
                                                          "distributeNewWork", "calculateWindow") and
             callee_has_barrier(fx, e))
        pl = is_call(name="pendingLoop")
        cl = is_call(name="commitLoop")
        det = []
        if not any(True for _ in fn.events(pl)) or not any(True for _ in fn.events(cl)):
            det.append("pendingLoop/commitLoop call missing")
        for p, _ in fn.events(pl):
            if fn.reaches_without(cl, bw, starts=[fn.after(p)], edge_ok=eok):
                det.append("commit phase reachable from the inspect phase without a barrier")
        for p, _ in fn.events(cl):
            if fn.reaches_without(pl, bw, starts=[fn.after(p)], edge_ok=eok):
                det.append("next inspect phase reachable from the commit phase without a barrier")
        ctx.ob("C07.phases.barrier-separated", EX + "::go", not det, "; ".join(sorted(set(det))), fn.loc(), "phases",
               fnkey=f["key"])
        det = []
        for flag in ("innerDone", "outerDone", "hasNewWork"):
            path = "this->%s.get()" % flag
            wr = lambda e, path=path: e.get("k") == "assign" and e.get("lp") == path
            rd = lambda e, path=path: e.get("k") == "read" and e.get("p") == path
            ws = list(fn.events(wr))
            rs = list(fn.events(rd))
            if (not ws or not rs) and flag != "hasNewWork":
                det.append("%s: %d writes, %d reads" % (flag, len(ws), len(rs)))
                continue
            for p, e in ws:
                v = e.get("rp")
                conflict = lambda x, v=v: rd(x) or (wr(x) and x.get("rp") != v)
                h = fn.reaches_without(conflict, bw, starts=[fn.after(p)], edge_ok=eok)
                for q in h:
                    det.append("%s written (%s) at %s, then %s at %s without a barrier" % (
                        flag, v, fn.loc(p).split(":")[-1], "read" if rd(fn.ev(q)) else "written (%s)" % fn.ev(q).get("rp"),
                        fn.loc(q).split(":")[-1]))
            for p, e in rs:
                h = fn.reaches_without(wr, bw, starts=[fn.after(p)], edge_ok=eok)
                for q in h:
                    det.append("%s read at %s, then written at %s without a barrier" % (
                        flag, fn.loc(p).split(":")[-1], fn.loc(q).split(":")[-1]))
        ctx.ob("C07.flags.barrier-interval", EX + "::go", not det, "; ".join(sorted(set(det))[:4]), fn.loc(), "flags",
               fnkey=f["key"])


def _callee(fx, e):
    fk = e.get("fk")
    if not fk:
        return None
    idx = getattr(fx, "_by_fk", None)
    if idx is None:
        idx = {}
        for g in fx.functions:
            if g["kind"] != "pattern":
                idx.setdefault(g["key"].split("(")[0], []).append(g)
        fx._by_fk = idx
    for g in idx.get(fk, ()):
        if g["qn"] == e.get("fn") and g["key"].startswith(fk + "("):
            return g
    return None


_eff = {}


def effects(fx, g, depth=5):
    """(fields read through another thread's slot, fields written) by g and its callees that do not themselves contain a
    barrier (those synchronise internally and are treated as barriers by the caller); fields are fully-qualified names"""
    k = g["key"]
    if k in _eff:
        return _eff[k]
    _eff[k] = (frozenset(), frozenset())        # recursion guard
    gn = Fn(g)
    al = gn.aliases()
    rd, wr = set(), set()
    for _, e in gn.events():
        if e.get("k") == "read":
            t = e.get("e")
            if isinstance(t, dict) and t.get("k") == "mem" and t.get("fq") and "getRemote(" in S(t, al):
                rd.add(t["fq"])
        elif e.get("k") == "assign":
            t = e.get("lhs")
            if isinstance(t, dict) and t.get("k") == "mem" and t.get("fq"):
                wr.add(t["fq"])
        elif e.get("k") == "call" and depth > 0:
            h = _callee(fx, e)
            if h is not None and h.get("file", "").endswith(DFILE) and not callee_has_barrier(fx, e):
                r2, w2 = effects(fx, h, depth - 1)
                rd |= r2
                wr |= w2
    _eff[k] = (frozenset(rd), frozenset(wr))
    return _eff[k]


def remote_state(ctx, fx):
    ctx.rule("C07.remote.barrier-interval",
             "Executor::go: for every field some callee reads through another thread's slot (getRemote) - the window "
             "manager's committed/iterations counters - a barrier lies on every path (incl. loop back edges) between a call "
             "that reads it remotely and a call that writes it, in both directions (transitive read/write summaries over the "
             "deterministic executor; callees that contain a barrier on every path count as barriers)")
    fs = insts(fx, EX + "::go")
    seen_fields = set()
    for f in fs:
        fn = ctx.fn(f)
        env = R.const_call_env(fx, fn)
        eok = R.edges_under(fn, env)
        bw = lambda e: is_call(name="wait", recv=r"barrier$")(e) or \
            (e.get("k") == "call" and e.get("fk") and callee_has_barrier(fx, e))
        calls = []
        for p, e in fn.events(lambda e: e.get("k") == "call" and e.get("fk")):
            if bw(e):
                continue
            h = _callee(fx, e)
            if h is None or not h.get("file", "").endswith(DFILE):
                continue
            calls.append((p, e, effects(fx, h)))
        shared = set()
        for _, _, (r, w) in calls:
            shared |= r
        seen_fields |= shared
        det = []
        for fq in sorted(shared):
            short = fq.split("::")[-1]
            readers = [(p, e) for p, e, (r, w) in calls if fq in r]
            writers = [(p, e) for p, e, (r, w) in calls if fq in w]
            wpos = {p for p, _ in writers}
            rpos = {p for p, _ in readers}
            for p, e in readers:
                h, _ = fn.search([fn.after(p)], stop=lambda x: bw(x) or any(x is fn.ev(q) for q in wpos), edge_ok=eok)
                for q in h:
                    if q in wpos:
                        det.append("%s read from other threads by %s (line %s), then written by %s (line %s) with no barrier "
                                   "in between" % (short, e.get("name"), e.get("l"), fn.ev(q).get("name"), fn.ev(q).get("l")))
            for p, e in writers:
                h, _ = fn.search([fn.after(p)], stop=lambda x: bw(x) or any(x is fn.ev(q) for q in rpos), edge_ok=eok)
                for q in h:
                    if q in rpos:
                        det.append("%s written by %s (line %s), then read from other threads by %s (line %s) with no barrier "
                                   "in between" % (short, e.get("name"), e.get("l"), fn.ev(q).get("name"), fn.ev(q).get("l")))
        ctx.ob("C07.remote.barrier-interval", EX + "::go", not det, "; ".join(sorted(set(det))[:4]), fn.loc(),
               "remote:" + ",".join(sorted(x.split("::")[-1] for x in shared)), fnkey=f["key"],
               nontrivial=bool(shared))
    ctx.floor("remotely read fields seen from Executor::go (window counters)", len(seen_fields), 2)


_cb = {}


def callee_has_barrier(fx, e):
    """the callee waits on the barrier on every path to its normal exit"""
    fk = e.get("fk")
    if fk in _cb:
        return _cb[fk]
    res = False
    for g in fx.functions:
        if g["qn"] == e.get("fn") and g["key"].startswith(fk + "("):
            gn = Fn(g)
            env = R.const_call_env(fx, gn)
            bwp = lambda x: is_call(name="wait", recv=r"barrier$")(x) or \
                (x.get("k") == "call" and x.get("name") in ("parallelSort", "copyMineAfterRedistribute") and
                 callee_has_barrier(fx, x))
            _cb[fk] = False     # recursion guard
            res = any(True for _ in gn.events(bwp)) and not gn.exit_reachable_without(bwp, edge_ok=R.edges_under(gn, env))
            break
    _cb[fk] = res
    return res


def new_work(ctx, fx):
    ctx.rule("C07.newwork.leader-merge-bracketed",
             "parallelSort: local sort and limits precede the first barrier; the thread-0 merge block lies strictly between "
             "two barriers; the merged work is read only after the second; copyMineAfterRedistribute resizes by thread 0, "
             "barrier, redistribute, barrier, copy")
    fs = insts(fx, NW + "::parallelSort")
    ctx.floor("parallelSort instantiations", len(fs), 6)
    for f in fs:
        fn = ctx.fn(f)
        bw = is_call(name="wait", recv=r"barrier$")
        det = []
        waits = list(fn.events(bw))
        if len(waits) != 2:
            det.append("barrier waits: %d" % len(waits))
        leader = lambda e: e.get("k") == "call" and e.get("name") in ("receiveLimits", "broadcastLimits", "merge")
        consume = lambda e: e.get("k") == "call" and e.get("name") in ("copyAllWithIds", "copyMineAfterRedistribute", "nextWindow")
        produce = lambda e: e.get("k") == "call" and e.get("name") in ("sort", "initialLimits")
        if not any(True for _ in fn.events(leader)):
            det.append("no leader merge block")
        if fn.reaches_without(leader, bw):
            det.append("leader merges before the first barrier")
        for p, _ in fn.events(leader):
            if fn.reaches_without(consume, bw, starts=[fn.after(p)]):
                det.append("merged work consumed without a barrier after the merge")
        for p, _ in fn.events(produce):
            if fn.reaches_without(consume, bw, starts=[fn.after(p)]):
                det.append("local results consumed without a barrier")
        if fn.reaches_without(bw, produce):
            det.append("barrier reached before the local sort/limits")
        tid = lambda t: S(t) == "(tid == 0)" or (t.get("k") == "ref" and t.get("n") == "tid")
        if fn.guarded_positions(leader, lambda t: t.get("k") == "ref" and t.get("n") == "tid", False):
            det.append("merge executed by threads other than 0")
        ctx.ob("C07.newwork.leader-merge-bracketed", NW + "::parallelSort", not det, "; ".join(sorted(set(det))), fn.loc(),
               "parallelSort", fnkey=f["key"])
    fs = insts(fx, NW + "::copyMineAfterRedistribute")
    ctx.floor("copyMineAfterRedistribute instantiations", len(fs), 6)
    for f in fs:
        fn = ctx.fn(f)
        bw = is_call(name="wait", recv=r"barrier$")
        rs = is_call(name="resize")
        rd = is_call(name="redistribute")
        cm = is_call(name="copyMine")
        det = []
        if fn.reaches_without(rd, bw) or fn.reaches_without(cm, rd):
            det.append("redistribute before the first barrier / copy before redistribute")
        for p, _ in fn.events(rd):
            if fn.reaches_without(cm, bw, starts=[fn.after(p)]):
                det.append("copy without a barrier after redistribute")
        for p, _ in fn.events(rs):
            if fn.reaches_without(rd, bw, starts=[fn.after(p)]):
                det.append("redistribute without a barrier after the resize")
        if fn.guarded_positions(rs, lambda t: t.get("k") == "ref" and t.get("n") == "tid", False):
            det.append("buffer resized by threads other than 0")
        ctx.ob("C07.newwork.leader-merge-bracketed", NW + "::copyMineAfterRedistribute", not det, "; ".join(sorted(set(det))),
               fn.loc(), "redistribute", fnkey=f["key"])


def winners(ctx, fx):
    ctx.rule("C07.winner.by-id", "alwaysAcquire (all context flavours): the conflict decision is `other id < this id` on the "
             "item ids only; the loser is marked not ready; stealing uses the CAS on the owner word; the holder handed to the CAS is one "
             "whose id was compared after it was (re)loaded -- on every path from a load of the holder to the steal attempt")
    ctx.rule("C07.newitem.order", "DNewItem::operator< / == read only (parent, count), lexicographically")
    fs = [f for f in insts(fx, DC + "::alwaysAcquire") + insts(fx, DC + "::acquireRead") + insts(fx, DC + "::acquireWrite")]
    ctx.floor("deterministic acquire functions", len(fs), 8)
    for f in fs:
        fn = ctx.fn(f)
        al = fn.aliases()
        confl = [e for _, e in fn.events(lambda e: e.get("k") == "decl" and e.get("n") == "conflict")]
        if not confl:
            # fixed-neighbourhood flavour builds a DAG instead: no winner decision here
            if "true, false>" in f["key"] or not any(True for _ in fn.events(is_call(name="stealByCAS"))):
                continue
        det = []
        for e in confl:
            t = e.get("init")
            s = SN(t, al)       # a > b is spelled b < a
            ok = isinstance(t, dict) and t.get("k") == "bin" and t.get("op") in ("<", ">") and \
                re.fullmatch(r"\(other->(item\.)?id < this->(item\.)?id\)", s)
            if not ok:
                det.append("conflict decided by %s" % s)
        # notReady = true only when conflict (own) ; other->notReady only after winning the CAS
        own_nr = lambda e: e.get("k") == "assign" and e.get("lp") in ("this->notReady",) and e.get("rp") == "true"
        if fn.guarded_positions(own_nr, lambda t: S(t) == "conflict", True):
            det.append("own notReady set without having lost the id comparison")
        oth_nr = lambda e: e.get("k") == "assign" and re.match(r"other->(\w+\.)?notReady", e.get("lp", "")) and e.get("rp") == "true"
        cas = lambda t: t.get("k") == "call" and t.get("name") == "stealByCAS"
        if any(True for _ in fn.events(oth_nr)) and fn.guarded_positions(oth_nr, cas, True):
            det.append("loser disabled without having won the CAS")
        # the holder the lock is stolen from is the holder whose id was compared: every (re)load of `other` is followed by
        # the id comparison before the steal is attempted with it (a failed CAS means the holder changed -- the new holder may
        # have the smaller id, and stealing from it makes the larger id commit first)
        steal = is_call(name="stealByCAS")
        steals = [e for _, e in fn.events(steal)]
        if steals and confl:
            victim = None
            for e in steals:
                a = e.get("a", [])
                if len(a) >= 2:
                    victim = S(a[-1])
            loads = [(p, e) for p, e in fn.events(lambda e: (e.get("k") == "assign" and e.get("lp") == victim and e.get("op") == "=") or
                                                  (e.get("k") == "decl" and e.get("n") == victim and "init" in e))]
            cmpd = lambda e: e.get("k") == "decl" and e.get("n") == "conflict"
            if victim is None or not loads:
                det.append("the holder handed to stealByCAS is not a reloaded local")
            for p, e in loads:
                # a holder that is null (free lock) needs no comparison: only paths on which it is non-null count
                nn = fn.guard_edges(lambda t, v=victim: S(t) == v, False)
                if fn.reaches_without(steal, cmpd, starts=[fn.after(p)], edge_ok=lambda b, i, s_: (b, i) not in nn):
                    det.append("the holder reloaded at line %s reaches stealByCAS without its id having been compared with "
                               "this context's: after a failed CAS the lock may be stolen from a context with a smaller id" % e.get("l"))
        ctx.ob("C07.winner.by-id", f["qn"], not det, "; ".join(sorted(set(det))), fn.loc(), "conflict", fnkey=f["key"])
    NI = "galois::runtime::internal::DNewItem"
    fs = insts(fx, NI + "::operator<")
    ctx.floor("DNewItem::operator<", len(fs), 1)
    for f in fs[:2]:
        fn = ctx.fn(f)
        fields = set()
        for _, e in fn.events(reachable_only=False):
            for n in walk(e):
                if n.get("k") == "mem" and n.get("fq", "").startswith(NI + "::"):
                    fields.add(n["n"])
        for b in fn.blocks.values():
            for n in walk(b.get("term") or {}):
                if n.get("k") == "mem" and n.get("fq", "").startswith(NI + "::"):
                    fields.add(n["n"])
        det = []
        if fields != {"parent", "count"}:
            det.append("ordering reads %s" % sorted(fields))
        rets = [SN(e.get("e")) for _, e in fn.events(lambda e: e["k"] == "ret")]
        if sorted(rets) != sorted(["true", "(this->count < o.count)", "false"]):
            det.append("returns %s" % rets)
        lt = lambda t: SN(t) == "(this->parent < o.parent)"
        eq = lambda t: SN(t) in ("(this->parent == o.parent)", "(o.parent == this->parent)")
        rt = lambda e: e.get("k") == "ret" and S(e.get("e")) == "true"
        rc = lambda e: e.get("k") == "ret" and "count" in S(e.get("e"))
        if fn.guarded_positions(rt, lt, True) or fn.guarded_positions(rc, eq, True):
            det.append("not lexicographic on (parent, count)")
        ctx.ob("C07.newitem.order", NI + "::operator<", not det, "; ".join(det), fn.loc(), "order", fnkey=f["key"])


def taint(ctx, fx):
    ctx.rule("C07.taint.no-address-or-clock-order",
             "Executor_Deterministic.h: no relational comparison of pointer values (exempt: ContextPtrLessThan's tie-break on "
             "equal ids), no rand/clock/time call, and no thread id in the arguments of an item / new-item constructor or "
             "in an id assignment")
    n = 0
    for f in fx.functions:
        if f["kind"] == "pattern" or not f["file"].endswith(DFILE):
            continue
        fn = ctx.fn(f)
        n += 1
        det = []
        exempt = f["qn"].endswith("ContextPtrLessThan::operator()")

        def scan(t):
            for x in walk(t):
                if x.get("k") == "bin" and x.get("op") in ("<", ">", "<=", ">="):
                    for side in (x.get("l"), x.get("r")):
                        ti = (side or {}).get("t") or {}
                        if ti.get("ptr") and not exempt:
                            det.append("relational comparison of pointers: %s" % S(x))
                if x.get("k") == "call" and x.get("name") in ("rand", "random", "clock", "time", "rdtsc", "now",
                                                                "gettimeofday", "clock_gettime"):
                    det.append("call to %s" % x.get("name"))
        for b in fn.blocks.values():
            scan(b.get("term") or {})
            for e in b["ev"]:
                scan(e)
                if e.get("k") == "ctor" and e.get("fn", "").split("::")[-1] in ("DItem", "DNewItem", "DItemBase") or \
                        (e.get("k") == "assign" and e.get("lp", "").endswith(".id")):
                    s = S(e)
                    if "getTID" in s or re.search(r"\btid\b", s):
                        det.append("thread id flows into an id: %s" % s[:80])
        if det or fn.count_paths_ge2():
            ctx.ob("C07.taint.no-address-or-clock-order", f["qn"], not det, "; ".join(sorted(set(det))[:3]), fn.loc(),
                   "taint", nontrivial=fn.count_paths_ge2(), fnkey=f["key"])
    ctx.floor("functions of Executor_Deterministic.h scanned", n, 300)


def tasks(ctx, fx):
    ctx.rule("C07.task.push-after-success",
             "executeTask: the push buffer is transferred (pushNew) only on the conflict-free path, each push numbered by "
             "++count under the parent's id; a CONFLICT result returns false before the transfer")
    ctx.rule("C07.commit.once-and-reset",
             "commitLoop: per context exactly one of {commitIteration} / {wlnext->push(item) + cancelIteration}; on both "
             "paths resetPushBuffer, clear and popContext follow; setThreadContext(0) on exit; a re-queued item makes the "
             "function return true")
    ctx.rule("C07.inspect.context-installed",
             "pendingLoop: startIteration, setFirstPass and setThreadContext(ctx) precede runFunction; a CONFLICT result "
             "(without fixed neighbourhood) makes the function return true")
    fs = insts(fx, EX + "::executeTask")
    ctx.floor("executeTask instantiations", len(fs), 6)
    for f in fs:
        fn = ctx.fn(f)
        env = {"CONFLICT": -1, "galois::runtime::CONFLICT": -1}
        pn = is_call(name="pushNew")
        det = []
        has_push = any(True for _ in fn.events(pn))
        for val, nm in ((-1, "CONFLICT"),):
            eok = R.edges_under(fn, {"result": val})
            # start after the operator call
            h, ex = fn.search([fn.entry_state()], stop=pn, edge_ok=switch_edges(fn, "result", val, eok))
            if h:
                det.append("push buffer transferred on the CONFLICT path")
            rets = set()
            fn.search([fn.entry_state()], stop=None, edge_ok=switch_edges(fn, "result", val, eok),
                      through=lambda p, e: rets.add(S(e.get("e"))) if e.get("k") == "ret" else None)
            if rets - {"false"}:
                det.append("CONFLICT path returns %s" % sorted(rets))
        if has_push:
            for _, e in fn.events(pn):
                a = [S(x) for x in e.get("a", [])]
                if len(a) != 3 or a[1] != "parent" or a[2] != "++count":
                    det.append("pushNew arguments %s" % a)
            d = fn.defs().get("parent")
            par = [e for _, e in fn.events(lambda e: e.get("k") == "decl" and e.get("n") == "parent")]
            if not par or par[0].get("ip") != "ctx->item.id":
                det.append("parent id is %s" % (par[0].get("ip") if par else None))
            cnt = [e for _, e in fn.events(lambda e: e.get("k") == "decl" and e.get("n") == "count")]
            if not cnt or cnt[0].get("ip") != "0":
                det.append("count does not start at 0")
        ctx.ob("C07.task.push-after-success", EX + "::executeTask", not det, "; ".join(sorted(set(det))), fn.loc(),
               "executeTask", fnkey=f["key"])
    fs = insts(fx, EX + "::commitLoop")
    ctx.floor("commitLoop instantiations", len(fs), 6)
    for f in fs:
        fn = ctx.fn(f)
        det = []
        ci = is_call(name="commitIteration", recv=r"^ctx$")
        ca = is_call(name="cancelIteration", recv=r"^ctx$")
        rq = lambda e: is_call(name="push")(e) and (e.get("rp") or "").endswith("wlnext") and \
            [S(x) for x in e.get("a", [])] == ["ctx->item"]
        pk = is_call(name="peekContext")
        pc = is_call(name="popContext")
        cm = lambda t: S(t) == "commit"
        # per round: from peek to pop exactly one branch
        if fn.guarded_positions(ci, cm, True):
            det.append("commitIteration on the non-commit path")
        if fn.guarded_positions(rq, cm, False) or fn.guarded_positions(ca, cm, False):
            det.append("re-queue / cancel on the commit path")
        ge_c = fn.guard_edges(cm, True)
        ge_n = fn.guard_edges(cm, False)
        for p, _ in fn.events(pk):
            if fn.reaches_without(pc, ci, starts=[fn.after(p)], edge_ok=lambda b, i, s: (b, i) not in ge_n):
                det.append("commit path does not release the neighbourhood")
            for q in (rq, ca):
                if fn.reaches_without(pc, q, starts=[fn.after(p)], edge_ok=lambda b, i, s: (b, i) not in ge_c):
                    det.append("abort path does not re-queue the item / cancel the iteration")
            for nm, q in (("resetPushBuffer", is_call(name="resetPushBuffer")), ("ctx->clear", is_call(name="clear", recv=r"^ctx$"))):
                if fn.reaches_without(pc, q, starts=[fn.after(p)]):
                    det.append("%s skipped before popContext" % nm)
        for p, _ in fn.events(rq):
            h, _ = fn.search([fn.after(p)], stop=lambda e: rq(e) or pc(e))
            if any(rq(fn.ev(q)) for q in h):
                det.append("item re-queued twice")
        if fn.exit_reachable_without(lambda e: is_call(name="setThreadContext")(e) and S(e["a"][0]) in ("0", "nullptr")):
            det.append("thread context not cleared on exit")
        rt = lambda e: e.get("k") == "assign" and e.get("lp") == "retval" and e.get("rp") == "true"
        for p, _ in fn.events(rq):
            if fn.reaches_without(pc, rt, starts=[fn.after(p)]) and fn.reaches_without(rq, rt):
                det.append("re-queued work not reported (retval)")
        # commit is the result of executeTask on a ready context
        cas = [e for _, e in fn.events(lambda e: e.get("k") == "assign" and e.get("lp") == "commit")]
        if len(cas) != 1 or "executeTask" not in (cas[0].get("rp") or ""):
            det.append("commit is not the result of executeTask")
        elif fn.guarded_positions(lambda e: e is cas[0], lambda t: t.get("k") == "call" and t.get("name") == "isReady", True):
            det.append("task executed although its context is not ready")
        ctx.ob("C07.commit.once-and-reset", EX + "::commitLoop", not det, "; ".join(sorted(set(det))), fn.loc(), "commitLoop",
               fnkey=f["key"])
    fs = insts(fx, EX + "::pendingLoop")
    ctx.floor("pendingLoop instantiations", len(fs), 6)
    for f in fs:
        fn = ctx.fn(f)
        det = []
        rf = is_call(name="runFunction")
        for nm, q in (("startIteration", is_call(name="startIteration", recv=r"^ctx$")),
                      ("setFirstPass", is_call(name="setFirstPass", recv=r"^ctx$")),
                      ("setThreadContext(ctx)", lambda e: is_call(name="setThreadContext")(e) and S(e["a"][0]) == "ctx")):
            # per round: since the pop
            pops = [fn.after(p) for p, _ in fn.events(is_call(name="pop"))]
            if fn.reaches_without(rf, q, starts=pops or None):
                det.append("%s does not precede runFunction" % nm)
        # first-pass flags are reset after the run
        for nm, q in (("ctx->resetFirstPass", is_call(name="resetFirstPass", recv=r"^ctx$")),):
            for p, _ in fn.events(rf):
                nxt = lambda e: is_call(name="pop")(e)
                if fn.reaches_without(nxt, q, starts=[fn.after(p)]):
                    det.append("%s skipped after runFunction" % nm)
        fixed = "fixed_neighborhood" in f["key"]
        if not fixed:
            eok = switch_edges(fn, "result", -1, None)
            rt = lambda e: e.get("k") == "assign" and e.get("lp") == "retval" and e.get("rp") == "true"
            for p, _ in fn.events(rf):
                nxt = lambda e: is_call(name="pop")(e)
                h, ex = fn.search_tracked([fn.after(p)], stop=lambda e: rt(e) or nxt(e), edge_ok=eok, track={"commit"})
                if any(nxt(fn.ev(q)) for q, _k in h) or ex:
                    det.append("a CONFLICT in the inspect phase does not request another round")
        rets = {S(e.get("e")) for _, e in fn.events(lambda e: e["k"] == "ret")}
        if rets != {"retval"}:
            det.append("returns %s" % sorted(rets))
        ctx.ob("C07.inspect.context-installed", EX + "::pendingLoop", not det, "; ".join(sorted(set(det))), fn.loc(),
               "pendingLoop", fnkey=f["key"])


def switch_edges(fn, var, val, base):
    """edge filter: at `switch (var)` only the case with value val (or default when no case matches) is followed;
    combined with an optional base filter"""
    allowed = {}
    for bid, b in fn.blocks.items():
        t = b.get("term") or {}
        if t.get("cls") != "SwitchStmt" or S(t.get("cond")) != var:
            continue
        succ = b.get("succ", [])
        match, default = None, None
        for i, s in enumerate(succ):
            if s is None:
                continue
            lab = fn.blocks[s].get("label") or {}
            if lab.get("k") == "case" and lab.get("v") == val:
                match = i
            if lab.get("k") == "default":
                default = i
        # fall-through chains: a case label block may be reached from the previous label; find the label block
        if match is None:
            # the value may be on a later label in a fall-through chain
            for i, s in enumerate(succ):
                if s is None:
                    continue
                lab = fn.blocks[s].get("label") or {}
                if lab.get("k") == "case" and lab.get("v") == val:
                    match = i
        allowed[bid] = match if match is not None else (default if default is not None else len(succ) - 1)

    def edge_ok(bid, i, s):
        if bid in allowed and i != allowed[bid]:
            return False
        return base(bid, i, s) if base is not None else True
    return edge_ok
