"""C08 - level-synchronous schedulers (structural clauses)."""
import re

from gsa.cfg import Fn, S, SC, is_call, walk, lit, SN
from gsa import rules as R
from .common import executor_instances, FE, wl_name, split_targs

EXPL = ("Assumes that the system barrier is a barrier (decided separately as C05: a fault inside TopoBarrier is reported there, see seeded/C08-2). BulkSynchronous (every instantiation) and OrderedByIntegerMetric with the barrier option (every instantiation in "
        "the driver matrix), every CFG path incl. loop back edges: push goes to the queue of round+1 and pop reads the queue "
        "of round (index expressions differ by exactly the parity flip); after a failing pop two barrier waits separate the "
        "rounds, the round flip and thread 0's update of the shared flags lie strictly between them, every write of `some` "
        "is barrier-separated from thread 0's read, and the emptiness flag is only read after the second barrier of the "
        "interval that wrote it; push_initial seeds round 1; barrier-OBIM never leaves its bucket in pop (no slowPop), "
        "does not retarget the current bucket in push, and agrees on the next level in empty(): own state written before "
        "the first wait, all remote reads between the two waits over all active threads with the scheduler's comparator, "
        "own retargeting after the second; the executor re-arms and waits on the barrier after a non-empty checkEmpty. "
        "Monotone-operator assumption and priority arithmetic are not decided.")

W = "galois::worklists::"
BS = W + "BulkSynchronous"
OBIM = W + "OrderedByIntegerMetric"


def nrm(s):
    return s.replace("(*", "(").replace("->", ".").lstrip("*")


def run(ctx):
    ctx.explanation = EXPL
    fx = ctx.load("src", "drv_foreach", "wlcompile")
    bulk(ctx, fx)
    obim(ctx, fx)
    obim_master_log(ctx, fx)
    obim_leftover_min(ctx, fx)
    executor(ctx, fx)


def insts(fx, qn):
    return [f for f in fx.functions if f["qn"] == qn and f["kind"] == "inst"]


def bulk(ctx, fx):
    ctx.rule("C08.bsp.push-next-pop-current",
             "BulkSynchronous: push(val) goes to wls[(round + 1) & 1] and every pop reads wls[round] of the same per-thread "
             "round variable")
    ctx.rule("C08.bsp.double-barrier",
             "BulkSynchronous::pop: after a failing pop, the next pop is reached only through barrier.wait(); round flip; "
             "barrier.wait(); thread 0's stores to isEmpty/some and its read of some lie strictly between the two waits")
    ctx.rule("C08.bsp.flag-separation",
             "BulkSynchronous::pop: every `some = true` is followed by a barrier wait before thread 0 reads `some`; isEmpty is "
             "read only after the second barrier following its write; the flag update is done by thread 0 only and declares "
             "empty exactly when nobody set `some`")
    ctx.rule("C08.bsp.seed", "BulkSynchronous::push_initial pushes the range, then sets round = 1 and some = true")
    pushes = [f for f in insts(fx, BS + "::push") if len(f["params"]) == 1]
    pops = insts(fx, BS + "::pop")
    ctx.floor("BulkSynchronous::push/pop instantiations", min(len(pushes), len(pops)), 1)
    for f in pushes:
        fn = ctx.fn(f)
        al = fn.aliases()
        ps = [e for _, e in fn.events(is_call(name="push"))]
        idx = [nrm(S(e["recv"]["i"], al)) for e in ps if isinstance(e.get("recv"), dict) and e["recv"].get("k") == "idx"]
        ok = len(ps) == 1 and idx == ["((this.tlds.getLocal().round + 1) & 1)"]
        ctx.ob("C08.bsp.push-next-pop-current", BS + "::push", ok, "push index is %s" % idx, fn.loc(), "push-index",
               fnkey=f["key"])
    for f in pops:
        fn = ctx.fn(f)
        al = fn.aliases()
        popc = lambda e: is_call(name="pop")(e) and isinstance(e.get("recv"), dict) and e["recv"].get("k") == "idx" \
            and "wls" in S(e["recv"]["b"])
        pcs = list(fn.events(popc))
        idx = {nrm(S(e["recv"]["i"], al)) for _, e in pcs}
        ok = len(pcs) == 2 and idx == {"this.tlds.getLocal().round"}
        ctx.ob("C08.bsp.push-next-pop-current", BS + "::pop", ok, "pop indices are %s (%d pops)" % (sorted(idx), len(pcs)),
               fn.loc(), "pop-index", fnkey=f["key"])
        bw = is_call(name="wait", recv=r"barrier$")
        flip = lambda e: e.get("k") == "assign" and nrm(S(e.get("lhs"), al)) == "this.tlds.getLocal().round"
        det = []
        flips = list(fn.events(flip))
        if len(flips) != 1:
            det.append("round flips: %d" % len(flips))
        else:
            v = nrm(SC(flips[0][1].get("rhs"), al))      # operand order of & and + does not matter
            if v not in ("(((this.tlds.getLocal().round + 1) & 1)", "((1 + this.tlds.getLocal().round) & 1)",
                         "(1 & (1 + this.tlds.getLocal().round))", "(1 & (this.tlds.getLocal().round + 1))",
                         "((this.tlds.getLocal().round + 1) & 1)"):
                det.append("flip computes %s" % v)
        # holder of the pop result
        rlit = lambda t: S(t) == "r"
        ge_fail = fn.guard_edges(rlit, False)
        if not ge_fail:
            det.append("no test of the pop result")
        # (b) flip strictly between the two waits: flip only after a wait; from the flip the next pop needs a wait;
        #     and from a wait, a second wait is not reachable without the flip
        starts_after_pop = [fn.after(p) for p, _ in pcs]
        if fn.reaches_without(flip, bw, starts=starts_after_pop):
            det.append("round flipped before the first barrier")
        for p, _ in flips:
            if fn.reaches_without(popc, bw, starts=[fn.after(p)]):
                det.append("pop after the flip without the second barrier")
        # exactly two waits between consecutive pops of different rounds: wait; (no pop) ; wait
        waits = list(fn.events(bw))
        if len(waits) != 2:
            det.append("barrier waits: %d" % len(waits))
        ctx.ob("C08.bsp.double-barrier", BS + "::pop", not det, "; ".join(sorted(set(det))), fn.loc(), "barriers",
               fnkey=f["key"])
        # thread-0 flag update between the waits
        det = []
        st_some_f = lambda e: e.get("k") == "atomic" and e["kind"] == "store" and "some" in e["p"] and S(e["a"][0]) in ("false", "0")
        st_some_t = lambda e: e.get("k") == "atomic" and e["kind"] == "store" and "some" in e["p"] and S(e["a"][0]) in ("true", "1")
        st_empty = lambda e: e.get("k") == "atomic" and e["kind"] == "store" and e["p"].endswith("isEmpty")
        ld_some = lambda e: e.get("k") == "atomic" and e["kind"] == "load" and "some" in e["p"]
        ld_empty = lambda e: e.get("k") == "atomic" and e["kind"] == "load" and e["p"].endswith("isEmpty")
        between = lambda e: st_some_f(e) or st_empty(e) or ld_some(e)
        if not any(True for _ in fn.events(st_some_f)) or not any(True for _ in fn.events(st_empty)) or \
                not any(True for _ in fn.events(ld_some)):
            det.append("leader flag update missing")
        if fn.reaches_without(between, bw, starts=[fn.entry_state()] + [fn.after(p) for p, _ in flips]):
            det.append("leader flag access before the first barrier of the interval")
        for p, _ in fn.events(between):
            if fn.reaches_without(popc, bw, starts=[fn.after(p)]) or fn.reaches_without(ld_empty, bw, starts=[fn.after(p)]):
                det.append("leader flag access not followed by the second barrier")
        # and they come before the flip?  (not required) -- but by thread 0 only
        tid = lambda t: t.get("k") == "call" and t.get("name") == "getTID"   # lit() strips `== 0`
        for nm, p in (("isEmpty store", st_empty), ("some = false", st_some_f)):
            if fn.guarded_positions(p, tid, False):
                det.append("%s by a thread other than 0" % nm)
        # empty declared exactly when nobody set some
        somel = lambda t: "some" in S(t) and t.get("k") in ("call", "mem")
        if fn.guarded_positions(st_empty, lambda t: "some" in S(t), False):
            det.append("isEmpty set although `some` was observed true")
        ev = {S(e["a"][0]) for _, e in fn.events(st_empty)}
        if ev != {"true"}:
            det.append("isEmpty stored %s" % sorted(ev))
        # some = true writes: followed by a wait before the leader's read
        for p, _ in fn.events(st_some_t):
            if fn.reaches_without(ld_some, bw, starts=[fn.after(p)]):
                det.append("`some = true` not barrier-separated from the leader's read")
        if not any(True for _ in fn.events(st_some_t)):
            det.append("nobody reports work for the new round")
        # some = true exactly when the post-flip pop succeeded
        if fn.guarded_positions(st_some_t, rlit, True):
            det.append("`some = true` without having popped an item")
        # clearing some happens after reading it
        if fn.reaches_without(st_some_f, ld_some, starts=[fn.after(p) for p, _ in waits]):
            det.append("`some` cleared before it was read")
        ctx.ob("C08.bsp.flag-separation", BS + "::pop", not det, "; ".join(sorted(set(det))), fn.loc(), "flags",
               fnkey=f["key"])
    for f in insts(fx, BS + "::push_initial"):
        fn = ctx.fn(f)
        al = fn.aliases()
        det = []
        pu = is_call(name="push")
        rd = lambda e: e.get("k") == "assign" and nrm(S(e.get("lhs"), al)).endswith("tlds.getLocal().round")
        sm = lambda e: e.get("k") == "atomic" and e["kind"] == "store" and "some" in e["p"]
        if fn.exit_reachable_without(pu) or fn.exit_reachable_without(rd) or fn.exit_reachable_without(sm):
            det.append("push / round / some not all set on every path")
        if fn.reaches_without(rd, pu):
            det.append("round set before the initial push (items would land in the wrong queue)")
        rv = {S(e.get("rhs")) for _, e in fn.events(rd)}
        sv = {S(e["a"][0]) for _, e in fn.events(sm)}
        if rv != {"1"} or sv != {"true"}:
            det.append("round=%s some=%s" % (sorted(rv), sorted(sv)))
        ctx.ob("C08.bsp.seed", BS + "::push_initial", not det, "; ".join(det), fn.loc(), "seed", fnkey=f["key"])


def is_barrier_obim(f):
    # template args of the class: ..., BSP, T, Index, UseBarrier, UseMonotonic, UseDescending, Concurrent
    return bool(re.search(r"::empty<true>|, true, (true|false), (true|false), (true|false)>::", f["key"])) and \
        barrier_flag(f)


def bsp_flag(f):
    ta = [x.strip() for x in f.get("targs", "").split("||")[0].split("|")]
    # both OBIM variants: <Indexer, Container, BlockPeriod, BSP, ...>
    return len(ta) >= 4 and ta[3] == "true"


def barrier_flag(f):
    ta = [x.strip() for x in f.get("targs", "").split("||")[0].split("|")]
    # OrderedByIntegerMetric<Indexer, Container, BlockPeriod, BSP, T, Index, UseBarrier, UseMonotonic, UseDescending, Concurrent>
    return len(ta) >= 7 and ta[6] == "true"


def obim(ctx, fx):
    ctx.rule("C08.obim.pop-stays", "barrier-OBIM pop(): never calls slowPop; with an empty current bucket it returns an empty "
             "optional")
    ctx.rule("C08.obim.push-no-retarget", "barrier-OBIM push(): the current bucket / current index are not re-assigned")
    ctx.rule("C08.obim.empty-agreement",
             "barrier-OBIM empty(): own hasWork/curIndex/current/stored are written before the first barrier wait; every "
             "read of another thread's state lies between the two waits, in a loop over all active threads using the "
             "scheduler's comparator; the own current bucket/index are re-assigned after the second wait from the agreed "
             "minimum; the result is !hasWork")
    ctx.rule("C08.obim.scanstart-covers-push",
             "OBIM / AdaptiveOBIM push() with back-scan prevention (BSP): every path to a push into a bucket other than the "
             "thread's current one either lowers the scan watermark (scanStart = index) or passes the false edge of "
             "`index earlier-than scanStart` - in every instantiation, barrier or not (the watermark is what the next scan "
             "starts from; a bucket below it is never looked at again)")
    ctx.rule("C08.obim.scanstart-invariant",
             "outside barrier mode curIndex == scanStart is inductive: push() and slowPop() leave both unchanged or assign both "
             "the same value on every feasible path (branches on `index earlier-than curIndex/scanStart` are the same literal "
             "under the invariant)")
    bsp_pushes = [f for f in insts(fx, OBIM + "::push") + insts(fx, W + "AdaptiveOrderedByIntegerMetric::push")
                  if len(f["params"]) == 1 and bsp_flag(f)]
    ctx.floor("BSP OBIM/AdaptiveOBIM push instantiations", len(bsp_pushes), 3)
    ctx.floor("barrier+BSP OBIM push instantiations", len([f for f in bsp_pushes if barrier_flag(f)]), 1)
    for f in bsp_pushes:
        fn = ctx.fn(f)
        al = fn.aliases()
        idx = None
        for _, e in fn.events(lambda e: e.get("k") == "decl" and e.get("n") == "index"):
            idx = "index"

        # Outside barrier mode curIndex == scanStart is an invariant of the class (rule scanstart-invariant, proved
        # inductively below), so a comparison with either bounds both; in barrier mode empty() re-targets curIndex alone
        # and only a comparison with scanStart itself counts.
        unify = not (barrier_flag(f) and "Adaptive" not in f["qn"])

        def fld(t):
            x = S(t, al)
            return "scan" if x.endswith(".scanStart") else "cur" if x.endswith(".curIndex") else None

        def guard_of(t):
            """which field `index` is compared with (earlier-than), or None"""
            if not isinstance(t, dict):
                return None
            l = r = None
            if t.get("k") == "call" and len(t.get("a", [])) == 2 and S(t.get("recv") or {}, al).endswith("compare"):
                l, r = t["a"]
            elif t.get("k") == "bin" and t.get("op") == "<":
                l, r = t["l"], t["r"]
            elif t.get("k") == "call" and t.get("op") == "<" and len(t.get("a", [])) == 2:
                l, r = t["a"]
            elif t.get("k") == "call" and t.get("op") == "<" and len(t.get("a", [])) == 1 and t.get("recv"):
                l, r = t["recv"], t["a"][0]
            if l is None or S(l, al) != "index":
                return None
            return fld(r)

        # state: (value of cur, value of scan, literal `index earlier than old cur`, same for old scan)
        def on_event(st, pos, e):
            cur, scan, lc, ls = st
            tgt = val = None
            if e.get("k") == "assign" and e.get("op") == "=":
                tgt, val = fld(e.get("lhs")), S(e.get("rhs"), al)
            elif e.get("k") == "call" and e.get("op") == "=" and e.get("a"):
                tgt, val = fld(e.get("recv") or {}), S(e["a"][0], al)
            if tgt == "cur":
                cur = val
            elif tgt == "scan":
                scan = val
            return (cur, scan, lc, ls)

        def on_edge(st, bid, i, t, val):
            cur, scan, lc, ls = st
            g = guard_of(t)
            if g is None:
                return st
            v = cur if g == "cur" else scan
            if v == "index":
                return None if val else st          # index is not earlier than itself
            if v != "old":
                return st
            known = lc if g == "cur" else ls
            if known is not None and known != val:
                return None
            if unify or g == "cur":
                lc = val
            if unify or g == "scan":
                ls = val
            return (cur, scan, lc, ls)
        at = fn.flow(("old", "old", None, None), on_event, on_edge)
        tgt = lambda e: e.get("k") == "call" and e.get("name") == "push" and e.get("cls") != f.get("cls") and \
            not S(e.get("recv") or {}, al).endswith(".current")
        tg = list(fn.events(tgt))
        det = []
        if idx is None:
            det.append("no local `index`")
        if not tg:
            det.append("no slow-path bucket push found")
        for pos, e in tg:
            for cur, scan, lc, ls in at.get(pos, {("old", "old", None, None)}):
                if not (scan == "index" or (scan == "old" and ls is False)):
                    det.append("bucket push at line %s reachable with the pushed index possibly earlier than scanStart and "
                               "the watermark not lowered" % e.get("l"))
        if unify:
            bad = [st for st in at.get("exit", ()) if st[0] != st[1]]
            ctx.ob("C08.obim.scanstart-invariant", f["qn"], not bad,
                   "exit reachable with curIndex := %s but scanStart := %s" % (bad[0][0], bad[0][1]) if bad else "", fn.loc(),
                   "push", fnkey=f["key"])
        ctx.ob("C08.obim.scanstart-covers-push", f["qn"], not det, "; ".join(det), fn.loc(),
               "push%s" % ("/barrier" if barrier_flag(f) and "Adaptive" not in f["qn"] else ""), fnkey=f["key"])
    # slowPop side of the invariant (all BSP instantiations; barrier mode simply does not rely on it)
    sps = [f for f in insts(fx, OBIM + "::slowPop") + insts(fx, W + "AdaptiveOrderedByIntegerMetric::slowPop") if bsp_flag(f)]
    ctx.floor("BSP OBIM/AdaptiveOBIM slowPop instantiations", len(sps), 3)
    for f in sps:
        fn = ctx.fn(f)
        al = fn.aliases()

        def fld2(t):
            x = S(t, al)
            return "scan" if x.endswith(".scanStart") else "cur" if x.endswith(".curIndex") else None

        def on_event(st, pos, e):
            cur, scan = st
            tgt = val = None
            if e.get("k") == "assign" and e.get("op") == "=":
                tgt, val = fld2(e.get("lhs")), S(e.get("rhs"), al)
            elif e.get("k") == "call" and e.get("op") == "=" and e.get("a"):
                tgt, val = fld2(e.get("recv") or {}), S(e["a"][0], al)
            if tgt == "cur":
                cur = val
            elif tgt == "scan":
                scan = val
            return (cur, scan)
        at = fn.flow(("old", "old"), on_event)
        bad = [st for st in at.get("exit", ()) if st[0] != st[1]]
        ctx.ob("C08.obim.scanstart-invariant", f["qn"], not bad,
               "exit reachable with curIndex := %s but scanStart := %s" % (bad[0][0], bad[0][1]) if bad else "", fn.loc(),
               "slowPop", fnkey=f["key"])
    pops = [f for f in insts(fx, OBIM + "::pop") if barrier_flag(f)]
    pushes = [f for f in insts(fx, OBIM + "::push") if barrier_flag(f) and len(f["params"]) == 1]
    empt = [f for f in insts(fx, OBIM + "::empty")]
    ctx.floor("barrier-OBIM pop/push/empty instantiations", min(len(pops), len(pushes), len(empt)), 2)
    for f in pops:
        fn = ctx.fn(f)
        det = []
        if any(True for _ in fn.events(is_call(name="slowPop"))):
            det.append("slowPop reachable in barrier mode")
        # the only pops are on the current bucket C (and stored items)
        for _, e in fn.events(is_call(name="pop")):
            if S(e.get("recv")) not in ("C",):
                det.append("pops from %s" % S(e.get("recv")))
        d = fn.defs().get("C")
        if d is None or not S(d, fn.aliases()).endswith("current"):
            det.append("C is not the thread's current bucket")
        ctx.ob("C08.obim.pop-stays", OBIM + "::pop", not det, "; ".join(det), fn.loc(), "pop", fnkey=f["key"])
    for f in pushes:
        fn = ctx.fn(f)
        al = fn.aliases()
        bad = [fn.loc(p) for p, e in fn.events(lambda e: e.get("k") == "assign" and
                                                 S(e.get("lhs"), al).split(".")[-1] in ("curIndex", "current"))]
        ctx.ob("C08.obim.push-no-retarget", OBIM + "::push", not bad, "current bucket re-assigned at %s" % bad, fn.loc(),
               "push", fnkey=f["key"])
    for f in empt:
        fn = ctx.fn(f)
        al = fn.aliases()
        det = []
        bw = is_call(name="wait", recv=r"barrier$")
        waits = list(fn.events(bw))
        if len(waits) != 2:
            det.append("barrier waits: %d" % len(waits))
        else:
            (w1, _), (w2, _) = waits
            h, _ = fn.search([fn.after(w1)], stop=lambda e: e is fn.ev(w2))
            if not h:
                w1, w2 = w2, w1
            own = "*this->data.getLocal()"
            ownw = lambda e: (e.get("k") == "assign" and S(e.get("lhs"), al).startswith(own) and
                              S(e.get("lhs"), al).split(".")[-1] in ("hasWork", "curIndex", "current")) or \
                (e.get("k") == "call" and e.get("name") in ("push_back", "emplace_back") and own + ".stored" in S(e.get("recv"), al))
            # before the first wait: hasWork written on every path
            hw = lambda e: e.get("k") == "assign" and S(e.get("lhs"), al) == own + ".hasWork"
            if fn.reaches_without(lambda e: e is fn.ev(w1), hw):
                det.append("first barrier reached without publishing hasWork")
            # between the waits: no own writes
            h, _ = fn.search([fn.after(w1)], stop=lambda e: ownw(e) or e is fn.ev(w2))
            if any(ownw(fn.ev(p)) for p in h):
                det.append("own published state written between the two barriers")
            # remote reads only between the waits
            remote = lambda e: e.get("k") == "read" and "getRemote(" in S(e.get("e"), al)
            rr = list(fn.events(remote))
            if len(rr) < 3:
                det.append("remote reads: %d" % len(rr))
            if fn.reaches_without(remote, lambda e: e is fn.ev(w1)):
                det.append("another thread's state read before the first barrier")
            h, _ = fn.search([fn.after(w2)], stop=remote)
            if h:
                det.append("another thread's state read after the second barrier")
            # loop over all active threads
            loops = [b for b in fn.blocks.values() if (b.get("term") or {}).get("cls") in ("ForStmt", "WhileStmt") and
                     "activeThreads" in (b["term"].get("text") or "")]
            if len(loops) != 1 or not loops[0]["term"].get("cond") or not re.fullmatch(
                    r"\(i < (galois::)?(runtime::)?activeThreads\)", SN(lit(loops[0]["term"]["cond"])[0])):     # either spelling
                det.append("remote loop is not `i < activeThreads`")
            i0 = [e for _, e in fn.events(lambda e: e.get("k") == "decl" and e.get("n") == "i")]
            if not i0 or i0[0].get("ip") != "0":
                det.append("remote loop does not start at thread 0")
            # comparator
            cmp_ = [e for _, e in fn.events(lambda e: e.get("k") == "call" and (e.get("rp") or "").endswith("compare")
                                            and "getRemote" in S(e.get("a", [None])[0], al))]
            if len(cmp_) != 1 or [S(a, al).split(".")[-1] for a in cmp_[0].get("a", [])] != ["curIndex", "curIndex"]:
                det.append("minimum is not taken with this->compare(o.curIndex, curIndex)")
            # hasWork accumulates every thread's flag
            acc = [e for _, e in fn.events(lambda e: e.get("k") == "assign" and e.get("lp") == "hasWork")]
            def accumulates(e):
                r = e.get("rhs")
                if e.get("op") == "|=":
                    return S(r, al).endswith(".hasWork")
                if e.get("op") == "=" and isinstance(r, dict) and r.get("k") == "bin" and r.get("op") in ("||", "|"):
                    ops = [S(r["l"], al), S(r["r"], al)]
                    return "hasWork" in ops and any(o.endswith(".hasWork") for o in ops)
                return False
            if len(acc) != 1 or not accumulates(acc[0]):
                det.append("hasWork does not or-accumulate the remote flags")
            # after the second wait: own retarget from the agreed values on every path
            for fld, src in (("current", "C"), ("curIndex", "curIndex")):
                a = lambda e, fld=fld: e.get("k") == "assign" and S(e.get("lhs"), al) == own + "." + fld
                h, ex = fn.search([fn.after(w2)], stop=a)
                if ex or not h or any(S(fn.ev(p).get("rhs")) != src for p in h):
                    det.append("own %s not re-assigned from the agreed %s after the second barrier" % (fld, src))
            rets = {S(e.get("e")) for _, e in fn.events(lambda e: e["k"] == "ret")}
            if rets != {"!hasWork"}:
                det.append("returns %s" % sorted(rets))
        ctx.ob("C08.obim.empty-agreement", OBIM + "::empty", not det, "; ".join(sorted(set(det))), fn.loc(), "empty",
               fnkey=f["key"])


def obim_leftover_min(ctx, fx):
    ctx.rule("C08.obim.leftovers-always-proposed",
             "barrier-OBIM empty(): the level a thread proposes is the earliest of ALL its stored (popped but not yet run) items "
             "-- whenever something is put into `stored` in this call, the minimum scan over `stored` follows before the first "
             "barrier wait, and the scan is guarded only by `stored` being non-empty (not by the global pop having found "
             "nothing): a thread holding a leftover of an earlier level that proposes only the level it has just found lets all "
             "threads agree on a later level while the leftover is uncommitted")
    fs = [f for f in insts(fx, OBIM + "::empty") if any(True for _ in Fn(f).events(is_call(name="wait")))]
    ctx.floor("barrier-mode OBIM empty()", len(fs), 1)
    for f in fs:
        fn = ctx.fn(f)
        det = []
        wait = is_call(name="wait")
        put = [p for p, e in fn.events(lambda e: e.get("k") == "call" and e.get("name") in ("push_back", "emplace_back") and
                                       S(e.get("recv") or {}).endswith("stored"))]
        # the scan: a loop over `stored` (range-for binds the container to a reference first)
        scan = lambda e: (e.get("k") == "decl" and e.get("ref") and S(e.get("init") or {}).endswith("stored")) or \
            (e.get("k") == "call" and e.get("name") in ("begin", "cbegin") and S(e.get("recv") or {}).endswith("stored"))
        if not any(True for _ in fn.events(scan)):
            det.append("no scan over the stored items")
        nonempty = lambda t: "neg" if (t.get("k") == "call" and t.get("name") == "empty" and S(t.get("recv") or {}).endswith("stored")) else False
        ge_ne = fn.guard_edges(nonempty, False)        # edges on which stored is known EMPTY: infeasible once something was stored
        for p in put:
            if fn.reaches_without(wait, scan, starts=[fn.after(p)], edge_ok=lambda b, i, s_: (b, i) not in ge_ne):
                det.append("an item is stored (line %s) and the barrier is reached without the minimum over all stored items "
                           "being taken: an older leftover of an earlier level is not proposed" % fn.ev(p).get("l"))
        # with stored non-empty the scan cannot be bypassed
        first_wait = [p for p, _ in fn.events(wait)]
        if first_wait:
            hh, _ = fn.search([fn.entry_state()], stop=lambda e: wait(e) or scan(e), edge_ok=lambda b, i, s_: (b, i) not in ge_ne)
            if any(wait(fn.ev(y)) for y in hh):
                det.append("the barrier is reachable with stored items but without the minimum scan")
        ctx.ob("C08.obim.leftovers-always-proposed", f["qn"], not det, "; ".join(sorted(set(det))[:2]), fn.loc(), "stored", fnkey=f["key"])


def obim_master_log(ctx, fx):
    ctx.rule("C08.obim.replay-under-master-lock",
             "OBIM / AdaptiveOBIM slowUpdateLocalOrCreate: a thread's private priority -> bucket map is a replay of the shared "
             "master log up to lastMasterVersion. Between the last unlocked replay and the successful masterLock.try_lock() "
             "another thread can append a bucket, so after the lock is taken the log is replayed again (updateLocal) before "
             "the map is searched, a bucket is created or lastMasterVersion is advanced: no path leads from an evaluation of "
             "try_lock() to the look-up, the creation or the version store without passing updateLocal. Otherwise the version "
             "store jumps over the other thread's entry for good, a duplicate bucket is created and the items in the first "
             "one are never scheduled")
    fs = insts(fx, OBIM + "::slowUpdateLocalOrCreate") + insts(fx, W + "AdaptiveOrderedByIntegerMetric::slowUpdateLocalOrCreate")
    ctx.floor("slowUpdateLocalOrCreate instantiations", len(fs), 2)
    for f in fs:
        fn = ctx.fn(f)
        det = []
        tl = [p for p, e in fn.events(lambda e: e.get("k") == "call" and e.get("name") == "try_lock" and "masterLock" in S(e.get("recv") or {}))]
        upd = is_call(name="updateLocal")
        ver = lambda e: e.get("k") == "assign" and (e.get("lp") or "").endswith("lastMasterVersion")
        create = lambda e: e.get("k") == "new" or (e.get("k") == "call" and e.get("name") == "push_back" and "masterLog" in S(e.get("recv") or {}))
        if not tl:
            det.append("no masterLock.try_lock()")
        if not any(True for _ in fn.events(ver)) or not any(True for _ in fn.events(create)):
            det.append("version store / bucket creation not found")
        for p in tl:
            for what, tgt in (("lastMasterVersion is advanced", ver), ("a bucket is created / logged", create)):
                if fn.reaches_without(tgt, upd, starts=[fn.after(p)]):
                    det.append("%s after masterLock.try_lock() (line %s) without replaying the master log under the lock: an "
                               "entry appended by another thread in between is skipped for good" % (what, fn.ev(p).get("l")))
        # everything that touches the log / version happens before the unlock
        ul = [p for p, e in fn.events(lambda e: e.get("k") == "call" and e.get("name") == "unlock" and "masterLock" in S(e.get("recv") or {}))]
        for p in ul:
            h, _ = fn.search([fn.after(p)], stop=lambda e: ver(e) or create(e))
            if h:
                det.append("master log / version written after masterLock.unlock()")
        ctx.ob("C08.obim.replay-under-master-lock", f["qn"], not det, "; ".join(sorted(set(det))[:3]), fn.loc(), "replay", fnkey=f["key"])


def executor(ctx, fx):
    ctx.rule("C08.exec.level-switch",
             "for_each over a scheduler with empty(): checkEmpty forwards to wl.empty(); the executor leaves the loop only if it "
             "is true and otherwise re-arms termination detection and waits on the barrier before popping again")
    inst = executor_instances(fx)
    n = 0
    for clsk, d in sorted(inst.items()):
        if "OrderedByIntegerMetric" not in wl_name(clsk):
            continue
        ces = d["fns"].get("checkEmpty", [])
        fwd = [f for f in ces if any(True for _ in ctx.fn(f).events(is_call(name="empty")))]
        ta = split_targs(wl_name(clsk))
        is_bar = len(ta) >= 7 and ta[6] == "true"
        if not is_bar:
            continue
        n += 1
        ok = len(fwd) >= 1 and all(
            {S(e.get("e")) for _, e in ctx.fn(f).events(lambda e: e["k"] == "ret")} == {"wl.empty()"} for f in fwd)
        f0 = (fwd or ces or [None])[0]
        ctx.ob("C08.exec.level-switch", FE + "::checkEmpty", ok,
               "checkEmpty of a barrier scheduler does not return wl.empty()", ctx.fn(f0).loc() if f0 else "",
               "checkEmpty", fnkey=f0["key"] if f0 else "")
        for f in d["fns"].get("go", []):
            fn = ctx.fn(f)
            ce = lambda t: t.get("k") == "call" and t.get("name") == "checkEmpty"
            init = is_call(name="initializeThread", recv=r"term$")
            bw = is_call(name="wait", recv=r"barrier$")
            work = lambda e: e.get("k") == "call" and e.get("name") in ("runQueue", "runQueueSimple")
            det = []
            ge = fn.guard_edges(ce, False)
            if not ge:
                det.append("no checkEmpty branch")
            for (b, i) in ge:
                s = fn.blocks[b]["succ"][i]
                if s is None:
                    continue
                if fn.reaches_without(work, bw, starts=[(s, 0)]) or fn.reaches_without(work, init, starts=[(s, 0)]) or \
                        fn.reaches_without(bw, init, starts=[(s, 0)]):
                    det.append("next level entered without initializeThread(); barrier.wait()")
            # the call selects the empty()-forwarding overload: third argument is the int literal 0
            for _, e in fn.events(is_call(name="checkEmpty")):
                a = [S(x) for x in e.get("a", [])]
                if len(a) != 3 or a[2] != "0":
                    det.append("checkEmpty arguments %s" % a)
                if "empty" not in (e.get("fk") or "") and "int" not in (e.get("fk") or ""):
                    det.append("checkEmpty resolves to the fallback overload")
            ctx.ob("C08.exec.level-switch", FE + "::go", not det, "; ".join(sorted(set(det))), fn.loc(), "level-switch",
                   fnkey=f["key"])
    ctx.floor("executors over barrier-OBIM", n, 3)
