"""C17 - serialisation and the buffered network layer (narrow: wire grammar SIB, overload bijection, framing, LOCK, FIFO, ORD)."""
import re

from gsa.cfg import Fn, S, SN, cmp_pred, is_call, walk, lit
from gsa.layout import Interp, Poly
from gsa import lock as L

EXPL = ("Serialize.h: for every type family instantiated by the driver (scalars, PODs, user serialize(), std::pair, galois::Pair, "
        "TupleOfThree, CopyableAtomic, string, vectors of copyable / non-copyable / nested elements, PODResizeableArray, deque, "
        "gdeque, DynamicBitSet, multi-argument calls) the write side and the read side are reduced to a wire trace - the "
        "sequence of raw byte runs (count as a polynomial in the element count), C-string runs, user hooks and nested "
        "calls (expanded recursively, fields in call order), loops marked - on every CFG path, and the two traces must be equal; "
        "the overload sets of gSerializeObj / gDeserializeObj are in bijection up to a frozen, reasoned one-way list; every "
        "container deserialiser overwrites its target. NetworkBuffered: the length prefix has one width at every site that "
        "writes, measures or skips it and precedes its payload; send and receive queues are FIFO (push at the back, take from "
        "the front); queue state is touched only under its lock; send and receive add the phase to the tag the same way. "
        "HostFence: send to every other host, flush, receive Num-1, then bump the phase. Decides shape, not delivery: "
        "exactly-once / in-order delivery through MPI, alignment fast-path values and aggregation timing are not decided.")

RT = "galois::runtime::"
INT = RT + "internal::"
SER_NAMES = {"gSerializeObj", "gSerialize", "gSerializeSeq", "gSerializeLinearSeq"}
DES_NAMES = {"gDeserializeObj", "gDeserialize", "gDeserializeSeq", "gDeserializeLinearSeq", "gDeserializeTuple"}


def insts(fx, qn):
    return [f for f in fx.functions if f["qn"] == qn and f["kind"] == "inst"]


class Tracer:
    def __init__(self, ctx, fx):
        self.ctx, self.fx = ctx, fx
        self.memo = {}
        self.by_fk = {}
        for g in fx.functions:
            if g["kind"] != "pattern":
                self.by_fk.setdefault(g["key"].split("(")[0], []).append(g)
        self.problems = {}

    def callee(self, e):
        fk = e.get("fk")
        want = "%s(%s)" % (fk, e.get("fs", ""))
        cands = [g for g in self.by_fk.get(fk, ()) if g["qn"] == e.get("fn")]
        for g in cands:
            if g["key"] == want or g["key"] == want + " const":
                return g
        return cands[0] if len(cands) == 1 else None

    def size_expr(self, fn, t):
        """byte count as a canonical polynomial string: element counts -> n, sizeof -> constants"""
        al = fn.aliases()
        syms = {}
        for _, e in fn.events(lambda e: e.get("k") == "decl"):
            if e["n"] == "size":
                syms["size"] = Poly.sym("n")
        it = Interp(fn, syms)
        st = {}
        for _, e in fn.events(lambda e: e.get("k") == "decl" and "init" in e and e["n"] != "size"):
            v = it.ev(e["init"], st)
            if v is not None:
                st[e["n"]] = v

        def ev(x):
            if isinstance(x, dict) and x.get("k") == "call" and x.get("name") in ("size", "length", "r_size"):
                return Poly.sym("n")
            if isinstance(x, dict) and x.get("k") == "bin" and x.get("op") in ("+", "*"):
                a, b = ev(x["l"]), ev(x["r"])
                if a is None or b is None:
                    return None
                return a + b if x["op"] == "+" else a * b
            if isinstance(x, dict) and x.get("k") == "cast":
                return ev(x["e"])
            v = it.ev(x, st)
            return v.p if v is not None else None
        p = ev(t)
        return repr(p) if p is not None else "?" + S(t, al)

    def trace(self, f):
        """frozenset of path token tuples"""
        k = f["key"]
        if k in self.memo:
            return self.memo[k]
        self.memo[k] = frozenset([("<recursion>",)])
        fn = self.ctx.fn(f)
        al = fn.aliases()
        variadic = f["name"] in ("gSerialize", "gDeserialize", "gDeserializeTuple")
        prm = [p["n"] for p in f.get("params", [])]
        data_names = set(prm[1:2]) | {"data", "seq"}
        # loop membership: blocks that can reach themselves
        inloop = set()
        for bid in fn.reachable_blocks():
            seen, work = set(), [s for _, s in fn.succs(bid)]
            while work:
                b = work.pop()
                if b in seen:
                    continue
                seen.add(b)
                work += [s for _, s in fn.succs(b)]
            if bid in seen:
                inloop.add(bid)

        def norm_field(t):
            s = S(t, al)
            s = re.sub(r"\bforward\((.*)\)$", r"\1", s)
            for dn in data_names:
                s = re.sub(r"\b%s\b" % re.escape(dn), "$", s)
            if re.fullmatch(r"(\$\.)?size(\(\))?", s):
                s = "size"          # the element count: written from the container, read into a local and applied
            return "_" if variadic else s

        def tokens_of(bid):
            out = []
            star = "*" if bid in inloop else ""
            for e in fn.blocks[bid]["ev"]:
                if e.get("k") != "call":
                    continue
                nm = e.get("name")
                cls = e.get("cls") or ""
                a = e.get("a", [])
                if nm == "insert" and cls.endswith("SerializeBuffer") and len(a) == 2:
                    sz = self.size_expr(fn, a[1])
                    src = S(a[0], al)
                    if sz == "1 + n" and re.search(r"\.data\(\)", src):
                        out.append(("cstr" + star,))
                    else:
                        out.append(("raw" + star, sz))
                elif nm == "extract" and cls.endswith("DeSerializeBuffer") and len(a) == 2:
                    out.append(("raw" + star, self.size_expr(fn, a[1])))
                elif nm == "setOffset" and cls.endswith("DeSerializeBuffer") and len(a) == 1:
                    t = a[0]
                    m = None
                    if isinstance(t, dict) and t.get("k") == "bin" and t.get("op") == "+" and "getOffset()" in S(t.get("l"), al):
                        m = self.size_expr(fn, t["r"])
                    out.append(("raw" + star, m or "?" + S(t, al)))
                elif nm == "pop" and cls.endswith("DeSerializeBuffer"):
                    out.append(("pop" + star,))
                elif nm in ("serialize", "deserialize") and a and S(a[0], al) == prm[0]:
                    g = self.callee(e)
                    out.append(("user", self.trace(g) if g else "?unresolved"))
                elif (nm in SER_NAMES or nm in DES_NAMES) and (e.get("fn") or "").startswith(RT):
                    g = self.callee(e)
                    if g is None:
                        out.append(("?unresolved " + str(e.get("fk"))[:80],))
                    elif star:
                        out.append(("rep", self.trace(g)))        # once per element
                    else:
                        out.append(("inline", self.trace(g)))      # spliced into the caller's sequence
            return out
        paths = set()
        limit = [0]

        def dfs(bid, used, acc):
            limit[0] += 1
            if limit[0] > 4000:
                return
            acc = acc + tokens_of(bid)
            if bid == fn.exit:
                paths.add(tuple(acc))
                return
            ss = fn.succs(bid)
            if not ss:
                return
            for i, s in ss:
                if (bid, i) in used:
                    continue
                dfs(s, used | {(bid, i)}, acc)
        dfs(fn.entry, frozenset(), [])
        # a C string read: pop, then pop* while the character is not NUL
        ps = set()
        for p in paths:
            if p and all(t[0].startswith("pop") for t in p):
                ps.add((("cstr",),))
                continue
            # splice the callees' alternatives in (the grouping of values into calls is not part of the wire format)
            alts = [()]
            for t in p:
                if t[0] == "inline":
                    alts = [x + y for x in alts for y in sorted(t[1], key=str)][:256]
                elif t[0] == "user":
                    alts = [x + (("user{",),) + y + (("}",),) for x in alts for y in (sorted(t[1], key=str) if not isinstance(t[1], str) else [((t[1],),)])][:256]
                else:
                    alts = [x + (t,) for x in alts]
            ps.update(alts)
        res = frozenset(ps)
        self.memo[k] = res
        return res


def show(tr, depth=0):
    """compact rendering of a trace for messages"""
    alts = []
    for p in sorted(tr, key=lambda x: (len(x), str(x)))[:6]:
        toks = []
        for t in p:
            if t[0].startswith("raw"):
                toks.append("%s(%s)" % (t[0], t[1]))
            elif t[0] == "rep":
                toks.append("each{%s}" % (show(t[1], depth + 1) if depth < 2 else ".."))
            else:
                toks.append(t[0])
        alts.append(" ".join(toks) or "-")
    return " | ".join(alts) + (" | .." if len(tr) > 6 else "")


def data_type(f):
    ty = f["params"][1]["ty"] if len(f.get("params", [])) > 1 else "?"
    ty = re.sub(r"^const\s+", "", ty).strip()
    ty = re.sub(r"\s*&+$", "", ty).strip()
    return ty


def wire(ctx, fx):
    ctx.rule("C17.ser.wire-grammar",
             "for every instantiated type: wire trace of gSerializeObj<T> == wire trace of gDeserializeObj<T> (raw runs with "
             "equal byte-count polynomials, C-string runs, user hooks, nested calls expanded recursively with fields in call "
             "order, loop marks), on every CFG path; the aligned-cast fast path consumes exactly what the copying path does")
    tr = Tracer(ctx, fx)
    ser = {}
    des = {}
    for f in insts(fx, INT + "gSerializeObj"):
        if len(f.get("params", [])) >= 2 and f["params"][0]["ty"].startswith("galois::runtime::SerializeBuffer"):
            ser[data_type(f)] = f
    for f in insts(fx, INT + "gDeserializeObj"):
        des[data_type(f)] = f
    n = 0
    oneway = {}
    for ty, f in sorted(ser.items()):
        g = des.get(ty)
        if g is None:
            oneway[ty] = "write only"
            continue
        n += 1
        a, b = tr.trace(f), tr.trace(g)
        ok = a == b and not any("?" in str(x) for x in a)
        ctx.ob("C17.ser.wire-grammar", "gSerializeObj/gDeserializeObj<%s>" % ty, ok,
               "written: %s ; read: %s" % (show(a), show(b)), "%s:%s" % (f["file"], f["line"]), ty[:80], fnkey=f["key"])
    for ty in des:
        if ty not in ser:
            oneway[ty] = "read only"
    ctx.floor("serialise/deserialise type pairs", n, 25)
    # multi-argument top-level calls
    tops = {}
    for f in insts(fx, RT + "gSerialize"):
        tops.setdefault(tuple(re.sub(r"\s*&+$", "", p["ty"]) for p in f["params"][1:]), [None, None])[0] = f
    for f in insts(fx, RT + "gDeserialize"):
        tops.setdefault(tuple(re.sub(r"\s*&+$", "", p["ty"]) for p in f["params"][1:]), [None, None])[1] = f
    m = 0
    for tys, (f, g) in sorted(tops.items()):
        if f is None or g is None or not tys:
            continue
        m += 1
        a, b = tr.trace(f), tr.trace(g)
        ctx.ob("C17.ser.wire-grammar", "gSerialize/gDeserialize<%s>" % ", ".join(tys)[:120], a == b,
               "written: %s ; read: %s" % (show(a), show(b)), "%s:%s" % (f["file"], f["line"]), "top:" + ", ".join(tys)[:80],
               fnkey=f["key"])
    ctx.floor("top-level gSerialize/gDeserialize pairs", m, 10)
    # one-way instantiations must be the frozen, reasoned ones
    ctx.rule("C17.ser.one-way", "types serialised but never deserialisable (or vice versa) in the driver are exactly the frozen list: "
             "SerializeBuffer and DeSerializeBuffer (append-only nesting), std::tuple (read only: writing a tuple does not compile)")
    allowed = {"galois::runtime::SerializeBuffer": "write only", "galois::runtime::DeSerializeBuffer": "write only"}
    for ty, side in sorted(oneway.items()):
        ok = allowed.get(ty) == side or (ty.startswith("std::tuple<") and side == "read only")
        ctx.ob("C17.ser.one-way", ty[:100], ok, "%s is %s" % (ty, side), "", ty[:60])
    return tr


def bijection(ctx, fxp):
    ctx.rule("C17.ser.overload-bijection",
             "the template overloads of internal::gSerializeObj and internal::gDeserializeObj (declarations, not instantiations) "
             "cover the same type shapes; the only one-way shapes are SerializeBuffer / DeSerializeBuffer (write) and std::tuple "
             "(read)")

    def shapes(name, bufty):
        out = {}
        for f in fxp.functions:
            if f["qn"] != INT + name:
                continue
            ps = f.get("params", [])
            if len(ps) < 2 or bufty not in ps[0]["ty"]:
                continue
            ty = re.sub(r"^const\s+", "", ps[1]["ty"]).strip()
            ty = re.sub(r"\s*&+$", "", ty)
            # shape: outer template name, or the enable_if discriminator for bare T
            if re.fullmatch(r"T", ty):
                disc = " ".join(p["ty"] for p in ps[2:])
                ty = "T[copyable]" if "!is_memory_copyable" not in disc else "T[has_serialize]"
            else:
                ty = re.sub(r"<.*$", "", ty)
            out.setdefault(ty, f)
        return out
    s = shapes("gSerializeObj", "SerializeBuffer")
    d = shapes("gDeserializeObj", "DeSerializeBuffer")
    ctx.floor("gSerializeObj overload shapes", len(s), 12)
    ctx.floor("gDeserializeObj overload shapes", len(d), 12)
    allowed_w = {"galois::runtime::SerializeBuffer", "galois::runtime::DeSerializeBuffer", "SerializeBuffer", "DeSerializeBuffer"}
    for ty in sorted(set(s) | set(d)):
        if ty in s and ty in d:
            ok, det = True, ""
        elif ty in s:
            ok, det = ty in allowed_w, "%s can be written but there is no overload that reads it" % ty
        else:
            ok, det = ty.endswith("tuple"), "%s can be read but there is no overload that writes it" % ty
        f = s.get(ty) or d.get(ty)
        ctx.ob("C17.ser.overload-bijection", ty, ok, det, "%s:%s" % (f["file"], f["line"]), ty)


def overwrite(ctx, fx):
    ctx.rule("C17.ser.target-overwritten",
             "every deserialiser that fills a container (sequence helpers, string, bitset) empties or resizes/assigns its target "
             "before appending, so the result does not depend on what the target held (sibling agreement)")
    cands = [f for f in fx.functions if f["kind"] == "inst" and f["qn"] in (INT + "gDeserializeSeq", INT + "gDeserializeLinearSeq",
                                                                            INT + "gDeserializeObj")]
    n = 0
    for f in cands:
        fn = ctx.fn(f)
        if len(f["params"]) < 2:
            continue
        tgt = f["params"][1]["n"]
        app = lambda e: e.get("k") == "call" and e.get("name") in ("push_back", "emplace_back") and S(e.get("recv") or {}) == tgt
        if not any(True for _ in fn.events(app)):
            continue
        n += 1
        reset = lambda e: e.get("k") == "call" and e.get("name") in ("clear", "resize", "assign") and S(e.get("recv") or {}) == tgt
        bad = fn.reaches_without(app, reset)
        ctx.ob("C17.ser.target-overwritten", "%s<%s>" % (f["name"], data_type(f)[:70]), not bad,
               "appends to `%s` (line %s) without clearing it first: deserialising into a non-empty target yields old + new" % (
                   tgt, fn.ev(bad[0]).get("l") if bad else "?"), fn.loc(), data_type(f)[:70], fnkey=f["key"])
    ctx.floor("appending deserialisers", n, 5)


def framing(ctx, fx):
    ctx.rule("C17.ser.framing",
             "a variable-length field is framed by a length prefix, or by a terminator that cannot occur in the payload: the "
             "sentinel-terminated read loop of std::string (pop until NUL) pairs with a writer of length()+1 bytes of data(), "
             "which is only sound for strings without embedded NUL characters")
    for f in insts(fx, INT + "gDeserializeObj"):
        if not data_type(f).startswith("std::basic_string"):
            continue
        fn = ctx.fn(f)
        loops = [b for b in fn.blocks.values() if (b.get("term") or {}).get("cls") == "WhileStmt" and
                 re.search(r"'\\(x00|0)'", (b["term"].get("text") or "") + S(b["term"].get("cond") or {}))]
        pops = [e for _, e in fn.events(is_call(name="pop"))]
        sentinel = bool(loops) and bool(pops)
        ctx.ob("C17.ser.framing", "gDeserializeObj<std::string>", not sentinel,
               "the string is read up to the first NUL while the writer emits length()+1 bytes: a std::string holding an embedded "
               "'\\0' is truncated and the rest of its bytes are parsed as the following fields", fn.loc(), "nul-terminated",
               fnkey=f["key"])
        break


# ------------------------------------------------------------------ network
def network(ctx, fxs):
    NB = "(anonymous namespace)::NetworkInterfaceBuffered"
    fns = {f["qn"].split("::", 2)[-1] if f["qn"].startswith("(anonymous") else f["qn"]: f for f in fxs.functions
           if "NetworkInterfaceBuffered" in f["qn"] and f["kind"] != "pattern"}

    def get(name):
        for q, f in fns.items():
            if q.endswith(name):
                return f
        return None
    ctx.rule("C17.net.prefix-width",
             "NetworkBuffered: the per-message length prefix has the same width (sizeof(uint32_t)) where assemble() counts it, "
             "writes it, and where popMsg()/getLenFromFront() measure, copy and skip it; each prefix is written immediately before "
             "its payload and carries that payload's size")
    asm, pop, glf = get("sendBuffer::assemble"), get("recvBuffer::popMsg"), get("recvBuffer::getLenFromFront")
    if not (asm and pop and glf):
        ctx.broken("NetworkBuffered assemble/popMsg/getLenFromFront not found")
        return
    widths = {}
    fa = ctx.fn(asm)
    it = Interp(fa, {})
    for _, e in fa.events(lambda e: e.get("k") == "assign" and e.get("lp") == "num" and e.get("op") == "+="):
        v = it.ev(e.get("rhs"), {})
        widths["assemble: counted per message"] = v.p.cval() if v is not None and v.p.is_const() else S(e.get("rhs"))
    ins = [e for _, e in fa.events(is_call(name="insert", recv=r"^vec$"))]
    det = []
    if len(ins) != 2:
        det.append("assemble inserts %d runs per message" % len(ins))
    else:
        a = [S(x) for x in ins[0].get("a", [])]
        # the staging union and its members are named by the first run itself: &U.bytes[0] .. &U.bytes[width]
        m0 = re.fullmatch(r"&(\w+)\.(\w+)\[0\]", a[1]) if len(a) > 2 else None
        un, ub = (m0.group(1), m0.group(2)) if m0 else ("?", "?")
        m = re.search(r"&%s\.%s\[(.*)\]$" % (re.escape(un), re.escape(ub)), a[2]) if m0 else None
        hi = None
        if m:
            for x in walk(ins[0]["a"][2]):
                if isinstance(x, dict) and x.get("k") == "sizeof":
                    hi = x.get("c")
                if isinstance(x, dict) and x.get("k") == "int" and hi is None:
                    hi = x.get("v")
        widths["assemble: written"] = hi if m else "?%s" % a
        pa = [S(x) for x in ins[1].get("a", [])]
        if len(pa) < 3 or pa[1] != "m.data.begin()" or pa[2] != "m.data.end()":
            det.append("payload run is %s" % pa)
        lenas = [e for _, e in fa.events(lambda e: e.get("k") == "assign" and (e.get("lp") or "").startswith(un + ".") and
                                          e.get("lp") != "%s.%s" % (un, ub))]
        if len(lenas) != 1 or S(lenas[0].get("rhs")) != "m.data.size()":
            det.append("prefix value is %s" % [S(e.get("rhs")) for e in lenas])
        # order: prefix value set, prefix inserted, payload inserted
        if lenas:
            p0 = [p for p, e in fa.events(lambda e: e is lenas[0])][0]
            p1 = [p for p, e in fa.events(lambda e: e is ins[0])][0]
            p2 = [p for p, e in fa.events(lambda e: e is ins[1])][0]
            if not fa.must_follow(p0, lambda e: e is ins[0]) or not fa.must_follow(p1, lambda e: e is ins[1]):
                det.append("prefix and payload are not written back to back in that order")
    fp = ctx.fn(pop)
    itp = Interp(fp, {})
    er = [e for _, e in fp.events(is_call(name="erase"))]
    ers = []
    for e in er:
        v = itp.ev(e["a"][0], {}) if e.get("a") else None
        ers.append(v.p.cval() if v is not None and v.p.is_const() else S(e["a"][0]))
    if len(ers) != 2 or ers[1] != "len":
        det.append("popMsg erases %s" % ers)
    widths["popMsg: skipped"] = ers[0] if ers else None
    for e in [e for _, e in fp.events(is_call(name="sizeAtLeast"))]:
        t = e["a"][0]
        if isinstance(t, dict) and t.get("k") == "bin" and t.get("op") == "+":
            v = itp.ev(t["l"], {})
            widths["popMsg: measured with the payload"] = v.p.cval() if v is not None and v.p.is_const() else S(t["l"])
    fg = ctx.fn(glf)
    itg = Interp(fg, {})
    for e in [e for _, e in fg.events(is_call(name="sizeAtLeast"))] + [e for _, e in fg.events(is_call(name="copyOut"))]:
        idx = 0 if e.get("name") == "sizeAtLeast" else 1
        v = itg.ev(e["a"][idx], {}) if len(e.get("a", [])) > idx else None
        widths["getLenFromFront: %s" % e.get("name")] = v.p.cval() if v is not None and v.p.is_const() else "?"
    vals = set(widths.values())
    if len(widths) < 6:
        det.append("only %d of the 6 prefix sites were recognised: %s" % (len(widths), sorted(widths)))
    if vals != {4}:
        det.append("prefix widths differ: %s" % widths)
    # popMsg: the skip of the prefix precedes both ways of taking the payload
    if er:
        p_er = [p for p, e in fp.events(lambda e: e is er[0])][0]
        take = lambda e: e.get("k") == "call" and e.get("name") in ("popVec", "copyOut")
        if fp.reaches_without(take, lambda e: e is er[0]):
            det.append("payload taken before the prefix was skipped")
    ctx.ob("C17.net.prefix-width", "NetworkInterfaceBuffered", not det, "; ".join(det), fa.loc(), "prefix", fnkey=asm["key"])

    ctx.rule("C17.net.fifo", "send queue: add() appends at the back, assemble() takes from the front; receive queue: add() appends "
             "at the back, popMsg()/popVec()/erase() take from the front; nothing else inserts or removes. NetworkIOMPI: the "
             "in-flight send, in-flight receive and completed-receive deques are only appended at the back and consumed from the "
             "front, and a receive is handed over only when it is the oldest in flight")
    det = []
    # per function: the mutating queue operations it may use; read-only queries are free everywhere (a whitelist of queries
    # would make `data.empty()` for `!data.size()` an alarm)
    QUERIES = {"empty", "size", "front", "back", "begin", "end", "cbegin", "cend", "rbegin", "rend", "operator[]", "at", "max_size"}
    table = [("sendBuffer::add", {"emplace_back", "push_back"}, "messages"),
             ("sendBuffer::assemble", {"pop_front"}, "messages"),
             ("recvBuffer::add", {"push_back", "emplace_back"}, "data"),
             ("recvBuffer::popVec", {"pop_front"}, "data"),
             ("recvBuffer::erase", {"pop_front"}, "data"),
             ("recvBuffer::sizeAtLeast", set(), "data"),
             ("recvBuffer::copyOut", set(), "data")]
    nq = 0
    for nm, allowed, fld in table:
        f = get(nm)
        if f is None:
            ctx.broken("NetworkBuffered %s not found" % nm)
            continue
        fn = ctx.fn(f)
        for _, e in fn.events(lambda e: e.get("k") == "call" and S(e.get("recv") or {}) == "this->" + fld):
            nq += 1
            if e.get("name") not in allowed and e.get("name") not in QUERIES:
                det.append("%s calls %s.%s (line %s)" % (nm, fld, e.get("name"), e.get("l")))
    # no other function touches the queues
    for q, f in fns.items():
        short = q.split("NetworkInterfaceBuffered::")[-1]
        if any(short.endswith(nm) for nm, _, _ in table) or "::lambda" in q:
            continue
        fn = ctx.fn(f)
        for _, e in fn.events(lambda e: e.get("k") == "call" and S(e.get("recv") or {}) in ("this->messages", "this->data") and
                              e.get("name") in ("push_front", "emplace_front", "pop_back", "insert", "erase", "clear", "push_back",
                                                "emplace_back", "pop_front")):
            if short.endswith("recvBuffer::popMsg"):
                continue
            det.append("%s mutates a queue: %s" % (short, e.get("name")))
    ctx.floor("queue operations seen", nq, 12)
    ctx.ob("C17.net.fifo", "NetworkInterfaceBuffered", not det, "; ".join(det[:4]), fa.loc(), "fifo")
    # the MPI layer underneath: in-flight sends, in-flight receives and completed receives are deques used strictly as queues;
    # a receive is handed over only when it is the oldest in-flight one (MPI matches in posting order per source and tag, so
    # completing out of queue order would let a later message overtake an earlier one)
    det = []
    nio = [f for f in fxs.functions if "NetworkIOMPI" in f["qn"] and f["kind"] != "pattern"]
    qops = 0
    # a deque stays a queue as long as nothing is inserted or removed anywhere but back / front; queries are free
    not_fifo = {"push_front", "emplace_front", "pop_back", "insert", "emplace", "erase", "clear", "resize", "swap", "assign",
                "operator=", "shrink_to_fit"}
    for f in nio:
        fn = ctx.fn(f)
        al = fn.aliases()
        short = f["qn"].split("NetworkIOMPI::")[-1]
        for _, e in fn.events(lambda e: e.get("k") == "call" and re.search(r"(^|\.|->)(inflight|done)$", S(e.get("recv") or {}, al))):
            qops += 1
            if e.get("name") in not_fifo:
                det.append("%s uses %s.%s (line %s): the queue is no longer consumed strictly from the front" % (
                    short, S(e.get("recv"), al).split(".")[-1].split("->")[-1], e.get("name"), e.get("l")))
        if short.endswith("recvQueueTy::probe"):
            mv = [e for _, e in fn.events(lambda e: e.get("k") == "call" and e.get("name") == "emplace_back" and
                                          S(e.get("recv") or {}, al).endswith("done"))]
            for e in mv:
                src = [S(x, al) for x in e.get("a", [])]
                if not src or not all("inflight.front()" in x for x in src):
                    det.append("probe hands over %s, not the oldest in-flight receive" % src)
            if not mv:
                det.append("probe never hands a completed receive over")
    ctx.floor("NetworkIOMPI queue operations seen", qops, 10)
    if nio:
        ctx.ob("C17.net.fifo", "NetworkIOMPI", not det, "; ".join(det[:4]), "%s:%s" % (nio[0]["file"], nio[0]["line"]), "fifo-mpi")

    ctx.rule("C17.net.tag-hint-tracks-head",
             "recvBuffer::dataPresent is the tag of the head of the receive queue (~0 when empty) whenever the queue lock is "
             "released -- recieveTagged() consults only this hint before it looks at the queue, so a stale hint makes a queued "
             "message undeliverable. Every function that removes the head (pop_front) stores the hint again on every path to "
             "its exit; a store of data.front().tag is only reached with the queue known non-empty, a store of ~0 only with it "
             "known empty; add() publishes the new message's tag before the push whenever the queue was empty")
    det = []
    nonempty = lambda t: True if S(t) == "this->data.size()" else ("neg" if S(t) == "this->data.empty()" else False)
    nhint = 0
    for q, f in sorted(fns.items()):
        if "recvBuffer::" not in q or "::lambda" in q:
            continue
        fn = ctx.fn(f)
        short = q.split("NetworkInterfaceBuffered::")[-1]
        hint = lambda e: (e.get("k") == "atomic" and e.get("kind") == "store" and e.get("p") == "this->dataPresent") or \
            (e.get("k") == "assign" and e.get("lp") == "this->dataPresent")
        pops = [p for p, e in fn.events(lambda e: e.get("k") == "call" and e.get("name") == "pop_front" and
                                         S(e.get("recv") or {}) == "this->data")]
        for p in pops:
            nhint += 1
            if fn.exit_reachable_without(hint, starts=[fn.after(p)]):
                det.append("%s: a path from data.pop_front() (line %s) leaves without storing the head's tag into dataPresent: "
                           "when another message with a different tag is queued behind it, it is never delivered" % (
                               short, fn.ev(p).get("l")))
        ge_ne = fn.guard_edges(nonempty, True)
        ge_em = fn.guard_edges(nonempty, False)
        for p, e in fn.events(hint):
            val = S((e.get("a") or [None])[0]) if e.get("k") == "atomic" else S(e.get("rhs"))
            me = fn.ev(p)
            if "front()" in val:
                h, _ = fn.search([fn.entry_state()], stop=lambda x: x is me, edge_ok=lambda b, i, s_: (b, i) not in ge_ne)
                if h:
                    det.append("%s: the head's tag is read (line %s) without the queue being known non-empty" % (short, e.get("l")))
                if "this->data.front().tag" not in val:
                    det.append("%s: hint set to %s" % (short, val))
            elif val in ("~0", "(~0)", "4294967295"):
                h, _ = fn.search([fn.entry_state()], stop=lambda x: x is me, edge_ok=lambda b, i, s_: (b, i) not in ge_em)
                if h:
                    det.append("%s: the hint is cleared (line %s) although the queue may hold messages" % (short, e.get("l")))
            elif short.endswith("recvBuffer::add"):
                msg = f["params"][0]["n"]
                if val != msg + ".tag":
                    det.append("add: hint set to %s, not the tag of the message being queued" % val)
                h, _ = fn.search([fn.entry_state()], stop=lambda x: x is me, edge_ok=lambda b, i, s_: (b, i) not in ge_em)
                if h:
                    det.append("add: the hint is overwritten although older messages are queued in front")
            else:
                det.append("%s: hint set to %s" % (short, val))
        if short.endswith("recvBuffer::add"):
            push = lambda e: e.get("k") == "call" and e.get("name") in ("push_back", "emplace_back") and S(e.get("recv") or {}) == "this->data"
            # with the queue empty the push must not be reached without publishing the tag
            h, _ = fn.search([fn.entry_state()], stop=lambda x: push(x) or hint(x), edge_ok=lambda b, i, s_: (b, i) not in ge_ne)
            if any(push(fn.ev(x)) for x in h):
                det.append("add: a message is queued into an empty queue without publishing its tag")
            if not any(True for _ in fn.events(push)):
                det.append("add: no push")
            nhint += 1
    ctx.floor("tag-hint anchors (head removals and add)", nhint, 3)
    ctx.ob("C17.net.tag-hint-tracks-head", "NetworkInterfaceBuffered::recvBuffer", not det, "; ".join(det[:4]), fa.loc(), "hint")

    ctx.rule("C17.net.lock", "recvBuffer: the public entry points popMsg() and add() hold qlock for their whole body and the private "
             "helpers that touch `data` / `frontOffset` are called only from popMsg(); sendBuffer: `messages` is touched only while "
             "`lock` is held, except inside assemble()'s window, which only uses the reference to the front element taken under "
             "the lock")
    det = []
    for nm, lk in (("recvBuffer::popMsg", "qlock"), ("recvBuffer::add", "qlock"), ("sendBuffer::add", "lock")):
        f = get(nm)
        fn = ctx.fn(f)
        # lock_guard declared before any other event that touches the queue
        lg = lambda e, lk=lk: e.get("k") in ("ctor", "decl") and ("lock_guard" in str(e.get("fn", "")) + str(e.get("ty", ""))) and \
            lk in S(e.get("init") or (e.get("a") or [{}])[0] if e.get("k") == "decl" else (e.get("a") or [{}])[0])
        touch = lambda e: (e.get("k") == "call" and re.match(r"this->(data|messages|frontOffset)\b", S(e.get("recv") or {}))) or \
            (e.get("k") == "call" and e.get("name") in ("getLenFromFront", "sizeAtLeast", "erase", "popVec", "copyOut") and
             e.get("cls", "").endswith("recvBuffer"))
        guards = list(fn.events(lambda e: e.get("k") in ("ctor", "decl") and "lock_guard" in (str(e.get("fn")) + str(e.get("ty")))))
        if not guards:
            det.append("%s takes no lock_guard" % nm)
            continue
        g0 = guards[0][1]
        if lk not in str(g0):
            det.append("%s guards with %s" % (nm, S((g0.get("a") or [{}])[0])))
        if fn.reaches_without(touch, lambda e: e is g0):
            det.append("%s touches the queue before taking %s" % (nm, lk))
    # private helpers only called from popMsg
    for q, f in fns.items():
        short = q.split("NetworkInterfaceBuffered::")[-1]
        fn = ctx.fn(f)
        for _, e in fn.events(lambda e: e.get("k") == "call" and e.get("name") in ("getLenFromFront", "sizeAtLeast", "erase", "popVec",
                                                                                   "copyOut") and
                              (e.get("cls") or "").endswith("recvBuffer")):
            if not (short.endswith("recvBuffer::popMsg") or short.endswith("recvBuffer::getLenFromFront")):
                det.append("%s calls the unlocked helper %s" % (short, e.get("name")))
    # assemble: lock typestate over unique_lock lg
    held_bad = []
    st = {"held": True}
    f = asm
    fn = fa

    def on_event(state, pos, e):
        if e.get("k") == "call" and S(e.get("recv") or {}) == "lg" and e.get("name") in ("lock", "unlock"):
            return e.get("name") == "lock"
        if e.get("k") == "call" and S(e.get("recv") or {}) == "this->messages" and not state:
            held_bad.append("assemble touches messages.%s at line %s with the lock released" % (e.get("name"), e.get("l")))
        return state
    ul = [p for p, e in fn.events(lambda e: e.get("k") in ("ctor", "decl") and "unique_lock" in (str(e.get("fn")) + str(e.get("ty"))))]
    if not ul:
        det.append("assemble takes no unique_lock")
    else:
        # events before the unique_lock that touch messages
        if fn.reaches_without(lambda e: e.get("k") == "call" and S(e.get("recv") or {}) == "this->messages",
                              lambda e: e is fn.ev(ul[0])):
            det.append("assemble touches messages before locking")
        fn.flow(True, on_event)
    det += sorted(set(held_bad))
    ctx.ob("C17.net.lock", "NetworkInterfaceBuffered", not det, "; ".join(det[:4]), fa.loc(), "locks")

    ctx.rule("C17.net.tag-phase", "sendTagged and recieveTagged both add the phase to the tag before using it; the receiver only pops "
             "from a queue whose head tag equals the requested tag, under that source's receive lock (try_lock adopted by a "
             "unique_lock that is released on every exit or handed to the caller)")
    det = []
    for nm in ("sendTagged", "recieveTagged"):
        f = get("NetworkInterfaceBuffered::" + nm) or get(nm)
        if f is None:
            ctx.broken("NetworkBuffered %s not found" % nm)
            continue
        fn = ctx.fn(f)
        adds = [e for _, e in fn.events(lambda e: e.get("k") == "assign" and e.get("lp") == "tag" and e.get("op") == "+=")]
        if len(adds) != 1 or adds[0].get("rp") != "phase":
            det.append("%s: tag adjusted by %s" % (nm, [e.get("rp") for e in adds]))
        use = lambda e: e.get("k") == "call" and e.get("name") in ("add", "hasData", "popMsg") and any(S(x) == "tag" for x in e.get("a", []))
        if adds and fn.reaches_without(use, lambda e: e is adds[0]):
            det.append("%s uses the tag before adding the phase" % nm)
        if nm == "recieveTagged":
            popm = is_call(name="popMsg")
            hd = lambda t: isinstance(t, dict) and t.get("k") == "call" and t.get("name") == "hasData"
            tl = lambda t: isinstance(t, dict) and t.get("k") == "call" and t.get("name") == "try_lock"
            if fn.guarded_positions(popm, hd, True):
                det.append("popMsg reachable without hasData(tag)")
            if fn.guarded_positions(popm, tl, True):
                det.append("popMsg reachable without the source's receive lock")
            ad = [e for _, e in fn.events(lambda e: e.get("k") in ("ctor", "decl") and "unique_lock" in (str(e.get("fn")) + str(e.get("ty"))))]
            if not ad or "adopt_lock" not in str(ad[0]):
                det.append("the try_lock'ed receive lock is not adopted by a unique_lock (it would stay locked)")
            elif fn.reaches_without(popm, lambda e: e is ad[0]):
                det.append("popMsg before the lock is adopted")
    ctx.ob("C17.net.tag-phase", "NetworkInterfaceBuffered", not det, "; ".join(det[:4]), fa.loc(), "tag")


def fence(ctx, fxs):
    ctx.rule("C17.fence.order", "HostFence::wait: one tagged send to every other host (h != ID) with the current phase, then flush(), "
             "then exactly Num - 1 successful tagged receives of the same phase, and only then the phase is incremented")
    fs = [f for f in fxs.functions if f["qn"].endswith("HostFence::wait") and f["kind"] != "pattern"]
    ctx.floor("HostFence::wait", len(fs), 1)
    for f in fs[:1]:
        fn = ctx.fn(f)
        det = []
        send = is_call(name="sendTagged")
        flush = is_call(name="flush")
        recv = is_call(name="recieveTagged")
        bump = lambda e: e.get("k") == "assign" and "evilPhase" in (e.get("lp") or "") and e.get("op") == "++"
        for what, pred in (("sendTagged", send), ("flush", flush), ("recieveTagged", recv), ("phase increment", bump)):
            if not any(True for _ in fn.events(pred)):
                det.append("no %s" % what)
        if not det:
            if fn.reaches_without(flush, send) and False:
                pass
            if fn.reaches_without(recv, flush):
                det.append("receives before the sends were flushed")
            # the phase is bumped only once the receive loop's condition `received < Num` is false
            if fn.guarded_positions(bump, cmp_pred("received", "<", "net.Num"), False):
                det.append("phase bumped before Num - 1 messages were received")
            for p, _ in fn.events(bump):
                h, _ = fn.search([fn.after(p)], stop=lambda e: send(e) or recv(e))
                if h:
                    det.append("sends/receives after the phase was bumped")
            # send skipped only for self
            sa = [[S(x) for x in e.get("a", [])] for _, e in fn.events(send)]
            ra = [[S(x) for x in e.get("a", [])] for _, e in fn.events(recv)]
            # the destination is the variable of a loop over every host [0, Num)
            hv = sa[0][0] if sa and sa[0] and re.fullmatch(r"\w+", sa[0][0]) else "h"
            hloop = [b for b in fn.blocks.values() if (b.get("term") or {}).get("cls") in ("ForStmt", "WhileStmt") and
                     b["term"].get("cond") and SN(lit(b["term"]["cond"])[0]) == "(%s < net.Num)" % hv]
            h0 = [e.get("ip") for _, e in fn.events(lambda e: e.get("k") == "decl" and e.get("n") == hv)]
            if len(hloop) != 1 or h0 != ["0"]:
                det.append("the sends are not in a loop over every host [0, Num)")
            selfc = cmp_pred(hv, "==", "net.ID")        # `if (h == ID) continue;` and `if (h != ID) { send }` alike
            if fn.guarded_positions(send, selfc, False):
                det.append("a host may send the fence message to itself")
            if any(len(a) < 2 or a[0] != hv or "evilPhase" not in a[1] for a in sa):
                det.append("send arguments %s" % sa)
            if any(not a or "evilPhase" not in a[0] for a in ra):
                det.append("receive arguments %s" % ra)
            # count: received starts at 1, loop while received < Num, ++ per successful receive
            init = [S(e.get("init")) for _, e in fn.events(lambda e: e.get("k") == "decl" and e.get("n") == "received")]
            loops = [SN(lit(b["term"]["cond"])[0]) for b in fn.blocks.values()
                     if (b.get("term") or {}).get("cls") in ("WhileStmt", "ForStmt") and b["term"].get("cond") and
                     "received" in S(b["term"]["cond"])]
            if init != ["1"] or loops != ["(received < net.Num)"]:       # either spelling of the comparison
                det.append("receive count: starts at %s, loops while %s" % (init, loops))
            inc = [p for p, e in fn.events(lambda e: e.get("k") == "assign" and e.get("lp") == "received" and e.get("op") == "++")]
            if len(inc) != 1:
                det.append("received incremented at %d sites" % len(inc))
            else:
                okp = lambda t: S(t) == "p" or "operator bool" in S(t)
                # the increment is only reached after the inner loop left with a message
                inner = [bid for bid, b in fn.blocks.items() if (b.get("term") or {}).get("cls") == "DoStmt"]
                if not inner:
                    det.append("no retry loop around recieveTagged")
        ctx.ob("C17.fence.order", "HostFence::wait", not det, "; ".join(det[:4]), fn.loc(), "fence", fnkey=f["key"])


def run(ctx):
    ctx.explanation = EXPL
    fx = ctx.load("drv_distserialize")
    fxp = ctx.load("drv_distserialize", patterns=True)
    fxs = ctx.load("dist")
    wire(ctx, fx)
    bijection(ctx, fxp)
    overwrite(ctx, fx)
    framing(ctx, fx)
    network(ctx, fxs)
    fence(ctx, fxs)
