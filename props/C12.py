"""C12 - .gr files: every reader and writer computes the same byte layout (narrow: LAYOUT + version TABLE + width + Endian SIB)."""
import re

from gsa import rules as R
from gsa.cfg import Fn, S, canon, is_call, walk, lit
from gsa.layout import Interp, Poly, Val, SIZES

EXPL = ("Symbolic byte-offset interpretation (polynomials over N = #nodes, E = #edges, S = edge-data size, P = E mod 2, and the "
        "index symbols of partial readers; pointer arithmetic scaled by pointee size, casts re-typed, counted loops "
        "summarised, (x+7)&~7 rewritten as align-up, callee rawBlockSize interpreted) of every site in libgalois, "
        "dist-graph-convert and the LC_CSR reader that computes where a section of a .gr file lives, for format versions 1 and 2 "
        "and both parities of E: section offsets, element widths and byte counts must equal the canonical layout "
        "(header 32, outIdx at 32+8n, destinations at 32+8N+w_v*e with w_1=4/w_2=8, edge data at D_1=32+8N+4E+4P / "
        "D_2=32+8N+8E plus S*e, total D_v+S*E); bytes read per element must equal the size of the element type of the buffer "
        "they land in; every reader of the 4-word header must branch on or reject the version word in non-debug code; the "
        "Endian.h conversions are mirror pairs. Decides the layout arithmetic and the dispatch, not the contents: text parsers, "
        "the transforming conversions of graph-convert and value-level round trips are not decided.")

G = "galois::graphs::"
N, E, SZ, P = Poly.sym("N"), Poly.sym("E"), Poly.sym("S"), Poly.sym("P")
n_, e_, cn_, ce_ = Poly.sym("n"), Poly.sym("e"), Poly.sym("cn"), Poly.sym("ce")
C = Poly.const
W = {1: 4, 2: 8}


def OUTIDX(n=None):
    return C(32) + (C(8) * n if n is not None else Poly())


def OUTS(v, e=None):
    return C(32) + C(8) * N + (C(W[v]) * e if e is not None else Poly())


def D(v):
    return C(32) + C(8) * N + (C(4) * E + C(4) * P if v == 1 else C(8) * E)


def DATA(v, e=None, s=SZ):
    return D(v) + (s * e if e is not None else Poly())


# ------------------------------------------------------------------ evaluation helpers
def evaluate(f, syms, env, observe, callees=None):
    """interpret f for both parities of E; returns {id(event): (event, merged)} where merged maps 'args' -> [Poly|None] and
    'value' -> Poly|None, merged over parity as v0 + (v1 - v0) * P and required to be path-independent; plus notes"""
    per = {}
    notes = []
    for par in (0, 1):
        it = Interp(Fn(f), syms, env, observe, parity=par, callees=callees or {})
        res = it.run()
        notes += it.notes
        for st, obs in res:
            for o in obs:
                ev = o["event"]
                key = id(ev)
                vals = tuple((a.p if a is not None else None) for a in o.get("args", [])) if "args" in o else None
                val = o.get("value").p if o.get("value") is not None else None
                per.setdefault(key, {"event": ev, 0: set(), 1: set()})[par].add((vals, val))
    out = {}
    for key, d in per.items():
        ev = d["event"]
        if len(d[0]) != 1 or len(d[1]) != 1:
            out[key] = (ev, None, "path-dependent value" if d[0] and d[1] else "reached for one parity only")
            continue
        (a0, v0), (a1, v1) = next(iter(d[0])), next(iter(d[1]))

        def merge(x0, x1):
            if x0 is None or x1 is None:
                return None
            return x0 + (x1 - x0) * P
        args = [merge(x, y) for x, y in zip(a0, a1)] if a0 is not None and a1 is not None else None
        out[key] = (ev, {"args": args, "value": merge(v0, v1)}, None)
    return out, notes


def ordered(obs, pred):
    """observations whose event satisfies pred, in source-line order"""
    xs = [(ev.get("l", 0), ev, m, err) for ev, m, err in obs.values() if pred(ev)]
    xs.sort(key=lambda x: x[0])
    return xs


class Site:
    def __init__(self, sid, fx, qn, syms, venv, versions, obs, env=None, keysub=None, role="reader", callees=(), variants=None,
                 note=None):
        self.sid, self.fx, self.qn, self.syms, self.venv, self.versions = sid, fx, qn, syms, venv, versions
        self.obs, self.env, self.keysub, self.role, self.callees = obs, env or {}, keysub, role, callees
        self.variants = variants or [{}]
        self.note = note


def call(name, recv=None):
    rx = re.compile(recv) if recv else None
    return lambda e: e.get("k") == "call" and e.get("name") == name and (rx is None or rx.search(e.get("rp") or ""))


def assign(lp):
    return lambda e: e.get("k") == "assign" and e.get("lp") == lp


def decl(n):
    return lambda e: e.get("k") == "decl" and e.get("n") == n


def ret():
    return lambda e: e.get("k") == "ret"


def find(fx, qn, keysub=None):
    return [f for f in fx.functions if f["qn"] == qn and f["kind"] != "pattern" and (keysub is None or keysub in f["key"])]


def layout(ctx, fx, fxd):
    ctx.rule("C12.layout.offset",
             "every offset / byte count a .gr site computes, as a polynomial in (N, E, S, P, index symbols), equals the canonical "
             "layout for each format version the site handles and both parities of E")
    rb = find(fx, G + "rawBlockSize")
    ctx.floor("rawBlockSize", len(rb), 1)
    cal = {"rawBlockSize": rb[0]} if rb else {}
    FG = G + "FileGraph::"
    sites = []
    add = sites.append
    # ---- FileGraph.cpp
    add(Site("rawBlockSize", fx, G + "rawBlockSize", {"numNodes": N, "numEdges": E, "sizeofEdgeData": SZ}, "graphVersion", (1, 2),
             [("total size", ret(), 0, "value", lambda v: DATA(v) + SZ * E)], role="size"))
    add(Site("FileGraph::fromMem", fx, FG + "fromMem", {"m": C(0), "this->numNodes": N, "this->numEdges": E}, "this->graphVersion",
             (1, 2),
             [("outIdx", assign("this->outIdx"), 0, "value", lambda v: OUTIDX()),
              ("outs", assign("this->outs"), 0, "value", lambda v: OUTS(v)),
              ("edgeData", assign("this->edgeData"), 0, "value", lambda v: DATA(v))], env={"lenlimit": 0}))
    for conv in (1, 0):
        obs = [("edge data dest", call("memcpy"), -1, 0, lambda v: DATA(v)),
               ("edge data bytes", call("memcpy"), -1, 2, lambda v: SZ * E)]
        if conv:
            obs += [("outIdx dest", call("memcpy"), 0, 0, lambda v: OUTIDX()),
                    ("outIdx bytes", call("memcpy"), 0, 2, lambda v: C(8) * N),
                    ("outs dest", call("memcpy"), 1, 0, lambda v: OUTS(v)),
                    ("outs bytes", call("memcpy"), 1, 2, lambda v: C(W[v]) * E)]
        add(Site("FileGraph::fromArrays[converted=%d]" % conv, fx, FG + "fromArrays",
                 {"base": C(0), "num_nodes": N, "num_edges": E, "sizeof_edge_data": SZ}, "oGraphVersion", (1, 2), obs,
                 env={"converted": conv, "edge_data": 1}, role="writer"))
    add(Site("FileGraphWriter::phase1", fx, G + "FileGraphWriter::phase1",
             {"mmap_base": C(0), "this->numNodes": N, "this->numEdges": E, "this->sizeofEdge": SZ}, "this->graphVersion", (1, 2),
             [("outIdx", assign("this->outIdx"), 0, "value", lambda v: OUTIDX()),
              ("outs", assign("this->outs"), 0, "value", lambda v: OUTS(v)),
              ("edgeData", assign("this->edgeData"), 0, "value", lambda v: DATA(v))], role="writer"))
    add(Site("FileGraph::partFromFile", fx, FG + "partFromFile",
             {"this->numNodes": N, "this->numEdges": E, "this->sizeofEdge": SZ, "this->nodeOffset": n_, "this->edgeOffset": e_,
              "partNumNodes": cn_, "partNumEdges": ce_}, "this->graphVersion", (1, 2),
             [("outIdx offset", call("loadFromOffset"), 0, 1, lambda v: OUTIDX(n_)),
              ("outIdx bytes", call("loadFromOffset"), 0, 2, lambda v: C(8) * cn_),
              ("outs offset", call("loadFromOffset"), 1, 1, lambda v: OUTS(v, e_)),
              ("outs bytes", call("loadFromOffset"), 1, 2, lambda v: C(W[v]) * ce_),
              ("edgeData offset", call("loadFromOffset"), 2, 1, lambda v: DATA(v, e_)),
              ("edgeData bytes", call("loadFromOffset"), 2, 2, lambda v: SZ * ce_)],
             env={"numaMap": 0}, callees=cal))
    # ---- OCFileGraph.cpp (version 1 only; see the version table)
    OC = G + "OCFileGraph::"
    add(Site("OCFileGraph::load", fx, OC + "load", {"this->numNodes": N, "this->numEdges": E, "bb": e_, "len": ce_, "sizeof_data": SZ},
             None, (1,),
             [("outs offset", call("load"), 0, 1, lambda v: OUTS(1)),
              ("outs element", call("load"), 0, 4, lambda v: C(4)),
              ("outs first", call("load"), 0, 2, lambda v: e_),
              ("edgeData offset", call("load"), 1, 1, lambda v: DATA(1)),
              ("edgeData element", call("load"), 1, 4, lambda v: SZ),
              ("edgeData first", call("load"), 1, 2, lambda v: e_)], env={"sizeof_data": 1}))
    add(Site("OCFileGraph::Block::load", fx, OC + "Block::load",
             {"offset": Poly.sym("O"), "begin": e_, "len": ce_, "sizeof_data": SZ, "aligned": Poly.sym("A"), "this->m_mapping": Poly.sym("A")},
             None, (1,),
             [("start", decl("start"), 0, "value", lambda v: Poly.sym("O") + SZ * e_),
              ("data pointer (file offset it denotes)", assign("this->m_data"), -1, "value", lambda v: Poly.sym("O") + SZ * e_)]))
    add(Site("OCFileGraph::fromFile", fx, OC + "fromFile", {"this->numNodes": N, "this->masterMapping": C(0)}, None, (1,),
             [("index mapping length", assign("this->masterLength"), 0, "value", lambda v: C(32) + C(8) * N),
              ("outIdx", assign("this->outIdx"), -1, "value", lambda v: OUTIDX())]))
    # ---- OfflineGraph.h
    OG = G + "OfflineGraph::"
    add(Site("OfflineGraph::outIndexs", fx, OG + "outIndexs", {"node": n_, "this->numNodes": N, "this->numEdges": E}, None, (1, 2),
             [("outIdx offset", call("seekg"), 0, 0, lambda v: OUTIDX(n_)),
              ("outIdx element", call("read"), 0, 1, lambda v: C(8))]))
    add(Site("OfflineGraph::outEdges", fx, OG + "outEdges", {"edge": e_, "this->numNodes": N, "this->numEdges": E}, "this->v2=bool",
             (1, 2),
             [("outs offset", call("seekg"), 0, 0, lambda v: OUTS(v, e_)),
              ("outs element", call("read"), 0, 1, lambda v: C(W[v]))]))
    for ty in ("int", "double"):
        add(Site("OfflineGraph::edgeData<%s>" % ty, fx, OG + "edgeData",
                 {"edge": e_, "this->numNodes": N, "this->numEdges": E, "this->sizeEdgeData": SZ}, "this->v2=bool", (1, 2),
                 [("edgeData offset", call("seekg"), 0, 0, lambda v: DATA(v, e_))], keysub="edgeData<%s>" % ty))
    # ---- OfflineGraphWriter (graph-convert-huge)
    OW = G + "OfflineGraphWriter::"
    add(Site("OfflineGraphWriter::offsetOfDst", fx, OW + "offsetOfDst", {"edge": e_, "this->numNodes": N, "this->numEdges": E},
             "this->ver", (1, 2), [("outs offset", ret(), 0, "value", lambda v: OUTS(v, e_))], role="writer"))
    for small, sz in ((1, 4), (0, 8)):
        add(Site("OfflineGraphWriter::offsetOfData[smallData=%d]" % small, fx, OW + "offsetOfData",
                 {"edge": e_, "this->numNodes": N, "this->numEdges": E}, "this->ver", (1, 2),
                 [("edgeData offset", ret(), 0, "value", lambda v, sz=sz: DATA(v, e_, C(sz)))],
                 env={"this->smallData": small}, role="writer"))
    for nm in ("setEdge32", "setEdge64"):
        add(Site("OfflineGraphWriter::" + nm, fx, OW + nm, {}, "this->ver", (1, 2),
                 [("destination element", call("write"), 0, 1, lambda v: C(W[v]))], env={"src": 0}, role="writer"))
    add(Site("OfflineGraphWriter::setEdge_sorted", fx, OW + "setEdge_sorted", {}, "this->ver", (1, 2),
             [("destination element", call("write"), 0, 1, lambda v: C(W[v]))], role="writer"))
    # ---- BufferedGraph.h (version 1 only; see the version table)
    BG = G + "BufferedGraph::"
    for ty, sz in (("int", 4), ("double", 8), ("void", None)):
        ks = "BufferedGraph<%s>::" % ty
        add(Site("BufferedGraph<%s>::loadOutIndex" % ty, fx, BG + "loadOutIndex", {"nodeStart": n_, "numNodesToLoad": cn_}, None, (1,),
                 [("outIdx offset", call("seekg"), 0, 0, lambda v: OUTIDX(n_)),
                  ("outIdx bytes", decl("numBytesToLoad"), 0, "value", lambda v: C(8) * cn_),
                  ("outIdx buffer bytes", call("malloc"), 0, 0, lambda v: C(8) * cn_)], keysub=ks, env={"numNodesToLoad": 1}))
        add(Site("BufferedGraph<%s>::loadEdgeDest" % ty, fx, BG + "loadEdgeDest",
                 {"edgeStart": e_, "numEdgesToLoad": ce_, "numGlobalNodes": N}, None, (1,),
                 [("outs offset", call("seekg"), 0, 0, lambda v: OUTS(1, e_)),
                  ("outs bytes", decl("numBytesToLoad"), 0, "value", lambda v: C(4) * ce_),
                  ("outs buffer bytes", call("malloc"), 0, 0, lambda v: C(4) * ce_)], keysub=ks, env={"numEdgesToLoad": 1}))
        if sz:
            add(Site("BufferedGraph<%s>::loadEdgeData" % ty, fx, BG + "loadEdgeData",
                     {"edgeStart": e_, "numEdgesToLoad": ce_, "numGlobalNodes": N, "numGlobalEdges": E}, None, (1,),
                     [("edgeData offset", call("seekg"), 0, 0, lambda v, sz=sz: DATA(1, e_, C(sz))),
                      ("edgeData bytes", decl("numBytesToLoad"), 0, "value", lambda v, sz=sz: C(sz) * ce_),
                      ("edgeData buffer bytes", call("malloc"), 0, 0, lambda v, sz=sz: C(sz) * ce_)], keysub=ks,
                     env={"numEdgesToLoad": 1}))
    # ---- LC_CSR_Graph::readGraphFromGRFile
    for ety, sz in (("int", 4), ("double", 8), ("void", None)):
        ks = "LC_CSR_Graph<int, %s," % ety
        obs = [("outIdx offset", call("seekg"), 0, 0, lambda v: OUTIDX()),
               ("outIdx bytes", call("read"), 1, 1, lambda v: C(8) * N),
               ("outs offset", call("seekg"), 1, 0, lambda v: OUTS(v))]
        if sz:
            obs += [("edgeData offset", call("seekg"), 2, 0, lambda v: DATA(v)),
                    ("edgeData bytes", call("read"), -1, 1, lambda v, sz=sz: C(sz) * E)]
        add(Site("LC_CSR_Graph<int,%s>::readGraphFromGRFile" % ety, fx, G + "LC_CSR_Graph::readGraphFromGRFile",
                 {"this->numNodes": N, "this->numEdges": E}, "version", (1, 2), obs, keysub=ks))
    # ---- dist-graph-convert (writes version 1 only, edge data are uint32_t)
    if fxd is not None:
        add(Site("getOffsetToLocalEdgeData", fxd, "getOffsetToLocalEdgeData",
                 {"totalNumNodes": N, "totalNumEdges": E, "localEdgeBegin": e_}, None, (1,),
                 [("edgeData offset", ret(), 0, "value", lambda v: DATA(1, e_, C(4)))], role="writer"))
        add(Site("writeToGr", fxd, "writeToGr", {"totalNumNodes": N, "totalNumEdges": E, "localNodeBegin": n_, "globalEdgeOffset": e_},
                 None, (1,),
                 [("outIdx offset", decl("nodeIndexOffset"), 0, "value", lambda v: OUTIDX(n_)),
                  ("outs offset", decl("edgeDestOffset"), 0, "value", lambda v: OUTS(1, e_))],
                 env={"localNumNodes": 1}, role="writer", callees={}))
    nsite = 0
    for s in sites:
        fs = find(s.fx, s.qn, s.keysub)
        if not fs:
            ctx.broken("layout site %s (%s) not found" % (s.sid, s.qn))
            continue
        f = fs[0]
        nsite += 1
        for v in s.versions:
            env = dict(s.env)
            if s.venv:
                if s.venv.endswith("=bool"):
                    env[s.venv[:-5]] = 1 if v == 2 else 0
                else:
                    env[s.venv] = v
            preds = []
            for what, pred, nth, slot, expect in s.obs:
                preds.append(pred)
            obs, notes = evaluate(f, s.syms, env, lambda e: any(p(e) for p in preds), callees=dict(s.callees) if s.callees else None)
            for what, pred, nth, slot, expect in s.obs:
                xs = ordered(obs, pred)
                det = ""
                got = None
                if not xs or (nth >= len(xs) if nth >= 0 else -nth > len(xs)):
                    det = "no such observation on any path (%d matching events reached)" % len(xs)
                else:
                    _, ev, m, err = xs[nth]
                    if err:
                        det = err
                    else:
                        got = m["value"] if slot == "value" else (m["args"][slot] if m["args"] and slot < len(m["args"]) else None)
                        if got is None:
                            ctx.broken("%s, %s, version %d: the expression at line %s is outside the interpreted fragment; the "
                                       "site cannot be decided" % (s.sid, what, v, ev.get("l")))
                            continue
                exp = expect(v)
                if not det and got != exp:
                    det = "computes %s, the canonical layout has %s (difference %s)" % (got, exp, got - exp)
                ctx.ob("C12.layout.offset", s.sid, not det, "%s, version %d: %s" % (what, v, det) if det else "",
                       "%s:%s" % (f["file"], f["line"]), "%s/v%d" % (what, v), fnkey=f["key"])
    ctx.floor("layout sites analysed", nsite, 30)
    # the sorted-buffer writer must emit exactly one destination block per call
    ctx.rule("C12.layout.single-block", "OfflineGraphWriter::setEdge_sortedBuffer writes one destination block whose element width "
             "is the version's (no path writes both the 32- and the 64-bit block)")
    for f in find(fx, G + "OfflineGraphWriter::setEdge_sortedBuffer"):
        fn = ctx.fn(f)
        for v in (1, 2):
            it = Interp(fn, {}, {"this->ver": v}, call("write"))
            res = it.run()
            cnt = {len(obs) for _, obs in res}
            widths = set()
            for _, obs in res:
                for o in obs:
                    t = o["event"]["a"][1] if len(o["event"].get("a", [])) > 1 else None
                    sz = [x.get("c") for x in walk(t) if isinstance(x, dict) and x.get("k") == "sizeof"]
                    widths.add(tuple(sz))
            ok = cnt == {1} and widths == {(W[v],)}
            ctx.ob("C12.layout.single-block", "OfflineGraphWriter::setEdge_sortedBuffer", ok,
                   "version %d: %s write(s) per call with element sizes %s" % (v, sorted(cnt), sorted(widths)),
                   "%s:%s" % (f["file"], f["line"]), "v%d" % v, fnkey=f["key"])


# ------------------------------------------------------------------ width
def elem_size_of(t):
    """pointee size of the buffer expression behind `reinterpret_cast<char*>(X)` / `(char*)X + k`"""
    if not isinstance(t, dict):
        return None
    if t.get("k") == "cast":
        return elem_size_of(t.get("e"))
    if t.get("k") == "bin" and t.get("op") == "+":
        return elem_size_of(t.get("l"))
    if t.get("k") == "un" and t.get("op") == "&":
        ti = (t.get("e") or {}).get("t") or {}
        return SIZES.get(ti.get("b")) if not ti.get("ptr") else 8
    ti = t.get("t") or {}
    if ti.get("ptr") and ti.get("b") in SIZES and ti.get("b") != "char":
        return SIZES[ti["b"]]
    return None


def widths(ctx, fx):
    ctx.rule("C12.layout.width",
             "stream reads of a section: the byte count is (element count) * k with k == sizeof(the element type of the buffer the "
             "bytes land in), for every version branch (a reader that stores 32-bit ids must not read 8 bytes per element into them)")
    targets = [(G + "LC_CSR_Graph::readGraphFromGRFile", None, {"this->numNodes": N, "this->numEdges": E}, "version", (1, 2)),
               (G + "OfflineGraph::outEdges", None, {}, "this->v2=bool", (1, 2)),
               (G + "OfflineGraph::outIndexs", None, {}, None, (1,))]
    n = 0
    for qn, ks, syms, venv, vers in targets:
        for f in find(fx, qn, ks):
            for v in vers:
                env = {}
                if venv:
                    env[venv[:-5] if venv.endswith("=bool") else venv] = (1 if v == 2 else 0) if venv.endswith("=bool") else v
                obs, _ = evaluate(f, syms, env, call("read"))
                for l, ev, m, err in ordered(obs, call("read")):
                    a = ev.get("a", [])
                    if len(a) < 2:
                        continue
                    esz = elem_size_of(a[0])
                    got = m["args"][1] if m and m.get("args") else None
                    if esz is None or got is None:
                        continue
                    n += 1
                    # per-element width: the byte count divided by its count symbol
                    per = None
                    if got.is_const():
                        per = got.cval() if got.cval() in (4, 8) else None
                    elif len(got.t) == 1:
                        per = next(iter(got.t.values()))
                    ok = per is None or per == esz
                    short = qn.split("::")[-2] + "::" + qn.split("::")[-1]
                    ctx.ob("C12.layout.width", short, ok,
                           "version %d, line %s: reads %s bytes into a buffer of %d-byte elements (%s)" % (v, l, got, esz, S(a[0])),
                           "%s:%s" % (f["file"], l), "%s/v%d/L%s" % (S(a[0])[:40], v, l), fnkey=f["key"])
    ctx.floor("stream reads with typed buffers", n, 8)


# ------------------------------------------------------------------ version dispatch
def versions(ctx, fx):
    ctx.rule("C12.version.dispatch",
             "every function that takes #nodes / #edges out of the 4-word header also reads the version word and lets it decide a "
             "branch (dispatch or rejection) in non-debug code")
    rows = [
        (G + "FileGraph::fromMem", None, r"this->graphVersion"),
        (G + "OfflineGraph::OfflineGraph", "const std::string", r"\bver\b"),
        (G + "LC_CSR_Graph::readGraphFromGRFile", None, r"\bversion\b"),
        (G + "BufferedGraph::loadGraph", None, r"header\[0\]"),
        ("readHeader", None, r"ptr\[0\]"),
    ]
    n = 0
    for qn, ks, vrx in rows:
        fs = find(fx, qn, ks)
        if not fs:
            ctx.broken("header reader %s not found" % qn)
            continue
        for f in fs:
            fn = ctx.fn(f)
            n += 1
            conds = []
            for bid in fn.reachable_blocks():
                br = fn.branch(bid)
                if br is not None:
                    conds.append(S(br[0], fn.aliases()))
            used = [c for c in conds if re.search(vrx, c)]
            bare = qn[len(G):] if qn.startswith(G) else qn
            short = "::".join(bare.split("::")[-2:])
            ctx.ob("C12.version.dispatch", short, bool(used),
                   "the version word (%s) decides no branch: a file of the other format version is read with this reader's fixed "
                   "element width" % vrx.replace("\\b", "").replace("\\", ""), fn.loc(), "version", fnkey=f["key"])
    ctx.floor("header readers", n, 6)


# ------------------------------------------------------------------ endian
def endian(ctx):
    ctx.rule("C12.endian.mirror", "Endian.h, parsed twice (host byte order and with __BYTE_ORDER__ flipped to big-endian): "
             "convert_htoleNN and convert_leNNtoh return the same expression in each configuration (identity on little-endian, "
             "bswapNN of the argument on big-endian, so each pair composes to the identity); the be conversions are the "
             "opposite; the swap width matches the NN in the name")
    n = 0
    for cfg, flags in (("little-endian", None), ("big-endian", ["-U__BYTE_ORDER__", "-D__BYTE_ORDER__=__ORDER_BIG_ENDIAN__"])):
        fx = ctx.load("drv_endian", extra_flags=flags)
        shapes = {}
        for f in fx.functions:
            if f["qn"].startswith("galois::convert_") and f["kind"] != "pattern":
                fn = ctx.fn(f)
                shapes[f["qn"][len("galois::"):]] = (f, sorted({re.sub(r"\b%s\b" % f["params"][0]["n"], "x", S(e.get("e")))
                                                               for _, e in fn.events(lambda e: e["k"] == "ret")}))
        for bits in ("32", "64"):
            ident, swap = ["x"], ["bswap%s(x)" % bits]
            le_expect = ident if cfg == "little-endian" else swap
            be_expect = swap if cfg == "little-endian" else ident
            for nm, exp in (("convert_htole" + bits, le_expect), ("convert_le%stoh" % bits, le_expect),
                            ("convert_htobe" + bits, be_expect)):
                if nm not in shapes:
                    ctx.broken("Endian.h: %s not found (%s)" % (nm, cfg))
                    continue
                f, got = shapes[nm]
                n += 1
                ctx.ob("C12.endian.mirror", nm, got == exp, "%s host: returns %s, expected %s" % (cfg, got, exp),
                       "%s:%s" % (f["file"], f["line"]), cfg, fnkey=f["key"])
    ctx.floor("endian conversions x configurations", n, 12)


# ------------------------------------------------------------------ graph-convert dispatch
def convert_dispatch(ctx, fxt):
    ctx.rule("C12.convert.dispatch-total",
             "graph-convert main(): every ConvertMode enumerator has a case label that reaches exactly one convert<...>() call and "
             "then leaves the switch (no fall-through into the next conversion); no two modes run the same converter "
             "instantiation; the default label does not return normally; every enumerator is offered on the command line "
             "(clEnumVal list), so each documented conversion is dispatched to its own converter")
    enum = fxt.enums.get("ConvertMode", {})
    vals = enum.get("values", {})
    mains = [f for f in fxt.functions if f["qn"] == "main" and f["file"].endswith("graph-convert/graph-convert.cpp")]
    if not vals or not mains:
        ctx.broken("graph-convert: enum ConvertMode or main() not found")
        return
    ctx.floor("ConvertMode enumerators", len(vals), 40)
    fn = ctx.fn(mains[0])
    byval = {v: k for k, v in vals.items()}
    labels = {}
    for bid, b in fn.blocks.items():
        lab = b.get("label")
        if lab and lab.get("k") == "case":
            labels.setdefault(lab.get("v"), bid)
    seen_conv = {}
    conv = lambda e: e.get("k") == "call" and e.get("name") == "convert"
    for name, v in sorted(vals.items(), key=lambda kv: kv[1]):
        det = []
        bid = labels.get(v)
        if bid is None:
            det.append("no case label: the option is accepted and silently does nothing")
        else:
            hits, ex = fn.search([(bid, 0)], stop=conv)
            if len(hits) != 1:
                det.append("reaches %d convert<> calls" % len(hits))
            else:
                e = fn.ev(hits[0])
                key = e.get("fk")
                if key in seen_conv and seen_conv[key] != name:
                    det.append("runs the same converter as %s (%s)" % (seen_conv[key], key[-60:]))
                seen_conv.setdefault(key, name)
                h2, _ = fn.search([fn.after(hits[0])], stop=conv)
                if h2:
                    det.append("falls through into another conversion (missing break)")
        ctx.ob("C12.convert.dispatch-total", "graph-convert::main", not det, "%s: %s" % (name, "; ".join(det)), fn.loc(), name,
               fnkey=mains[0]["key"])
    # the command-line table offers every enumerator: the option's clEnumVal list is a global initialiser; its enumerator
    # references are visible as refs in the translation unit's static initialiser functions
    offered = set()
    for f in fxt.functions:
        if not f["file"].endswith("graph-convert/graph-convert.cpp"):
            continue
        if not ("__cxx_global_var_init" in f["qn"] or "convertMode" in f["qn"] or f["name"].startswith("__")):
            continue
        for b in f.get("blocks", []):
            for e in b["ev"]:
                for x in walk(e):
                    if isinstance(x, dict) and x.get("k") == "ref" and x.get("n") in vals:
                        offered.add(x["n"])
    if offered:
        missing = sorted(set(vals) - offered)
        ctx.ob("C12.convert.dispatch-total", "graph-convert::options", not missing,
               "enumerators not offered on the command line: %s" % missing, fn.loc(), "clEnumVal")
    else:
        ctx.note("graph-convert: the option table's initialiser is not visible as a function in the facts; only the switch is checked")


def two_phase(ctx, fxt):
    ctx.rule("C12.convert.two-phase-agreement",
             "every conversion that builds its output with FileGraphWriter's two-phase protocol counts degrees for exactly the "
             "nodes it later attaches edges to: the set of first arguments of incrementDegree equals the set of first arguments "
             "of addNeighbor in the same conversion (a transposing or symmetrising conversion that swaps the endpoints in only "
             "one of the two passes overruns one node's edge range and leaves another's partly uninitialised); when the input is a "
             "text file read once per pass, both passes perform the same extractions between reading a line and using it (they "
             "accept the same lines). The order of the "
             "passes is not checked here: several converters run both passes from one loop over a phase counter.")
    n = 0
    for f in fxt.functions:
        if f["kind"] == "pattern" or not f["file"].endswith(("graph-convert/graph-convert.cpp", "graph-convert/graph-convert-huge.cpp")):
            continue
        fn = None
        inc, add = set(), set()
        has = False
        for b in f.get("blocks", []):
            for e in b["ev"]:
                if e.get("k") == "call" and e.get("name") in ("incrementDegree", "addNeighbor") and e.get("a") and \
                        (e.get("cls") or "").endswith("FileGraphWriter"):
                    has = True
                    (inc if e["name"] == "incrementDegree" else add).add(S(e["a"][0]))
        if not has or not inc or not add:
            continue
        n += 1
        fn = ctx.fn(f)
        det = []
        if inc != add:
            det.append("degrees are counted for %s but edges are attached to %s" % (sorted(inc), sorted(add)))
        # text inputs are read once per pass: both passes must accept exactly the same lines, i.e. perform the same
        # extractions (`iss >> x`, each guarding a `continue`) between reading a line and using it
        evs = sorted(((e.get("l") or 0, e) for b in f.get("blocks", []) for e in b["ev"] if e.get("k") == "call"), key=lambda x: x[0])
        heads = [l for l, e in evs if e.get("name") == "getline"]
        if heads:
            def extractions(target_name):
                out = []
                for l, e in evs:
                    if e.get("name") == target_name and (e.get("cls") or "").endswith("FileGraphWriter"):
                        h = [x for x in heads if x < l]
                        if not h:
                            continue
                        lo = max(h)
                        xs = []
                        for l2, e2 in evs:
                            if lo < l2 < l and e2.get("name") == "operator>>":
                                a = [S(y) for y in e2.get("a", [])]
                                xs.append(a[-1] if a else "?")
                        out.append(tuple(xs))
                return out
            xi, xa = extractions("incrementDegree"), extractions("addNeighbor")
            if xi and xa and set(xi) != set(xa):
                det.append("the degree pass extracts %s from a line before counting it, the edge pass %s before adding it: a "
                           "line the edge pass skips still raises a degree, every later node's edges shift by one slot" % (
                               sorted(set(xi)), sorted(set(xa))))
        ctx.ob("C12.convert.two-phase-agreement", f["qn"][-70:], not det, "; ".join(det), fn.loc(), f["key"][-60:], fnkey=f["key"])
    ctx.floor("two-phase conversions", n, 12)


def version_propagated(ctx, fx):
    ctx.rule("C12.version.propagated",
             "every call that copies one FileGraph's arrays into a new block (fromArrays) passes the SOURCE's format version "
             "explicitly: the version argument is the source object's graphVersion, never the declaration's default (1) or a "
             "constant - otherwise a version-2 source is laid out and labelled as version 1 and its 64-bit destinations are "
             "copied as 32-bit ones")
    n = 0
    for f in fx.functions:
        if f["kind"] == "pattern" or not f["qn"].startswith(G + "FileGraph"):
            continue
        for b in f.get("blocks", []):
            for e in b["ev"]:
                if not (e.get("k") == "call" and e.get("name") == "fromArrays"):
                    continue
                a = e.get("a", [])
                n += 1
                src = S(a[0]) if a else "?"
                who = src.split("outIdx")[0] if src.endswith("outIdx") else None
                ver = a[9] if len(a) > 9 else None
                if ver is None or (isinstance(ver, dict) and ver.get("k") == "defarg"):
                    ok, det = False, "the version argument is left to its default (1)"
                elif who is not None:
                    ok = S(ver) == who + "graphVersion"
                    det = "the version argument is %s, the arrays come from %s" % (S(ver), who.rstrip(".") or "this")
                else:
                    ok = "graphVersion" in S(ver) or "Version" in S(ver)
                    det = "the version argument is %s" % S(ver)
                ctx.ob("C12.version.propagated", f["qn"], ok, "line %s: %s" % (e.get("l"), det), "%s:%s" % (f["file"], e.get("l")),
                       "fromArrays@%s" % f["name"], fnkey=f["key"])
    ctx.floor("fromArrays call sites", n, 2)


def buffered_offsets(ctx, fx):
    ctx.rule("C12.buffered.edge-offset-recorded",
             "BufferedGraph::loadEdgeDest records the sub-range's first edge (edgeOffset = edgeStart) on every path to its exit, "
             "including the early return for a range without edges: edgeBegin() of the first local node answers with edgeOffset, "
             "edgeEnd() with the global prefix sum")
    fs = find(fx, G + "BufferedGraph::loadEdgeDest")
    ctx.floor("BufferedGraph::loadEdgeDest instantiations", len(fs), 2)
    for f in fs:
        fn = ctx.fn(f)
        rec = lambda e: e.get("k") == "assign" and e.get("lp") == "this->edgeOffset" and e.get("rp") == f["params"][1]["n"]
        ok = any(True for _ in fn.events(rec)) and not fn.exit_reachable_without(rec)
        ctx.ob("C12.buffered.edge-offset-recorded", "BufferedGraph::loadEdgeDest", ok,
               "a path returns without recording edgeOffset = %s (a node range without edges at a non-zero edge offset then shows "
               "a phantom edge range [0, prefix sum))" % f["params"][1]["n"], fn.loc(), f["key"][-50:], fnkey=f["key"])


def frommem_presence(ctx, fx):
    ctx.rule("C12.frommem.edge-data-present-iff-it-fits",
             "FileGraph::fromMem decides from the length of the mapping whether the file carries edge data. The bound the length "
             "is compared with is evaluated symbolically (bytes, both versions, both parities of the edge count): the data "
             "is taken as present exactly when the mapping is long enough to hold it -- length >= start of the edge data + "
             "numEdges * sizeofEdge. A bound in other units (e.g. one byte per edge) declares 1-byte edge data absent, "
             "because the file length then equals the bound")
    fs = [f for f in fx.functions if f["qn"] == G + "FileGraph::fromMem" and f["kind"] != "pattern"]
    ctx.floor("FileGraph::fromMem", len(fs), 1)
    for f in fs[:1]:
        fn = ctx.fn(f)
        det = []
        nb = 0
        for v in (1, 2):
            for par in (0, 1):
                it = Interp(fn, {"m": C(0), "this->numNodes": N, "this->numEdges": E, "this->sizeofEdge": SZ},
                            {"this->graphVersion": v, "lenlimit": 7}, None, max_paths=64, parity=par)
                finals = [st for st, _ in it.run()]
                for b in fn.blocks.values():
                    c = (b.get("term") or {}).get("cond")
                    if c is None:
                        continue
                    for x in walk(c):
                        if not (isinstance(x, dict) and x.get("k") == "bin" and x.get("op") in ("<", "<=", ">", ">=")):
                            continue
                        cx = canon(x)
                        l, r = cx["l"], cx["r"]
                        if S(r) == "lenlimit":
                            bound, strict = l, cx["op"] == "<"        # bound < lenlimit  /  bound <= lenlimit
                        else:
                            continue
                        for st in finals:
                            val = it.ev(bound, st)
                            if val is None:
                                continue        # the other version's pointer
                            nb += 1
                            need = DATA(v) + SZ * E
                            if par is not None:
                                need = need.subst("P", par)
                            got = val.p + (C(1) if strict else C(0))
                            if got != need:
                                det.append("version %d, %s edge count: edge data is taken as present when the mapping is at "
                                           "least %s bytes long; it fits from %s bytes on (S = sizeofEdge): with 1-byte edge data "
                                           "a complete file is read as having none" % (v, "odd" if par else "even", got, need))
        if not nb:
            det.append("no comparison of the mapping length with a bound found")
        ctx.ob("C12.frommem.edge-data-present-iff-it-fits", f["qn"], not det, "; ".join(sorted(set(det))[:2]), fn.loc(), "lenlimit",
               fnkey=f["key"])


def partial_io(ctx, fxs):
    ctx.rule("C12.io.partial-transfer-loop",
             "a raw write(2)/read(2)/pwrite/pread whose byte count is a variable that the loop decreases by the call's result "
             "(a short transfer is retried for the remainder -- Linux moves at most 0x7ffff000 bytes per call, so every image "
             "above 2 GiB takes this path): on every path from the call back to itself the buffer pointer advances by the same "
             "result (and so does the file offset of the positioned variants); otherwise the retry re-sends the beginning of "
             "the image and the file has the right length but a wrong tail")
    n = 0
    seen = set()
    for fx in fxs:
        for f in fx.functions:
            if f["kind"] == "pattern" or f["key"] in seen or not f["file"].startswith(ctx.root + "/"):
                continue
            calls = [(b["id"], i, e) for b in f.get("blocks", []) for i, e in enumerate(b["ev"])
                     if e.get("k") == "call" and e.get("name") in ("write", "read", "pwrite", "pread") and e.get("recv") is None
                     and len(e.get("a", [])) >= 3]
            if not calls:
                continue
            seen.add(f["key"])
            fn = ctx.fn(f)
            for bid, i, e in calls:
                pos = (bid, i)
                me = e
                # only loops: the call can be reached again from itself
                again, _ = fn.search([fn.after(pos)], stop=lambda x: x is me)
                if not again:
                    continue
                n += 1
                det = []
                a = e["a"]
                ref = lambda t: S(t) if isinstance(t, dict) and t.get("k") in ("ref", "mem") else None

                def strip(t):
                    while isinstance(t, dict) and t.get("k") in ("cast", "paren"):
                        t = t.get("e")
                    return t
                bufv, cntv = ref(strip(a[1])), ref(strip(a[2]))
                offv = ref(strip(a[3])) if len(a) > 3 else None
                # the variable that receives the result
                res = None
                for _, x in fn.events(lambda x: (x.get("k") == "assign" and x.get("op") == "=" and any(y is me for y in walk(x.get("rhs")))) or
                                      (x.get("k") == "decl" and "init" in x and any(y is me for y in walk(x["init"])))):
                    res = x.get("lp") if x.get("k") == "assign" else x.get("n")
                if res is None:
                    # same call spelled inside the assignment's tree (events are separate objects): match by text and line
                    for _, x in fn.events(lambda x: x.get("k") in ("assign", "decl") and x.get("l") == me.get("l")):
                        txt = x.get("rp") if x.get("k") == "assign" else x.get("ip")
                        if txt and me.get("name") + "(" in txt:
                            res = x.get("lp") if x.get("k") == "assign" else x.get("n")
                if cntv is None or res is None:
                    ctx.ob("C12.io.partial-transfer-loop", f["qn"], True, "", fn.loc(pos), "L%s" % e.get("l"), nontrivial=False, fnkey=f["key"])
                    continue
                moves = lambda var, op: (lambda x: x.get("k") == "assign" and x.get("lp") == var and x.get("op") == op and x.get("rp") == res)
                dec = moves(cntv, "-=")
                if not any(True for _ in fn.events(dec)):
                    # the count is not reduced by the result: not a retry-the-remainder loop (a fixed-size chunk loop)
                    ctx.ob("C12.io.partial-transfer-loop", f["qn"], True, "", fn.loc(pos), "L%s" % e.get("l"), nontrivial=False, fnkey=f["key"])
                    continue
                for what, var, op in (("buffer pointer", bufv, "+="), ("file offset", offv, "+=")):
                    if var is None:
                        if what == "buffer pointer":
                            det.append("the buffer argument %s is not a plain variable that can advance" % S(a[1]))
                        continue
                    adv = moves(var, op)
                    h, _ = fn.search([fn.after(pos)], stop=lambda x: x is me or adv(x))
                    if any(fn.ev(y) is me for y in h):
                        det.append("%s(): after a short transfer the remaining count `%s` is reduced by `%s` but the %s `%s` "
                                   "does not advance on a path back to the call (line %s): the retry transfers the beginning "
                                   "of the buffer again" % (e["name"], cntv, res, what, var, e.get("l")))
                ctx.ob("C12.io.partial-transfer-loop", f["qn"], not det, "; ".join(det), fn.loc(pos), "L%s" % e.get("l"), fnkey=f["key"])
    ctx.floor("raw transfer loops (write/read retried for the remainder)", n, 1)


def run(ctx):
    ctx.explanation = EXPL
    fx = ctx.load("src", "drv_grfile")
    try:
        fxd = ctx.load("disttools", dist=True)
    except Exception as ex:      # pragma: no cover
        ctx.broken("dist-graph-convert units could not be parsed: %s" % ex)
        fxd = None
    layout(ctx, fx, fxd)
    widths(ctx, fx)
    versions(ctx, fx)
    version_propagated(ctx, fx)
    buffered_offsets(ctx, fx)
    endian(ctx)
    fxt = ctx.load("tool_graph-convert")
    convert_dispatch(ctx, fxt)
    two_phase(ctx, fxt)
    partial_io(ctx, [fx, fxt] + ([fxd] if fxd is not None else []))
    frommem_presence(ctx, fx)
    ctx.rule("C12.fold.accumulator-holds-elements",
             "every std::accumulate / reduce / exclusive_scan / inner_product in the graph file readers and writers (graphs/*.h, "
             "FileGraph.cpp, the converters) folds in a type that can hold the elements: the accumulator has the type of the "
             "init argument (a literal 0 makes it int); edge counts are 64-bit")
    seen_folds = set()
    nf = sum(R.fold_accumulators(ctx, f_, "C12.fold.accumulator-holds-elements",
                                 r"galois/graphs/|/FileGraph(Parallel)?\.cpp$|/OCFileGraph\.cpp$|/tools/", seen_folds)
             for f_ in [fx, fxt] + ([fxd] if fxd is not None else []))
    ctx.floor("std folds in the graph file code", nf, 1)
