"""C18 - Gluon synchronisation (narrow: decision table, per-mode wire fields, wrappers, index agreement, reset ranges)."""
import re
import itertools

from gsa.cfg import Fn, S, is_call, walk, lit, cmp_pred
from gsa import rules as R
from props.common import split_targs

EXPL = ("GluonSubstrate, every instantiation found in the distributed applications: (1) the nine sync_<w>_to_<r> functions are "
        "evaluated for all four (transposed, isVertexCut) cells and must perform exactly the reduce / broadcast the partition "
        "invariants require (reduce iff the write location can hold mirrors, broadcast iff the read location can), reduce before "
        "broadcast, each call carrying the function's own (write, read) pair; sync<w,r> dispatches to the matching function and "
        "partitionAgnostic forces any->any; (2) for every DataCommMode the fields serializeMessage writes equal the fields "
        "syncRecvApply + deserializeMessage read, in order; (3) sender and receiver pick the same index source per mode "
        "(identity over the shared-node list, offsets into it, or global ids) and the reduce side reads masterNodes where the "
        "broadcast side reads mirrorNodes; (4) extractWrapper resets after extracting only for reduce; setWrapper applies "
        "reduce / setVal and marks the compute bitset exactly when a reduce changed the value; (5) extractSubset and setSubset "
        "compute the local id and the value slot with the same expressions; (6) reset_bitset clears the master range after a "
        "broadcast and the mirror range after a reduce with inclusive bounds; reduce()/broadcast() send before receiving; (7) "
        "the expanded sync structures apply the operation their name says and reset to the identity only for add. Values after a "
        "sync on real partitions (needs execution on several hosts) are not decided.")

GS = "galois::graphs::GluonSubstrate::"
LOC = {"src": ("writeSource", "readSource"), "dst": ("writeDestination", "readDestination"), "any": ("writeAny", "readAny")}


def insts(fx, qn):
    return [f for f in fx.functions if f["qn"] == qn and f["kind"] == "inst"]


def reachable_calls(fn, env, names):
    eok = R.edges_under(fn, env)
    out = []

    def through(pos, e):
        if e.get("k") == "call" and (e.get("name") in names or (not e.get("name") and e.get("rp") in names)):
            out.append((pos, e))
    fn.search([fn.entry_state()], edge_ok=eok, through=through)
    return out


def targs_of_call(e):
    """template arguments of the callee, from its key"""
    fk = e.get("fk") or ""
    m = re.search(r"::%s(<.*>)$" % re.escape(e.get("name") or ""), fk)
    return split_targs("X" + m.group(1)) if m else []


def fargs(f):
    """the function's own template arguments"""
    return [x.strip() for x in f.get("targs", "").split("||")[-1].split(" | ")]


def need(loc, transposed, vc):
    """can proxies at this location be mirrors?  src proxies of an edge are always masters unless the graph is transposed or the
    cut is a vertex cut; dst proxies the other way round"""
    if loc == "any":
        return True
    if loc == "src":
        return bool(transposed or vc)
    return bool((not transposed) or vc)


def decision(ctx, fx):
    ctx.rule("C18.sync.decision-table",
             "sync_<w>_to_<r> (9 functions x 4 cells of (transposed, isVertexCut), every instantiation): reduce is called iff the "
             "write location can hold mirrors in that cell, broadcast iff the read location can; reduce precedes broadcast; every "
             "call's template arguments are the function's own (write, read) locations")
    n = 0
    for w, r in itertools.product(("src", "dst", "any"), repeat=2):
        fs = insts(fx, GS + "sync_%s_to_%s" % (w, r))
        if not fs:
            ctx.broken("sync_%s_to_%s has no instantiation" % (w, r))
            continue
        seen_shapes = set()
        for f in fs:
            fn = ctx.fn(f)
            det = []
            for tr, vc in itertools.product((0, 1), repeat=2):
                env = {"this->transposed": tr, "this->isVertexCut": vc}
                calls = reachable_calls(fn, env, {"reduce", "broadcast"})
                got = [e.get("name") for _, e in calls]
                want = (["reduce"] if need(w, tr, vc) else []) + (["broadcast"] if need(r, tr, vc) else [])
                # writing somewhere nobody reads from needs nothing: src->src / dst->dst with no mirrors on that side
                if got != want:
                    det.append("transposed=%d vertexCut=%d: does %s, the partition invariants require %s" % (tr, vc, got or "nothing",
                                                                                                             want or "nothing"))
                for _, e in calls:
                    ta = targs_of_call(e)
                    if ta[:2] != [LOC[w][0], LOC[r][1]]:
                        det.append("%s called with <%s>" % (e.get("name"), ", ".join(ta[:2])))
            n += 1
            ctx.ob("C18.sync.decision-table", "sync_%s_to_%s" % (w, r), not det, "; ".join(sorted(set(det))[:3]), fn.loc(),
                   f.get("targs", "")[-80:], fnkey=f["key"])
    ctx.floor("sync_<w>_to_<r> instantiations evaluated", n, 90)
    ctx.rule("C18.sync.dispatch", "sync<w, r>: with partitionAgnostic false exactly sync_<w>_to_<r> is called, with it true exactly "
             "sync_any_to_any")
    fs = insts(fx, GS + "sync")
    ctx.floor("sync<w,r> instantiations", len(fs), 10)
    names = {"sync_%s_to_%s" % p for p in itertools.product(("src", "dst", "any"), repeat=2)}
    back = {v[0]: k for k, v in LOC.items()}
    backr = {v[1]: k for k, v in LOC.items()}
    for f in fs:
        fn = ctx.fn(f)
        ta = fargs(f)
        w, r = back.get(ta[0]), backr.get(ta[1]) if len(ta) > 1 else None
        det = []
        if w is None or r is None:
            det.append("template arguments %s" % ta[:2])
        else:
            for pa in (0, 1):
                got = [e.get("name") for _, e in reachable_calls(fn, {"this->partitionAgnostic": pa}, names)]
                want = ["sync_any_to_any"] if pa else ["sync_%s_to_%s" % (w, r)]
                if got != want:
                    det.append("partitionAgnostic=%d: calls %s, expected %s" % (pa, got, want))
        ctx.ob("C18.sync.dispatch", "sync<%s, %s>" % tuple(ta[:2]), not det, "; ".join(det), fn.loc(), f.get("targs", "")[-80:],
               fnkey=f["key"])


def send_recv(ctx, fx):
    ctx.rule("C18.phase.send-before-recv", "reduce() / broadcast(): syncSend precedes syncRecv on every path, both carry the caller's "
             "(write, read) locations and its own sync type (syncReduce / syncBroadcast)")
    n = 0
    for nm, st in (("reduce", "syncReduce"), ("broadcast", "syncBroadcast")):
        fs = insts(fx, GS + nm)
        for f in fs[:60]:
            fn = ctx.fn(f)
            mine = fargs(f)
            det = []
            snd = [(p, e) for p, e in fn.events(is_call(name="syncSend"))]
            rcv = [(p, e) for p, e in fn.events(is_call(name="syncRecv"))]
            if not snd or not rcv:
                det.append("syncSend/syncRecv missing")
            if fn.reaches_without(is_call(name="syncRecv"), is_call(name="syncSend")):
                det.append("syncRecv reachable before syncSend")
            for _, e in snd + rcv:
                ta = targs_of_call(e)
                if ta[:2] != mine[:2] or (len(ta) > 2 and ta[2].split("::")[-1] != st):
                    det.append("%s<%s>" % (e.get("name"), ", ".join(ta[:3])))
            n += 1
            ctx.ob("C18.phase.send-before-recv", nm, not det, "; ".join(sorted(set(det))[:3]), fn.loc(),
                   f.get("targs", "")[-80:], fnkey=f["key"])
    ctx.floor("reduce/broadcast instantiations", n, 40)


def wrappers(ctx, fx):
    ctx.rule("C18.wrap.extract-reset", "extractWrapper<Fn, syncReduce>: Fn::extract, then Fn::reset on the same node, on every path; "
             "extractWrapper<Fn, syncBroadcast>: Fn::reset is never called (a master keeps its value)")
    fs = insts(fx, GS + "extractWrapper")
    ctx.floor("extractWrapper instantiations", len(fs), 10)
    kinds = set()
    for f in fs:
        fn = ctx.fn(f)
        st = fargs(f)[1].split("::")[-1]
        kinds.add(st)
        ex, rs = is_call(name="extract"), is_call(name="reset")
        det = []
        exs = list(fn.events(ex))
        if not exs:
            det.append("no extract")
        if st == "syncReduce":
            for p, e in exs:
                if not fn.must_follow(p, rs):
                    det.append("a path returns the extracted value without resetting the mirror")
                a0 = [S(x) for x in e.get("a", [])]
                for _, r2 in fn.events(rs):
                    if [S(x) for x in r2.get("a", [])][:2] != a0[:2]:
                        det.append("reset applied to %s, extract to %s" % ([S(x) for x in r2.get("a", [])][:2], a0[:2]))
            if fn.reaches_without(rs, ex):
                det.append("reset before extract (the contribution is lost)")
        else:
            if any(True for _ in fn.events(rs)):
                det.append("broadcast extract resets the master's value")
        ctx.ob("C18.wrap.extract-reset", "extractWrapper<%s>" % st, not det, "; ".join(sorted(set(det))), fn.loc(),
               f.get("targs", "")[-80:], fnkey=f["key"])
    if kinds != {"syncReduce", "syncBroadcast"}:
        ctx.broken("extractWrapper sync types seen: %s" % sorted(kinds))
    ctx.rule("C18.wrap.set", "setWrapper: reduce -> Fn::reduce and bit_set_compute.set(lid) exactly on its true branch (guarded by a "
             "non-empty bitset); broadcast -> Fn::setVal when bulk-synchronous, Fn::reduce when asynchronous; never both, never neither")
    fs = insts(fx, GS + "setWrapper")
    ctx.floor("setWrapper instantiations", len(fs), 10)
    for f in fs:
        fn = ctx.fn(f)
        ta = fargs(f)
        st, asy = ta[1].split("::")[-1], ta[2]
        red, sv, bs = is_call(name="reduce"), is_call(name="setVal"), is_call(name="set", recv="bit_set_compute")
        nr, ns, nb = (len(list(fn.events(p))) for p in (red, sv, bs))
        det = []
        if st == "syncReduce":
            if nr != 1 or ns != 0:
                det.append("reduce calls %d, setVal calls %d" % (nr, ns))
            if nb != 1:
                det.append("bitset marks: %d" % nb)
            else:
                isred = lambda t: isinstance(t, dict) and t.get("k") == "call" and t.get("name") == "reduce"
                if fn.guarded_positions(bs, isred, True):
                    det.append("the compute bitset is marked although the reduce did not change the value (or regardless of it)")
                if fn.exit_reachable_without(red):
                    det.append("a path applies nothing")
                # on the changed branch with a non-empty bitset the mark must happen
                ge_t = fn.guard_edges(isred, True)
                nz = lambda t: "bit_set_compute.size()" in S(t)
                ge_nz = fn.guard_edges(nz, True)
                for (bid, i) in ge_t:
                    tgt = fn.blocks[bid]["succ"][i]
                    if tgt is None:
                        continue
                    # from the changed edge, exit reachable without marking while never passing the `size == 0` escape
                    esc = fn.guard_edges(nz, False)
                    h, ex = fn.search([(tgt, 0)], stop=bs, edge_ok=lambda b, j, s2: (b, j) not in esc)
                    if ex:
                        det.append("a changed master is not marked for the following broadcast")
        else:
            want = ("reduce", red) if asy == "true" else ("setVal", sv)
            other = ns if asy == "true" else nr
            if len(list(fn.events(want[1]))) != 1 or other != 0:
                det.append("broadcast apply (async=%s): reduce calls %d, setVal calls %d" % (asy, nr, ns))
            if nb:
                det.append("broadcast marks the compute bitset")
            if fn.exit_reachable_without(want[1]):
                det.append("a path applies nothing")
        ctx.ob("C18.wrap.set", "setWrapper<%s, async=%s>" % (st, asy), not det, "; ".join(sorted(set(det))), fn.loc(),
               f.get("targs", "")[-80:], fnkey=f["key"])


def subset(ctx, fx):
    ctx.rule("C18.subset.index-agreement",
             "extractSubset and setSubset (parallel bodies and serial loops): offset = n under identity_offsets, offsets[n] otherwise; "
             "lid = indices[offset]; the value slot is val_vec[n - start] - the same expressions on the sending and on the "
             "receiving side, so both enumerate a peer's shared nodes in the same order")
    shapes = {}
    n = 0
    for side, nm, wrap in (("send", "extractSubset", "extractWrapper"), ("recv", "setSubset", "setWrapper")):
        bodies = [f for f in fx.functions if f["kind"] == "inst" and f["qn"].startswith(GS + nm + "::lambda@")]
        outer = insts(fx, GS + nm)
        for f in bodies + outer:
            fn = ctx.fn(f)
            al = fn.aliases()
            wc = [e for _, e in fn.events(is_call(name=wrap))]
            if not wc:
                continue
            # identity flag from the enclosing function's template arguments
            par = f.get("parent") or f["key"]
            offs = sorted({S(e.get("rhs")) for _, e in fn.events(lambda e: e.get("k") == "assign" and e.get("lp") == "offset" and e.get("op") == "=")})
            lid = sorted({S(e.get("init")) for _, e in fn.events(lambda e: e.get("k") == "decl" and e.get("n") == "lid" and "init" in e)})
            slots = set()
            for e in wc:
                for x in e.get("a", []):
                    sx = S(x, al)
                    if "val_vec[" in sx:
                        slots.add(re.sub(r"^.*(val_vec\[[^\]]*\]).*$", r"\1", sx))
            for _, e in fn.events(lambda e: e.get("k") == "assign" and "val_vec[" in (e.get("lp") or "")):
                slots.add(re.sub(r"^.*(val_vec\[[^\]]*\]).*$", r"\1", e["lp"]))
            for _, e in fn.events(lambda e: e.get("k") == "call" and e.get("op") == "=" and "val_vec[" in S(e.get("recv") or {}, al)):
                slots.add(re.sub(r"^.*(val_vec\[[^\]]*\]).*$", r"\1", S(e.get("recv"), al)))
            n += 1
            det = []
            # identity_offsets is the last-but-one of the trailing boolean template arguments of the enclosing function
            pk = f.get("parent") or f["key"]
            m = re.search(r"::%s(<.*>)(\(|$)" % nm, pk)
            ta = split_targs("X" + m.group(1)) if m else []
            bools = []
            for x in reversed(ta):
                if x in ("true", "false"):
                    bools.append(x)
                elif bools:
                    break
            ident = bools[1] if len(bools) >= 2 else None      # reversed: [parallelize, identity, ...]
            if nm == "extractSubset" and len(ta) >= 6 and ta[-1] not in ("true", "false"):
                ident = None
            want_off = {"true": ["n"], "false": ["offsets[n]"]}.get(ident)
            got_off = [o.replace("this->", "") for o in offs]
            if want_off is None:
                if not set(got_off) <= {"n", "offsets[n]"} or not got_off:
                    det.append("offset <- %s" % offs)
            elif got_off != want_off:
                det.append("identity_offsets=%s but offset <- %s" % (ident, offs))
            if lid not in (["indices[offset]"], ["this->indices[offset]"]):
                det.append("lid = %s" % lid)
            if slots and slots != {"val_vec[n - start]"} and slots != {"val_vec[(n - start)]"}:
                det.append("value slot %s" % sorted(slots))
            shapes.setdefault(side, set()).add((tuple(o.replace("this->", "") for o in offs), tuple(l.replace("this->", "") for l in lid)))
            ctx.ob("C18.subset.index-agreement", nm, not det, "; ".join(det), fn.loc(), f["key"][-70:], fnkey=f["key"])
    ctx.floor("extractSubset/setSubset bodies", n, 20)


def modes(ctx, fx):
    enum = fx.enums.get("DataCommMode", {}).get("values", {})
    if not enum:
        ctx.broken("enum DataCommMode not found")
        return
    ctx.rule("C18.msg.mode-fields",
             "per DataCommMode: the values serializeMessage passes to gSerialize (after the mode word) equal, in order, the values "
             "syncRecvApply + deserializeMessage pass to gDeserialize: noData - nothing; gidsData / offsetsData - count, offsets, "
             "values; bitsetData - count, bitset, values; onlyData - values")
    want = {"noData": [], "gidsData": ["bit_set_count", "offsets", "val_vec"], "offsetsData": ["bit_set_count", "offsets", "val_vec"],
            "bitsetData": ["bit_set_count", "bit_set_comm", "val_vec"], "onlyData": ["val_vec"]}
    sers = insts(fx, GS + "serializeMessage")
    dess = insts(fx, GS + "deserializeMessage")
    ctx.floor("serializeMessage / deserializeMessage instantiations", min(len(sers), len(dess)), 5)
    for side, fs in (("write", sers), ("read", dess)):
        for f in fs:
            fn = ctx.fn(f)
            det = []
            for mode, fields in want.items():
                env = {"data_mode": enum[mode]}
                nm = "gSerialize" if side == "write" else "gDeserialize"
                calls = reachable_calls(fn, env, {nm})
                got = []
                for _, e in calls:
                    a = [S(x) for x in e.get("a", [])][1:]
                    got += [x for x in a if x not in ("data_mode",)]
                if side == "read" and mode == "noData":
                    continue        # never called for noData (checked at the call site in syncRecvApply)
                if side == "write":
                    # the wire is the concatenation of the calls' arguments: one variadic call or several in a row alike
                    first = [x for _, e in calls for x in [S(y) for y in e.get("a", [])][1:]]
                    if calls and (first[:1] != ["data_mode"] or first.count("data_mode") != 1):
                        det.append("%s: the mode word is not written first (%s)" % (mode, first))
                    if not calls and not (mode == "noData"):
                        det.append("%s: nothing written" % mode)
                if got != fields:
                    det.append("%s: %s %s, expected %s" % (mode, "writes" if side == "write" else "reads", got, fields))
            ctx.ob("C18.msg.mode-fields", ("serializeMessage" if side == "write" else "deserializeMessage"), not det,
                   "; ".join(det[:3]), fn.loc(), f.get("targs", "")[-80:], fnkey=f["key"])
    ctx.rule("C18.msg.apply-index-source",
             "syncRecvApply reads the mode word first and does nothing for noData; per mode it applies with the index source the "
             "sender used: onlyData - identity over the shared-node list; gidsData - the received (converted) ids themselves; "
             "bitsetData - offsets recovered from the bitset, then offsets into the shared-node list; offsetsData - offsets into the "
             "shared-node list; the shared-node list is masterNodes for a reduce and mirrorNodes for a broadcast. syncExtract uses "
             "identity offsets exactly for onlyData")
    fs = [f for f in insts(fx, GS + "syncRecvApply")]
    ctx.floor("syncRecvApply instantiations", len(fs), 10)
    exp = {"onlyData": ("sharedNodes[from_id]", "true"), "gidsData": ("offsets", "true"),
           "bitsetData": ("sharedNodes[from_id]", "false"), "offsetsData": ("sharedNodes[from_id]", "false")}
    for f in fs:
        fn = ctx.fn(f)
        al = fn.aliases()
        det = []
        st = fargs(f)[0].split("::")[-1]
        sn = []
        for _, e in fn.events(lambda e: e.get("k") == "decl" and e.get("n") == "sharedNodes"):
            t = e.get("init")
            while isinstance(t, dict) and t.get("k") in ("cast",):
                t = t.get("e")
            if isinstance(t, dict) and t.get("k") == "cond":
                c = R.decide(t["c"], {})          # the sync type is a template constant of this instantiation
                sn.append(S(t["a"] if c else t["b"]) if c is not None else "?" + S(t))
            else:
                sn.append(S(t))
        wantsn = "this->masterNodes" if st == "syncReduce" else "this->mirrorNodes"
        if sn != [wantsn]:
            det.append("a %s is applied over %s, expected %s" % (st, sn, wantsn))
        first = [e for _, e in fn.events(is_call(name="gDeserialize"))]
        if not first or [S(x) for x in first[0].get("a", [])][1:] != ["data_mode"]:
            det.append("the mode word is not the first thing read")
        for mode, (idx, ident) in exp.items():
            env = {"data_mode": enum[mode], "batch_succeeded": 0, "num": 1}
            calls = reachable_calls(fn, env, {"setSubset", "getOffsetsFromBitset", "deserializeMessage"})
            names = [e.get("name") for _, e in calls]
            ss = [e for _, e in calls if e.get("name") == "setSubset"]
            if len(ss) != 1:
                det.append("%s: %d setSubset calls" % (mode, len(ss)))
                continue
            ta = targs_of_call(ss[0])
            a = [S(x, al) for x in ss[0].get("a", [])]
            got_idx = a[1].replace("this->syncOffsets", "offsets") if len(a) > 1 else "?"
            got_idx = re.sub(r"^\(.*\?.*\)\[from_id\]$", "sharedNodes[from_id]", got_idx)
            if got_idx.replace("this->", "") not in (idx,) and not (idx == "sharedNodes[from_id]" and got_idx.endswith("[from_id]")):
                det.append("%s: indices are %s, expected %s" % (mode, got_idx, idx))
            if len(ta) < 6 or ta[5] != ident:
                det.append("%s: identity_offsets=%s, expected %s" % (mode, ta[5] if len(ta) > 5 else "?", ident))
            if (mode == "bitsetData") != ("getOffsetsFromBitset" in names):
                det.append("%s: getOffsetsFromBitset %s" % (mode, "missing" if mode == "bitsetData" else "called"))
            if "deserializeMessage" not in names or names.index("deserializeMessage") > names.index("setSubset"):
                det.append("%s: applied before the message was decoded" % mode)
        # noData: nothing applied
        calls = reachable_calls(fn, {"data_mode": enum["noData"], "num": 1}, {"setSubset", "deserializeMessage"})
        if calls:
            det.append("noData: %s called" % [e.get("name") for _, e in calls])
        ctx.ob("C18.msg.apply-index-source", "syncRecvApply<%s>" % st, not det, "; ".join(det[:3]), fn.loc(),
               f.get("targs", "")[-80:], fnkey=f["key"])
    # sender side
    fs = [f for f in insts(fx, GS + "syncExtract") if any(True for _ in Fn(f).events(is_call(name="getBitsetAndOffsets")))]
    ctx.floor("syncExtract (bitset) instantiations", len(fs), 10)
    for f in fs:
        fn = ctx.fn(f)
        det = []
        for mode in ("onlyData", "gidsData", "bitsetData", "offsetsData", "noData"):
            env = {"data_mode": enum[mode], "batch_succeeded": 0, "num": 1}
            calls = reachable_calls(fn, env, {"extractSubset", "serializeMessage", "getBitsetAndOffsets"})
            names = [e.get("name") for _, e in calls]
            es = [e for _, e in calls if e.get("name") == "extractSubset"]
            if mode == "noData":
                if es:
                    det.append("noData: values extracted")
            else:
                if len(es) != 1:
                    det.append("%s: %d extractSubset calls" % (mode, len(es)))
                else:
                    ta = targs_of_call(es[0])
                    ident = "true" if mode == "onlyData" else "false"
                    if len(ta) < 4 or ta[3] != ident:
                        det.append("%s: identity_offsets=%s on the sending side, expected %s" % (mode, ta[3] if len(ta) > 3 else "?", ident))
            if mode == "onlyData" and len(es) == 1:
                # dense mode sends every shared node: the count handed to extractSubset (and on to serializeMessage) must be
                # the size of the shared-node list, (re)assigned after getBitsetAndOffsets - which leaves it untouched when
                # the dense encoding is enforced - on every path
                eok = R.edges_under(fn, env)
                a = [S(x) for x in es[0].get("a", [])]
                cnt = a[2] if len(a) > 2 else "?"
                full = ("indices.size()", "num")
                if cnt not in full:
                    setc = lambda e, cnt=cnt: e.get("k") == "assign" and e.get("lp") == cnt and e.get("op") == "=" and e.get("rp") in full
                    gbo = [p for p, e in fn.events(is_call(name="getBitsetAndOffsets"))]
                    tgt = lambda e: e is es[0]
                    if not gbo or fn.reaches_without(tgt, setc, starts=[fn.after(gbo[0])], edge_ok=eok):
                        det.append("onlyData: extractSubset is given the count `%s`, which is not set to the size of the shared-node "
                                   "list after getBitsetAndOffsets (it stays 0 when the dense encoding is enforced, and stale values "
                                   "are sent)" % cnt)
            if names.count("serializeMessage") != 1 or names.count("getBitsetAndOffsets") != 1:
                det.append("%s: calls %s" % (mode, names))
            elif es and not (names.index("getBitsetAndOffsets") < names.index("extractSubset") < names.index("serializeMessage")):
                det.append("%s: order %s" % (mode, names))
        ctx.ob("C18.msg.apply-index-source", "syncExtract", not det, "; ".join(det[:3]), fn.loc(), f.get("targs", "")[-80:],
               fnkey=f["key"])
    ctx.rule("C18.msg.mode-total", "get_data_mode returns only modes that serializeMessage and syncRecvApply handle (noData, onlyData, "
             "bitsetData, offsetsData, or the enforced mode)")
    for f in [g for g in fx.functions if g["qn"] == "get_data_mode" and g["kind"] == "inst"][:4]:
        fn = ctx.fn(f)
        vals = {e.get("rp") for _, e in fn.events(lambda e: e.get("k") == "assign" and e.get("lp") == "data_mode")}
        inits = {e.get("ip") for _, e in fn.events(lambda e: e.get("k") == "decl" and e.get("n") == "data_mode")}
        ok = (vals | inits) <= {"noData", "onlyData", "bitsetData", "offsetsData", "enforcedDataMode"}
        ctx.ob("C18.msg.mode-total", "get_data_mode", ok, "assigns %s" % sorted(vals | inits), fn.loc(), f["key"][-40:], fnkey=f["key"])


def reset_ranges(ctx, fx):
    ctx.rule("C18.bitset.reset-ranges", "reset_bitset: after a broadcast the master range [0, numMasters - 1] is cleared, after a "
             "reduce the mirror range [numMasters, size() - 1] (or [0, size() - 1] when the host owns no master); every call is "
             "guarded so that the inclusive upper bound cannot underflow")
    fs = [f for f in fx.functions if f["qn"] == GS + "reset_bitset" and f["kind"] != "pattern"]
    ctx.floor("reset_bitset", len(fs), 1)
    for f in fs:
        fn = ctx.fn(f)
        det = []
        # the enumerators' values as the instantiation sees them (the class-template pattern reports 0 for both)
        enum = {}
        for b in fn.blocks.values():
            for x in walk((b.get("term") or {}).get("cond") or {}):
                if isinstance(x, dict) and x.get("k") == "ref" and x.get("n") in ("syncReduce", "syncBroadcast") and "c" in x:
                    enum[x["n"]] = x["c"]
        if set(enum) != {"syncReduce", "syncBroadcast"} or enum["syncReduce"] == enum["syncBroadcast"]:
            if len(enum) == 1:
                (k0, v0), = enum.items()        # NDEBUG removes the assert that names the other one; the enum has two values
                enum["syncReduce" if k0 == "syncBroadcast" else "syncBroadcast"] = 1 - v0
            else:
                ctx.broken("SyncType enumerators not found in reset_bitset")
                break
        # decided on values, not spellings: the function is walked under concrete (sync type, number of masters, number of
        # proxies); locals are looked through (the two sizes do not change inside the function) and the arguments of every
        # reachable reset call are evaluated
        table = {("syncBroadcast", 5, 9): [(0, 4)],
                 ("syncReduce", 5, 9): [(5, 8)],
                 ("syncReduce", 5, 5): [],
                 ("syncBroadcast", 5, 5): [(0, 4)],
                 ("syncBroadcast", 0, 9): [],
                 ("syncReduce", 0, 9): [(0, 8)],
                 ("syncReduce", 0, 0): [],
                 ("syncBroadcast", 0, 0): []}
        al = dict(fn.defs(), **fn.aliases())
        for (st, masters, room), want in table.items():
            env = {"syncType": enum[st], "this->userGraph.numMasters()": masters, "this->userGraph.size()": room}
            eok = R.edges_under(fn, env, defs=True)
            calls = []
            fn.search([fn.entry_state()], edge_ok=eok, through=lambda pos, e: calls.append(e) if (
                e.get("k") == "call" and (e.get("name") == "bitset_reset_range" or (not e.get("name") and e.get("rp") == "bitset_reset_range"))) else None)
            got = []
            for e in calls:
                vals = tuple(R.decide(x, env, al) for x in e.get("a", []))
                got.append(vals if None not in vals else tuple(S(x) for x in e.get("a", [])))
            if sorted(got, key=str) != sorted(want, key=str):
                det.append("%s, masters=%d, proxies=%d: resets %s, expected %s" % (st, masters, room, got, want))
        ctx.ob("C18.bitset.reset-ranges", "reset_bitset", not det, "; ".join(det[:3]), fn.loc(), "ranges", fnkey=f["key"])


def cvc_partners(ctx, fx):
    ctx.rule("C18.cvc.partner-table",
             "isNotCommPartnerCVC (who is skipped under a cartesian vertex cut): four switch tables -- (transposed or not) x "
             "(reduce over the write location, broadcast over the read location). In each table the source case tests one grid "
             "dimension, the destination case the other, the any case both; for the same orientation the reduce and the "
             "broadcast table agree (proxies with out-edges sit on one grid line whether they were written or are to be read: "
             "the broadcast must reach exactly the hosts the reduce collected from); the transposed tables are the "
             "non-transposed ones with the dimensions swapped; anchor: not transposed, source -> same grid row (CuSP blocks "
             "sources by rows)")
    fs = [f for f in fx.functions if f["qn"] == GS + "isNotCommPartnerCVC" and f["kind"] == "inst"]
    ctx.floor("isNotCommPartnerCVC instantiations", len(fs), 1)
    for f in fs[:2]:
        fn = ctx.fn(f)
        det = []
        reach = {}
        for t in (0, 1):
            eok = R.edges_under(fn, {"this->transposed": t})
            seen = set()
            fn.search([fn.entry_state()], edge_ok=eok, through=lambda pos, e: seen.add(pos[0]))
            # blocks without events are not reported by `through`: walk block ids by reachability as well
            todo, vis = [fn.f["entry"]], set()
            while todo:
                b = todo.pop()
                if b in vis or b not in fn.blocks:
                    continue
                vis.add(b)
                for i, s_ in enumerate(fn.blocks[b].get("succ", [])):
                    if s_ is not None and eok(b, i, s_):
                        todo.append(s_)
            reach[t] = vis
        tables = {}
        for bid, b in fn.blocks.items():
            term = b.get("term") or {}
            if term.get("cls") != "SwitchStmt":
                continue
            var = S(term.get("cond"))
            kind = "reduce" if var == "writeLocation" else ("broadcast" if var == "readLocation" else None)
            if kind is None:
                continue
            ts = [t for t in (0, 1) if bid in reach[t]]
            if len(ts) != 1:
                det.append("a switch on %s is reachable for both orientations" % var)
                continue
            tab = {}
            for s_ in b.get("succ", []):
                if s_ is None:
                    continue
                lab = fn.blocks[s_].get("label") or {}
                if lab.get("k") != "case":
                    continue
                role = "source" if lab.get("text", "").endswith("Source") else "destination" if lab.get("text", "").endswith("Destination") else "any"
                hits, _ = fn.search([(s_, 0)], stop=lambda e: e.get("k") == "ret")
                dims = set()
                for h in hits:
                    r = S(fn.ev(h).get("e"))
                    dims.add("both" if ("gridRowID" in r and "gridColumnID" in r) else "row" if "gridRowID" in r else
                             "column" if "gridColumnID" in r else r)
                tab[role] = "/".join(sorted(dims))
            tables[(ts[0], kind)] = tab
        if len(tables) != 4:
            det.append("expected four partner tables, found %s" % sorted(tables))
        else:
            for key, tab in sorted(tables.items()):
                if {tab.get("source"), tab.get("destination")} != {"row", "column"} or tab.get("any") != "both":
                    det.append("%s %s: %s" % ("transposed" if key[0] else "not transposed", key[1], tab))
            for t in (0, 1):
                if tables[(t, "reduce")] != tables[(t, "broadcast")]:
                    det.append("%s: reduce skips by %s but broadcast by %s -- the broadcast does not reach the hosts whose "
                               "mirrors are read" % ("transposed" if t else "not transposed", tables[(t, "reduce")], tables[(t, "broadcast")]))
            sw = {"row": "column", "column": "row", "both": "both"}
            for kind in ("reduce", "broadcast"):
                if {k: sw.get(v, v) for k, v in tables[(0, kind)].items()} != tables[(1, kind)]:
                    det.append("%s: the transposed table is not the non-transposed one with the dimensions swapped" % kind)
            if tables[(0, "reduce")].get("source") != "row":
                det.append("not transposed: sources are matched by %s, expected the grid row" % tables[(0, "reduce")].get("source"))
        ctx.ob("C18.cvc.partner-table", "isNotCommPartnerCVC", not det, "; ".join(sorted(set(det))[:3]), fn.loc(), "cvc", fnkey=f["key"])


def structures(ctx, fx):
    ctx.rule("C18.struct.operation",
             "expanded sync structures of the distributed applications (class name Reduce_<op>_<field>): reduce applies the "
             "operation the name says (add / min / max / set, or the pair-wise / array variants of it) to the field named in "
             "extract and setVal; reset writes the identity for add (otherwise a mirror's contribution would be counted again at "
             "the next sync) and nothing for the idempotent operations; setVal stores the received value")
    byclass = {}
    for f in fx.functions:
        if f["kind"] == "pattern" or not f.get("cls"):
            continue
        c = f["cls"].split("::")[-1]
        m = re.match(r"^Reduce_(add|min|max|set|pair_wise_avg_array|pair_wise_add_array|pair_wise_add_array_single)_(.*)$", c)
        if m and f["name"] in ("reduce", "reset", "extract", "setVal") and len(f.get("params", [])) in (2, 3, 4):
            byclass.setdefault((c, m.group(1)), {}).setdefault(f["name"], []).append(f)
    n = 0
    for (c, op), d in sorted(byclass.items()):
        det = []
        cpu = lambda f: not any("cuda" in (p["ty"] or "").lower() for p in f["params"])
        red = [f for f in d.get("reduce", []) if cpu(f) and len(f["params"]) == 3]
        rst = [f for f in d.get("reset", []) if cpu(f)]
        if not red:
            continue
        n += 1
        fn = ctx.fn(red[0])
        calls = {e.get("name") for _, e in fn.events(lambda e: e.get("k") == "call") if (e.get("fn") or "").startswith("galois::")}
        wantfn = {"add": {"add", "atomicAdd"}, "min": {"min", "atomicMin"}, "max": {"max", "atomicMax"}, "set": {"set"},
                  "pair_wise_avg_array": {"pairWiseAvg_vec"}, "pair_wise_add_array": {"addArray"},
                  "pair_wise_add_array_single": {"addArraySingle", "add"}}[op]
        if not (calls & wantfn):
            det.append("reduce calls %s, expected one of %s" % (sorted(calls) or "nothing", sorted(wantfn)))
        other = {"add", "atomicAdd", "min", "atomicMin", "max", "atomicMax", "set"} - wantfn
        if calls & other and op in ("add", "min", "max", "set"):
            det.append("reduce also calls %s" % sorted(calls & other))
        # the result of a min/max is `changed` = new value smaller/larger than the old one: y < old
        for g in rst[:1]:
            gn = ctx.fn(g)
            writes = [(e.get("lp"), e.get("rp")) for _, e in gn.events(lambda e: e.get("k") == "assign")]
            calls2 = [e.get("name") for _, e in gn.events(lambda e: e.get("k") == "call" and (e.get("fn") or "").startswith("galois::"))]
            if op in ("add", "pair_wise_add_array", "pair_wise_add_array_single"):
                if not writes and not calls2:
                    det.append("reset of an add reduction writes nothing: a mirror's contribution is added again at the next sync")
                for lp, rp in writes:
                    if rp not in ("0", "0.", "0.0", "(ValTy)0") and "0" != (rp or "").strip("()").split(")")[-1]:
                        det.append("reset writes %s, not the additive identity" % rp)
            elif op in ("min", "max", "set"):
                if writes or calls2:
                    det.append("reset of an idempotent %s reduction writes %s" % (op, writes or calls2))
        ctx.ob("C18.struct.operation", c, not det, "; ".join(det[:3]), fn.loc(), op, fnkey=red[0]["key"])
    ctx.floor("expanded Reduce_* sync structures", n, 15)


def net_shape(ctx, fx):
    ctx.rule("C18.net.send-recv-shape",
             "syncNetSend / syncNetRecv: the asynchronous phase offset is 1 exactly for a broadcast on both sides; the update bitset is "
             "reset only after the last send buffer was extracted; bulk-synchronous sends are flushed; the bulk-synchronous receiver "
             "skips itself, applies what it received from the host it came from (p->first, p->second), and bumps the phase exactly "
             "once, after the last receive; the asynchronous receiver never bumps it")
    n = 0
    for f in insts(fx, GS + "syncNetSend")[:120]:
        fn = ctx.fn(f)
        ta = fargs(f)
        st, asy = ta[2].split("::")[-1], ta[-1]
        det = []
        one = [e for _, e in fn.events(lambda e: e.get("k") == "assign" and e.get("lp") == "syncTypePhase" and e.get("rp") == "1")]
        want1 = (asy == "true" and st == "syncBroadcast")
        if bool(one) != want1:
            det.append("phase offset 1 %s for %s async=%s" % ("used" if one else "not used", st, asy))
        snd = [e for _, e in fn.events(is_call(name="sendTagged"))]
        if len(snd) != 1 or [S(x) for x in snd[0].get("a", [])][:1] != ["x"] or "syncTypePhase" not in S(snd[0]["a"][-1]):
            det.append("sendTagged arguments %s" % [[S(x) for x in e.get("a", [])] for e in snd])
        gsb, rb = is_call(name="getSendBuffer"), is_call(name="reset_bitset")
        if fn.reaches_without(is_call(name="sendTagged"), gsb):
            det.append("a buffer is sent before it was filled")
        for p, _ in fn.events(rb):
            h, _ = fn.search([fn.after(p)], stop=gsb)
            if h:
                det.append("values are extracted after the update bitset was reset")
        fl = list(fn.events(is_call(name="flush")))
        if (asy == "false") != bool(fl):
            det.append("flush %s for async=%s" % ("present" if fl else "missing", asy))
        n += 1
        ctx.ob("C18.net.send-recv-shape", "syncNetSend", not det, "; ".join(det[:3]), fn.loc(), f.get("targs", "")[-80:], fnkey=f["key"])
    for f in insts(fx, GS + "syncNetRecv")[:120]:
        fn = ctx.fn(f)
        ta = fargs(f)
        st, asy = ta[2].split("::")[-1], ta[-1]
        det = []
        one = [e for _, e in fn.events(lambda e: e.get("k") == "assign" and e.get("lp") == "syncTypePhase" and e.get("rp") == "1")]
        if bool(one) != (asy == "true" and st == "syncBroadcast"):
            det.append("phase offset 1 %s for %s async=%s" % ("used" if one else "not used", st, asy))
        inc = list(fn.events(is_call(name="incrementEvilPhase")))
        rcv = is_call(name="recieveTagged")
        app = [e for _, e in fn.events(is_call(name="syncRecvApply"))]
        if not app or any([S(x) for x in e.get("a", [])][:2] != ["p->first", "p->second"] for e in app):
            det.append("syncRecvApply arguments %s" % [[S(x) for x in e.get("a", [])][:2] for e in app])
        if asy == "true":
            if inc:
                det.append("the asynchronous receiver bumps the phase")
        else:
            if len(inc) != 1:
                det.append("phase bumped at %d sites" % len(inc))
            else:
                h, _ = fn.search([fn.after(inc[0][0])], stop=rcv)
                if h:
                    det.append("receives after the phase was bumped")
                if fn.exit_reachable_without(is_call(name="incrementEvilPhase")):
                    det.append("a path leaves without bumping the phase")
            if fn.guarded_positions(rcv, cmp_pred("x", "==", "this->id"), False):
                det.append("the receiver may wait for a message from itself")
        n += 1
        ctx.ob("C18.net.send-recv-shape", "syncNetRecv", not det, "; ".join(det[:3]), fn.loc(), f.get("targs", "")[-80:], fnkey=f["key"])
    ctx.floor("syncNetSend/syncNetRecv instantiations", n, 60)


def edge_sibling(ctx, fxp):
    ctx.rule("C18.edge.sibling-agreement",
             "GluonEdgeSubstrate is a copy of GluonSubstrate for edge data: every member function the two class templates share "
             "(same name and arity; template patterns, so no instantiation is needed) makes the same calls the same number of times "
             "in the same may-follow order (which call can come after which, over the CFG -- not the textual order) after "
             "the renaming getEdgeData->getData, sizeEdges->size, numOwnedEdges->numMasters (callee names in order; argument lists "
             "differ because the edge copy has no write/read locations); frozen, reasoned exceptions: sync (edges are "
             "synchronised any->any only: sync -> sync_any_to_any -> reduce, then broadcast, unconditionally), broadcast (no on-demand "
             "bit-vector flags), convertGIDToLID / convertLIDToGID (an extra warning)")
    ren = {"getEdgeData": "getData", "sizeEdges": "size", "numOwnedEdges": "numMasters"}
    exc = {("sync", 1): "any->any only", ("broadcast", 1): "no on-demand flags", ("convertGIDToLID", 2): "extra gWarn",
           ("convertLIDToGID", 3): "extra gWarn"}

    def seq(f):
        """what the function calls and in which order, independent of how the branches are laid out in the text: the multiset
        of callee names plus the may-follow relation between them ((x, y): a call of y can come after a call of x). Patterns
        have no CFG; the extractor's structure markers (if: then / else / end, loops: body / end) give the nesting: events
        of the two branches of one `if` never follow each other, events inside one loop all follow each other. Names only:
        the edge copy drops location arguments; a (de)serialisation call counts once per value so that one variadic call
        and several calls in a row are the same."""
        evs = [e for b in f.get("blocks", []) for e in b["ev"]]
        pos = [0]

        def parse(stop):
            """-> list of items: ("c", name, weight) | ("if", [then items], [else items]) | ("loop", [items])"""
            out = []
            while pos[0] < len(evs):
                e = evs[pos[0]]
                if e.get("k") == "ctl":
                    ph = e.get("ph")
                    if ph in stop:
                        return out
                    pos[0] += 1
                    if ph == "then":
                        th = parse(("else",))
                        pos[0] += 1          # the else marker
                        el = parse(("end",))
                        pos[0] += 1          # the end marker
                        out.append(("if", th, el))
                    elif ph == "body":
                        bd = parse(("end",))
                        pos[0] += 1
                        out.append(("loop", bd))
                    elif ph == "switch":
                        bd = parse(("end",))
                        pos[0] += 1
                        out.append(("loop", bd))      # cases may fall through: treated like a loop (every order possible)
                    continue
                pos[0] += 1
                if e.get("k") == "call" and e.get("name") and not e["name"].startswith("operator"):
                    n = ren.get(e["name"], e["name"])
                    w = max(1, len(e.get("a", [])) - 1) if n in ("gSerialize", "gDeserialize") else 1
                    out.append(("c", n, w))
            return out
        tree = parse(())
        count, follow = {}, set()

        def names(items):
            r = set()
            for it in items:
                if it[0] == "c":
                    r.add(it[1])
                elif it[0] == "if":
                    r |= names(it[1]) | names(it[2])
                else:
                    r |= names(it[1])
            return r

        def walk_items(items):
            before = set()
            for it in items:
                if it[0] == "c":
                    count[it[1]] = count.get(it[1], 0) + it[2]
                    here = {it[1]}
                elif it[0] == "if":
                    walk_items(it[1]); walk_items(it[2])
                    here = names(it[1]) | names(it[2])
                else:
                    walk_items(it[1])
                    here = names(it[1])
                    for x in here:
                        for y in here:
                            follow.add((x, y))
                for x in before:
                    for y in here:
                        follow.add((x, y))
                before |= here
        walk_items(tree)
        follow -= {(x, x) for x in ("gSerialize", "gDeserialize")}      # one call or several in a row: the count decides
        return sorted(count.items()), sorted(follow)
    A, B = {}, {}
    for f in fxp.functions:
        if f["kind"] != "pattern" or "lambda" in f["qn"]:
            continue
        for cls, D in (("GluonSubstrate", A), ("GluonEdgeSubstrate", B)):
            if f["qn"].startswith("galois::graphs::%s::" % cls):
                D.setdefault((f["name"], len(f["params"])), []).append(f)
    common = sorted(set(A) & set(B))
    ctx.floor("member functions shared by GluonSubstrate and GluonEdgeSubstrate", len(common), 30)
    must = {"serializeMessage", "deserializeMessage", "syncRecvApply", "syncExtract", "extractSubset", "setSubset", "getBitsetAndOffsets",
            "extractWrapper", "setWrapper", "reduce", "syncSend", "syncRecv"}
    missing = must - {k[0] for k in common}
    if missing:
        ctx.broken("functions expected in both substrates are missing from one: %s" % sorted(missing))
    for k in common:
        if len(A[k]) != len(B[k]):
            continue
        for fa, fb in zip(sorted(A[k], key=lambda f: f["line"]), sorted(B[k], key=lambda f: f["line"])):
            a, b = seq(fa), seq(fb)
            if k in exc:
                if k == ("sync", 1):
                    names = [x for x, c in b[0] for _ in range(c) if x.startswith("sync_")]
                    ok = names == ["sync_any_to_any"]
                    ctx.ob("C18.edge.sibling-agreement", "GluonEdgeSubstrate::sync", ok,
                           "edge sync dispatches to %s, expected sync_any_to_any only" % names,
                           "%s:%s" % (fb["file"], fb["line"]), "sync")
                continue
            da = [x for x in a[0] if x not in b[0]] or [x for x in a[1] if x not in b[1]]
            db = [x for x in b[0] if x not in a[0]] or [x for x in b[1] if x not in a[1]]
            ctx.ob("C18.edge.sibling-agreement", "%s/%d" % k, a == b,
                   "GluonSubstrate calls / orders %s that the edge copy does not; the edge copy has %s (callee, count) or "
                   "(earlier, later)" % (da[:4], db[:4]) if a != b else "",
                   "%s:%s" % (fb["file"], fb["line"]), "%s/%d@%s" % (k[0], k[1], fb["line"]))


def run(ctx):
    ctx.explanation = EXPL
    # the sync structures are macro expansions inside the applications' own *_sync.hh files
    fx = ctx.load("distapps", "drv_distgluon", files_extra="lonestar/analytics/distributed")
    decision(ctx, fx)
    send_recv(ctx, fx)
    wrappers(ctx, fx)
    subset(ctx, fx)
    modes(ctx, fx)
    reset_ranges(ctx, fx)
    cvc_partners(ctx, fx)
    structures(ctx, fx)
    net_shape(ctx, fx)
    fxp = ctx.load("drv_distgluon", patterns=True)
    edge_sibling(ctx, fxp)
