"""OWN family: linear ownership of chunk pointers in the chunked worklists."""
from gsa.cfg import Fn, S, walk, lit, is_call

W = "galois::worklists::"
CLASSES = {
    W + "internal::ChunkMaster": ("emplacei", "pop", "peek", "flush", "push"),
    W + "PerThreadChunkMaster": ("push_internal", "pop", "push"),
}
POP_NAMES = {"extract_front", "extract_back", "doPop"}
PUBLISH = {"pushChunk", "push"}


def is_chunk_ptr(t):
    ti = (t or {}).get("t") or {}
    return bool(ti.get("ptr")) and (ti.get("rec") or "").endswith("::Chunk")


def check(ctx, fx, prefix="C01"):
    R_OVER = prefix + ".own.no-overwrite"
    R_DEL = prefix + ".own.delete-when-empty"
    ctx.rule(R_OVER, "a chunk slot (n.cur / n.next / per-thread push or pop chunk) is overwritten only when it is null on "
             "that path, or after its chunk was published (pushChunk / worklist.push), deleted, or moved to another slot")
    ctx.rule(R_DEL, "delChunk(x) only on paths where x was just observed empty (its extract/pop returned nothing, or "
             "x->empty()) since x was last assigned")
    nfn = 0
    for cls, names in CLASSES.items():
        fs = [f for f in fx.functions if f.get("cls") == cls and f["kind"] == "inst" and f["name"] in names]
        ctx.floor("chunk-owning functions of " + cls, len(fs), 4)
        for f in fs:
            fn = ctx.fn(f)
            al = fn.aliases()
            slots = {}
            for pos, e in fn.events(lambda e: e.get("k") == "assign" and e.get("op") == "="):
                if is_chunk_ptr(e.get("lhs")):
                    slots.setdefault(S(e["lhs"], al), []).append((pos, e))
            dels = [(p, e) for p, e in fn.events(is_call(name="delChunk"))]
            if not slots and not dels:
                continue
            nfn += 1
            for X, assigns in sorted(slots.items()):
                def discharge(e, X=X):
                    if e.get("k") == "call" and e.get("name") in PUBLISH | {"delChunk"}:
                        return any(S(a, al) == X for a in e.get("a", []))
                    if e.get("k") == "call" and e.get("name") == "swap":
                        return any(S(a, al) == X for a in e.get("a", []))
                    if e.get("k") == "assign" and e.get("op") == "=" and S(e.get("rhs"), al) == X and S(e.get("lhs"), al) != X:
                        return True
                    return False
                real_bad = []
                for pos, e in assigns:
                    target = lambda ev, e=e: ev is e
                    stop = lambda ev: target(ev) or discharge(ev)
                    hits, _ = fn.search_tracked([fn.entry_state()], stop=stop, track={X})
                    real_bad += [hp for hp, kn in hits if fn.ev(hp) is e and kn.get(X) is not False]
                    for p2, e2 in assigns:
                        rhs = S(e2.get("rhs"), al)
                        init = {X: False} if rhs in ("0", "nullptr", "NULL") else {}
                        hits, _ = fn.search_tracked([fn.after(p2)], stop=stop, track={X}, init=init)
                        real_bad += [hp for hp, kn in hits if fn.ev(hp) is e and kn.get(X) is not False]
                ctx.ob(R_OVER, f["qn"], not real_bad,
                       "slot %s overwritten while it may still own an unpublished chunk at %s" % (
                           X, sorted({fn.loc(p) for p in real_bad})), fn.loc(), X.split(".")[-1].split(">")[-1],
                       fnkey=f["key"])
            for dpos, de in dels:
                X = S(de["a"][0], al) if de.get("a") else "?"

                def evidence(t, X=X):
                    for n in walk(t):
                        if n.get("k") == "call" and n.get("name") in POP_NAMES:
                            r = n.get("recv")
                            if (r is not None and S(r, al) == X) or any(S(a, al) == X for a in n.get("a", [])):
                                return True
                    return False

                def empty_lit(t, X=X):
                    return t.get("k") == "call" and t.get("name") == "empty" and t.get("recv") is not None and S(t["recv"], al) == X
                ge = fn.guard_edges(evidence, False) | fn.guard_edges(empty_lit, True)
                assigns = slots.get(X, [])
                starts = [fn.entry_state()] + [fn.after(p) for p, _ in assigns]
                hits, _ = fn.search_tracked(starts, stop=lambda ev: ev is de, track={X},
                                            edge_ok=lambda b, i, s: (b, i) not in ge)
                ctx.ob(R_DEL, f["qn"], not hits,
                       "delChunk(%s) reachable without having observed the chunk empty" % X, fn.loc(dpos),
                       X.split(".")[-1].split(">")[-1], fnkey=f["key"])
    ctx.floor("functions with chunk-slot obligations", nfn, 8)
