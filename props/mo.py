"""MO family: memory-order roles of atomic access sites (shared by C02/C04/C05/C06)."""
import re

from gsa.cfg import Fn, S, walk

RELAXED, CONSUME, ACQUIRE, RELEASE, ACQ_REL, SEQ_CST = 0, 1, 2, 3, 4, 5
NAMES = {0: "relaxed", 1: "consume", 2: "acquire", 3: "release", 4: "acq_rel", 5: "seq_cst", -1: "non-constant"}


def at_least_acquire(o):
    return o in (CONSUME, ACQUIRE, ACQ_REL, SEQ_CST)


def at_least_release(o):
    return o in (RELEASE, ACQ_REL, SEQ_CST)


def at_least_acq_rel(o):
    return o in (ACQ_REL, SEQ_CST)


ROLE_OK = {
    "ACQ_RMW": (at_least_acquire, "success order must be at least acquire"),
    "ACQ_LOAD": (at_least_acquire, "load must be at least acquire"),
    "REL_STORE": (at_least_release, "store must be at least release"),
    "SYNC_RMW": (at_least_acq_rel, "read-modify-write must be at least acq_rel"),
    "HINT": (lambda o: True, ""),
}

G = "galois::"
SL = G + "substrate::SimpleLock"
PL = G + "substrate::PtrLock"
PS = G + "substrate::ThreadPool::per_signal"
TP = G + "substrate::ThreadPool"
LTD = G + "substrate::internal::LocalTerminationDetection"
AN = "(anonymous namespace)::"

# (function qn regex, object selector (field fq or path regex prefixed by ~), kinds, role, reason-if-HINT)
SIMPLELOCK_ROWS = [
    (r"^%s::(lock|try_lock|slow_lock)$" % SL, SL + "::_lock", {"cas", "rmw"}, "ACQ_RMW", ""),
    (r"^%s::(lock|try_lock|slow_lock)$" % SL, SL + "::_lock", {"load"}, "HINT", "pre-check before the RMW; the RMW decides"),
    (r"^%s::unlock$" % SL, SL + "::_lock", {"store"}, "REL_STORE", ""),
    (r"^%s::(SimpleLock|operator=|is_locked)$" % SL, SL + "::_lock", {"load", "store"}, "HINT",
     "unsynchronised copy / assertion helper"),
]
PTRLOCK_ROWS = [
    (r"^%s::(lock|try_lock)$" % PL, PL + "::_lock", {"cas", "rmw"}, "ACQ_RMW", ""),
    (r"^%s::(lock|try_lock)$" % PL, PL + "::_lock", {"load"}, "HINT", "pre-check before the RMW"),
    (r"^galois::substrate::internal::ptr_slow_lock$", "#0", {"cas", "rmw"}, "ACQ_RMW", ""),
    (r"^galois::substrate::internal::ptr_slow_lock$", "#0", {"load"}, "HINT", "spin pre-check before the RMW"),
    (r"^%s::(unlock|unlock_and_clear|unlock_and_set)$" % PL, PL + "::_lock", {"store"}, "REL_STORE", ""),
    (r"^%s::unlock$" % PL, PL + "::_lock", {"load"}, "HINT", "self-load by the holder"),
    (r"^%s::(getValue|setValue|PtrLock|operator=|is_locked)$" % PL, PL + "::_lock", {"load", "store"}, "HINT",
     "identity comparison or holder-only access; does not clear the lock bit"),
    (r"^%s::(CAS|stealing_CAS)$" % PL, PL + "::_lock", {"cas"}, "SYNC_RMW", ""),
]
THREADPOOL_ROWS = [
    (r"^%s::wakeup$" % PS, PS + "::done", {"store"}, "REL_STORE", ""),
    (r"^%s::wakeup$" % PS, PS + "::fastRelease", {"store"}, "REL_STORE", ""),
    (r"^%s::wait$" % PS, PS + "::fastRelease", {"load"}, "ACQ_LOAD", ""),
    (r"^%s::wait$" % PS, PS + "::fastRelease", {"store"}, "HINT", "owner resets its own flag after consuming it"),
    (r"^%s::wait::lambda" % PS, PS + "::done", {"load"}, "HINT", "read under the mutex m (LOCK rule)"),
    (r"^%s::decascade$" % TP, "~^this->signals\[", {"load"}, "ACQ_LOAD", ""),
    (r"^%s::decascade$" % TP, "~^(me|my_box)\.done$", {"store"}, "REL_STORE", ""),
    (r"^%s::(threadLoop|initThread)$" % TP, PS + "::done", {"store"}, "REL_STORE", ""),
    (r"^%s::ThreadPool::lambda" % TP, PS + "::done", {"load"}, "ACQ_LOAD", ""),
    (r"^%s::runDedicated$" % TP, PS + "::done", {"load"}, "ACQ_LOAD", ""),
    (r"^%s::runDedicated$" % TP, PS + "::done", {"store"}, "HINT", "parent clears the flag before waking the child"),
]
TERMINATION_ROWS = [
    (r"^%s::propToken$" % LTD, LTD + "::TokenHolder::tokenIsBlack", {"store"}, "REL_STORE", ""),
    (r"^%s::propToken$" % LTD, LTD + "::TokenHolder::hasToken", {"store"}, "REL_STORE", ""),
    (r"^%s::localTermination$" % LTD, LTD + "::TokenHolder::hasToken", {"load"}, "ACQ_LOAD", ""),
    (r"^%s::localTermination$" % LTD, LTD + "::TokenHolder::tokenIsBlack", {"load"}, "ACQ_LOAD", ""),
    (r"^%s::localTermination$" % LTD, "@TokenHolder::(hasToken|tokenIsBlack)$", {"store"}, "HINT",
     "holder resets its own token fields; ordered by the ring hand-over"),
    (r"^%s::initializeThread$" % LTD, "@TokenHolder::(hasToken|tokenIsBlack)$", {"store"}, "HINT",
     "re-arm before the barrier"),
    (r"^galois::substrate::TerminationDetection::globalTermination$", G + "substrate::CacheLineStorage::data",
     {"load"}, "ACQ_LOAD", ""),
    (r"^galois::substrate::CacheLineStorage::operator=$", G + "substrate::CacheLineStorage::data", {"store"},
     "REL_STORE", ""),
]
BARRIER_ROWS = [
    (r"^%sCountingBarrier::wait$" % re.escape(AN), AN + "CountingBarrier::count", {"rmw"}, "SYNC_RMW", ""),
    (r"^%sCountingBarrier::wait$" % re.escape(AN), AN + "CountingBarrier::count", {"store"}, "HINT",
     "reset by the last arriver, published by the release store of sense (ORD rule)"),
    (r"^%sCountingBarrier::wait$" % re.escape(AN), AN + "CountingBarrier::sense", {"store"}, "REL_STORE", ""),
    (r"^%sCountingBarrier::wait$" % re.escape(AN), AN + "CountingBarrier::sense", {"load"}, "ACQ_LOAD", ""),
    (r"^%sMCSBarrier::wait$" % re.escape(AN), AN + "MCSBarrier::treenode::childnotready", {"load"}, "ACQ_LOAD", ""),
    (r"^%sMCSBarrier::wait$" % re.escape(AN), AN + "MCSBarrier::treenode::childnotready", {"store"}, "HINT",
     "own reset before release (ORD rule)"),
    (r"^%sMCSBarrier::wait$" % re.escape(AN), "~(parentpointer|childpointers\[)", {"store"}, "REL_STORE", ""),
    (r"^%sMCSBarrier::wait$" % re.escape(AN), AN + "MCSBarrier::treenode::parentsense", {"load"}, "ACQ_LOAD", ""),
    (r"^%sTopoBarrier::wait$" % re.escape(AN), AN + "TopoBarrier::treenode::childnotready", {"load"}, "ACQ_LOAD", ""),
    (r"^%sTopoBarrier::wait$" % re.escape(AN), AN + "TopoBarrier::treenode::childnotready", {"store"}, "HINT",
     "own reset before release (ORD rule)"),
    (r"^%sTopoBarrier::wait$" % re.escape(AN), AN + "TopoBarrier::treenode::childnotready", {"rmw"}, "SYNC_RMW", ""),
    (r"^%sTopoBarrier::wait$" % re.escape(AN), AN + "TopoBarrier::treenode::parentsense", {"load"}, "ACQ_LOAD", ""),
    (r"^%sTopoBarrier::wait$" % re.escape(AN), AN + "TopoBarrier::treenode::parentsense", {"store"}, "REL_STORE", ""),
    (r"^%sDisseminationBarrier::wait$" % re.escape(AN), AN + "DisseminationBarrier::node::flag", {"store"}, "REL_STORE", ""),
    (r"^%sDisseminationBarrier::wait$" % re.escape(AN), AN + "DisseminationBarrier::node::flag", {"load"}, "ACQ_LOAD", ""),
    (r"^%s(Counting|MCS|Topo|Dissemination)Barrier::(_reinit|node::node|treenode::treenode)$" % re.escape(AN),
     "~.", {"load", "store", "rmw"}, "HINT", "documented: not while any thread is in wait()"),
]
WL = G + "worklists::"
WORKLIST_ROWS = [
    (r"^%s(Adaptive)?OrderedByIntegerMetric::updateLocal$" % WL, "~masterVersion$", {"load"}, "ACQ_LOAD", ""),
    (r"^%s(Adaptive)?OrderedByIntegerMetric::slowUpdateLocalOrCreate$" % WL, "~masterVersion$", {"load"}, "HINT",
     "read under masterLock by the only writer"),
    (r"^%s(Adaptive)?OrderedByIntegerMetric::slowUpdateLocalOrCreate$" % WL, "~masterVersion$", {"rmw"}, "SYNC_RMW", ""),
    (r"^%sBulkSynchronous::(pop|push_initial)$" % WL, "~(some|isEmpty)", {"load", "store"}, "HINT",
     "ordered by the double barrier (BAR rule, C08)"),
    (r"^galois::FixedSizeBagBase::(push_front|pop_front|emplace_front|extract_front)$", G + "FixedSizeBagBase::count",
     {"cas"}, "SYNC_RMW", ""),
    (r"^galois::FixedSizeBagBase::", G + "FixedSizeBagBase::count", {"load", "store"}, "HINT",
     "pre-check re-validated by the CAS / single-threaded accessors"),
]
ALL_ROWS = (SIMPLELOCK_ROWS + PTRLOCK_ROWS + THREADPOOL_ROWS + TERMINATION_ROWS + BARRIER_ROWS + WORKLIST_ROWS)

# fields that carry cross-thread synchronisation and therefore must be std::atomic
MUST_BE_ATOMIC = [
    (SL, "_lock"), (PL, "_lock"), (PS, "done"), (PS, "fastRelease"),
    (LTD + "::TokenHolder", "tokenIsBlack"), (LTD + "::TokenHolder", "hasToken"),
    (AN + "CountingBarrier", "count"), (AN + "CountingBarrier", "sense"),
    (AN + "MCSBarrier::treenode", "childnotready"), (AN + "MCSBarrier::treenode", "parentsense"),
    (AN + "TopoBarrier::treenode", "childnotready"), (AN + "TopoBarrier::treenode", "parentsense"),
    (AN + "DisseminationBarrier::node", "flag"),
    (WL + "OrderedByIntegerMetric", "masterVersion"), (WL + "AdaptiveOrderedByIntegerMetric", "masterVersion"),
    (WL + "BulkSynchronous", "isEmpty"),
]
TREE_TD = G + "substrate::internal::TreeTerminationDetection::TokenHolder"
MUST_BE_ATOMIC_TERMINATION = [(TREE_TD, "down_token"), (TREE_TD, "up_token")]


def obj_fq(fn, e):
    """qualified field name of the atomic object accessed (aliases resolved) and its path"""
    al = fn.aliases()
    o = e["obj"]
    hops = 0
    while isinstance(o, dict) and hops < 10:
        hops += 1
        k = o.get("k")
        if k == "mem":
            return o["fq"], S(e["obj"], al)
        if k == "idx":
            o = o["b"]
            continue
        if k == "ref" and o.get("n") in al:
            o = al[o["n"]]
            continue
        if k == "call" and o.get("recv") is not None and o.get("name") in ("get", "operator*", "operator->", "operator[]"):
            o = o["recv"]
            continue
        if k == "cast":
            o = o["e"]
            continue
        break
    return None, S(e["obj"], al)


def passed_down(ctx, fx, f, fn, depth=2):
    """atomic accesses a function performs THROUGH A HELPER it hands the atomic object to by reference
    (`spinUntilSet(signals[i]->done)`): each atomic access of the helper on that parameter counts as a site of the caller, on
    the object the caller passed, with the helper's memory order. Without this, moving an access into a helper would make
    the caller's table row match nothing (analysis broken) instead of judging the order the helper requests."""
    out = []
    if depth <= 0:
        return out
    for pos, ce in fn.events(lambda e: e.get("k") == "call" and e.get("fk"), reachable_only=False):
        g = fx.callee(ce)
        if g is None or g is f or g["kind"] == "pattern" or not g.get("blocks"):
            continue
        for k, arg in enumerate(ce.get("a", [])):
            t = arg
            while isinstance(t, dict) and t.get("k") in ("cast", "paren"):
                t = t.get("e")
            if not isinstance(t, dict) or (t.get("t") or {}).get("rec") != "std::atomic" or k >= len(g.get("params", [])):
                continue
            pname = g["params"][k]["n"]
            gfn = ctx.fn(g)
            for gpos, ge in gfn.events(lambda e: e["k"] == "atomic", reachable_only=False):
                _, gpath = obj_fq(gfn, ge)
                if gpath == pname:
                    v = dict(ge)
                    v["obj"] = t
                    out.append(("%s (in %s, called at %s)" % (gfn.loc(gpos), g["name"], fn.loc(pos)), v))
    return out


def check_rows(ctx, fx, prefix, rows, floor=None, fn_pred=None):
    R_ROLE = prefix + ".mo.role"
    ctx.rule(R_ROLE, "every atomic access on a promised synchronisation edge requests at least the memory order its role "
             "needs: lock-acquiring RMW >= acquire (success order), unlocking / publishing store >= release, "
             "synchronising load >= acquire, arrival RMW >= acq_rel; strengthening never fires")
    comp = [(re.compile(r[0]), r[1], r[2], r[3], r[4]) for r in rows]
    matched_rows = set()
    n = 0
    unclassified = []
    for f in fx.functions:
        if f["kind"] == "pattern":
            continue
        hit_fn = [i for i, r in enumerate(comp) if r[0].search(f["qn"])]
        if not hit_fn:
            continue
        fn = ctx.fn(f)
        sites = [(fn.loc(pos), e) for pos, e in fn.events(lambda e: e["k"] == "atomic", reachable_only=False)]
        sites += passed_down(ctx, fx, f, fn)
        for loc_, e in sites:
            fq, path = obj_fq(fn, e)
            row = None
            for i in hit_fn:
                r = comp[i]
                if e["kind"] not in r[2]:
                    continue
                sel = r[1]
                if sel.startswith("#"):
                    # the object is the function's parameter number k (whatever it is called)
                    k = int(sel[1:])
                    ps = f.get("params", [])
                    if k >= len(ps) or path != ps[k]["n"]:
                        continue
                elif sel.startswith("~"):
                    if not re.search(sel[1:], path):
                        continue
                elif sel.startswith("@"):
                    if fq is None or not re.search(sel[1:], fq):
                        continue
                else:
                    if fq != sel:
                        continue
                row = i
                break
            if row is None:
                unclassified.append("%s %s %s at %s" % (f["qn"], path, e["kind"], loc_))
                continue
            matched_rows.add(row)
            role = comp[row][3]
            okf, why = ROLE_OK[role]
            orders = [o.get("v", -1) for o in e["orders"]]
            order = orders[0] if orders else SEQ_CST
            ok = okf(order)
            n += 1
            ctx.ob(R_ROLE, f["qn"], ok,
                   "%s %s on %s requests %s; role %s: %s" % (e["kind"], e["aop"], path, NAMES.get(order, order), role, why),
                   loc_, "%s:%s" % (path.split("->")[-1].split(".")[-1].split("[")[0], e["kind"]),
                   nontrivial=role != "HINT", fnkey=f["key"])
    for i, r in enumerate(comp):
        if i not in matched_rows:
            ctx.broken("MO table row matched no site: %s / %s / %s" % (rows[i][0], rows[i][1], sorted(rows[i][2])))
    for u in unclassified[:30]:
        ctx.note("unclassified atomic site: " + u)
    if floor:
        ctx.floor(prefix + " classified atomic sites", n, floor)
    return n


def check_atomic_fields(ctx, fx, prefix, table):
    R = prefix + ".mo.atomic-field"
    ctx.rule(R, "every field that carries cross-thread synchronisation is a std::atomic (not plain, not volatile)")
    for rec, fld in table:
        rs = fx.records_qn(rec)
        if not rs:
            ctx.broken("record %s not found" % rec)
            continue
        for r in rs[:4]:
            ff = [x for x in r["fields"] if x["n"] == fld]
            if not ff:
                ctx.broken("field %s::%s not found" % (rec, fld))
                continue
            ctx.ob(R, rec, bool(ff[0].get("atomic")),
                   "%s::%s has type %s (not std::atomic)" % (rec, fld, ff[0]["ty"]),
                   "%s:%s" % (r["file"], ff[0].get("l")), fld)
