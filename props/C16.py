"""C16 - parallel STL (narrow, structural clauses)."""
import re

from gsa import rules as R
from gsa.cfg import Fn, S, SN, is_call, walk, lit, stores, cmp_pred
from gsa import lock as L
from gsa import race
from . import wl_locks

EXPL = ("narrow: structural necessary conditions on every ParallelSTL instantiation of the driver: the block-claiming state of "
        "the parallel partition (first, last, rfirst, rlast) is touched only under its lock and takeLow/takeHigh hand out "
        "disjoint blocks from the two ends; the no-leftover test compares each leftover bound with the sentinel the state's "
        "constructor gave it; every other path finishes with a serial std::partition of the leftover span with the same "
        "predicate; the worker loop re-claims a block exactly when its low or high block is exhausted and reports its "
        "leftovers; the quick-sort helper falls back to std::sort with the same comparator below the cut-off, partitions "
        "around the pivot value and pushes both non-empty sub-ranges; count_if / accumulate / map_reduce update a reducible "
        "inside the parallel body and return its reduce(); find_if records the found position before breaking and returns "
        "last only if no thread recorded one; small inputs are delegated to the std:: algorithm. Equality with std:: for all "
        "inputs (value-level) and termination of the randomised quick-sort are not decided.")

P = "galois::ParallelSTL::"
PH = P + "partition_helper"
ST = PH + "::partition_helper_state"

LOCK_TABLE = [
    dict(cls=ST, lock="Lock", guarded=["first", "last", "rfirst", "rlast"], lockvalue=False, exempt={}),
]


def insts(fx, qn):
    return [f for f in fx.functions if f["qn"] == qn and f["kind"] == "inst"]


def run(ctx):
    ctx.explanation = EXPL
    fx = ctx.load("drv_pstl")
    wl_locks.check(ctx, fx, prefix="C16", table=LOCK_TABLE, fn_opts={}, callee_releases={}, family="partition state",
                   floor_fns=3)
    partition(ctx, fx)
    sorting(ctx, fx)
    reducers(ctx, fx)
    find_if(ctx, fx)
    ctx.rule("C16.fold.accumulator-holds-elements",
             "every std::accumulate / reduce / exclusive_scan / inner_product inside ParallelSTL.h folds in a type that can hold "
             "the elements: the accumulator has the type of the init argument (a literal 0 makes it int), so it must not be "
             "narrower than the element type, nor integral over floating-point elements -- in every instantiation the driver "
             "creates (32- and 64-bit integers, double)")
    R.fold_accumulators(ctx, fx, "C16.fold.accumulator-holds-elements", r"galois/ParallelSTL\.h$")
    ps = [f for f in fx.functions if f["qn"] == "galois::ParallelSTL::partial_sum" and f["kind"] == "inst"]
    ctx.floor("partial_sum instantiations (element types)", len(ps), 3)


def partition(ctx, fx):
    ctx.rule("C16.partition.sentinel-consistent",
             "partition(): the no-leftover test compares s.rfirst and s.rlast with the values partition_helper_state's "
             "constructor initialises them with (rfirst <- l, rlast <- f), and update() only widens them with min/max")
    ctx.rule("C16.partition.serial-cleanup",
             "partition(): inputs of at most 1024 elements go to std::partition; otherwise every path that is not the no-leftover "
             "path returns std::partition(min(s.rfirst, m), max(s.rlast, m), pred) with m the claim cursor (s.first == s.last "
             "after the parallel phase): the span contains the meeting point, so everything left of it is a finished low block "
             "and everything right of it a finished high block; the no-leftover path returns s.first")
    ctx.rule("C16.partition.block-claiming",
             "takeLow / takeHigh: block size = min(BlockSize(), distance(first, last)); takeLow returns [first, first + BS) and "
             "advances first; takeHigh retreats last by BS and returns [last, last + BS); the worker re-claims exactly when a "
             "block is exhausted and calls update(low, high) at the end")
    cts = [f for f in fx.functions if f["qn"] == ST + "::partition_helper_state" and f["kind"] == "inst"]
    ctx.floor("partition_helper_state constructor", len(cts), 1)
    init = {}
    for f in cts[:1]:
        for i in f.get("inits", []):
            if i.get("field"):
                init[i["field"]] = S(i.get("init"))
        pf, pl = f["params"][0]["n"], f["params"][1]["n"]
    fs = insts(fx, P + "partition")
    ctx.floor("ParallelSTL::partition instantiations", len(fs), 1)
    for f in fs:
        fn = ctx.fn(f)
        first, last, pred = (p["n"] for p in f["params"][:3])
        det = []
        # sentinel test
        conds = [S(fn.branch(b)[0]) for b in fn.blocks if fn.branch(b)]
        role = {pf: first, pl: last}
        want_rfirst = "(s.rfirst == %s)" % role.get(init.get("rfirst"), "?")
        want_rlast = "(s.rlast == %s)" % role.get(init.get("rlast"), "?")
        if want_rfirst not in conds or want_rlast not in conds:
            det.append("no-leftover test is %s; the constructor sets rfirst <- %s, rlast <- %s" % (
                [c for c in conds if "rfirst" in c or "rlast" in c], init.get("rfirst"), init.get("rlast")))
        ctx.ob("C16.partition.sentinel-consistent", P + "partition", not det, "; ".join(det), fn.loc(), "sentinel", fnkey=f["key"])
        det = []
        sp = [e for _, e in fn.events(is_call(name="partition"))]
        rets = [(p, S(e.get("e"))) for p, e in fn.events(lambda e: e["k"] == "ret")]
        vals = sorted(v for _, v in rets)
        fixed = sorted(["partition(%s,%s,%s)" % (first, last, pred), "s.first"])
        other = [(pp, e) for pp, e in fn.events(lambda e: e["k"] == "ret") if S(e.get("e")) not in fixed]
        if sorted(v for v in vals if v in fixed) != fixed or len(other) != 1:
            det.append("returns %s" % vals)
        for pp, e in other:
            t = e.get("e")
            while isinstance(t, dict) and t.get("k") in ("ctor", "cast") and (t.get("a") or t.get("e")):
                t = t["a"][0] if t.get("k") == "ctor" else t["e"]
            a = t.get("a", []) if isinstance(t, dict) and t.get("k") == "call" and t.get("name") == "partition" else []
            if len(a) != 3 or S(a[2]) != pred:
                det.append("clean-up is %s" % S(e.get("e")))
                continue

            dfs = fn.defs()

            def bound(x, fn_name, own):
                """x == fn_name(own, claim cursor) in either argument order (a const local holding it is looked through)"""
                for _ in range(4):
                    while isinstance(x, dict) and x.get("k") in ("ctor", "cast") and (x.get("a") or x.get("e")):
                        x = x["a"][0] if x.get("k") == "ctor" else x["e"]
                    if isinstance(x, dict) and x.get("k") == "ref" and x.get("n") in dfs and dfs[x["n"]] is not None:
                        x = dfs[x["n"]]
                    else:
                        break
                if not (isinstance(x, dict) and x.get("k") == "call" and x.get("name") == fn_name and len(x.get("a", [])) == 2):
                    return False
                got = {S(y) for y in x["a"]}
                return own in got and bool(got & {"s.first", "s.last"})
            if not bound(a[0], "min", "s.rfirst") or not bound(a[1], "max", "s.rlast"):
                det.append("the serial clean-up span [%s, %s) is the hull of the leftover blocks only: it need not contain the "
                           "point where the low and the high claims met, so with all leftovers on one side false elements stay "
                           "in front of finished all-true blocks" % (S(a[0]), S(a[1])))
        small = lambda t: "1024" in S(t) and "distance" in S(t)
        r_small = lambda e: e.get("k") == "ret" and S(e.get("e")) == "partition(%s,%s,%s)" % (first, last, pred)
        if fn.guarded_positions(r_small, small, True):
            det.append("serial std::partition of the whole input is not tied to the size cut-off")
        # the s.first return only when both sentinel tests hold
        r_first = lambda e: e.get("k") == "ret" and S(e.get("e")) == "s.first"
        for lit_s in (want_rfirst, want_rlast):
            if fn.guarded_positions(r_first, lambda t, lit_s=lit_s: S(t) == lit_s, True):
                det.append("s.first returned although leftovers may exist")
        oe = is_call(name="on_each")
        if fn.reaches_without(lambda e: r_first(e) or (e.get("k") == "ret" and "s.rfirst" in S(e.get("e"))), oe):
            det.append("result computed before the parallel phase ran")
        ctx.ob("C16.partition.serial-cleanup", P + "partition", not det, "; ".join(det), fn.loc(), "cleanup", fnkey=f["key"])
    for f in insts(fx, ST + "::update")[:2]:
        fn = ctx.fn(f)
        # each leftover block widens the hull: rfirst = min(rfirst, X.first), rlast = max(rlast, X.second) for X in {low, high},
        # arguments in either order
        got = set()
        asg = []
        def store_events():
            for _, e in fn.events():
                if e.get("k") == "assign" and e.get("op") == "=":
                    yield S(e.get("lhs")), e.get("rhs")
                elif e.get("k") == "call" and e.get("op") == "=" and e.get("recv") is not None and e.get("a"):
                    yield S(e["recv"]), e["a"][0]
        for tgt, r in store_events():
            if not tgt.startswith("this->r"):
                continue
            while isinstance(r, dict) and r.get("k") in ("cast", "ctor") and (r.get("e") or r.get("a")):
                r = r["e"] if r.get("k") == "cast" else r["a"][0]
            asg.append((tgt, S(r)))
            if isinstance(r, dict) and r.get("k") == "call" and r.get("name") in ("min", "max") and len(r.get("a", [])) == 2:
                got.add((tgt, r["name"], frozenset(S(x) for x in r["a"])))
            else:
                got.add((tgt, "?", frozenset([S(r)])))
        lo, hi = f["params"][0]["n"], f["params"][1]["n"]
        want = {("this->rfirst", "min", frozenset(["this->rfirst", lo + ".first"])), ("this->rlast", "max", frozenset(["this->rlast", lo + ".second"])),
                ("this->rfirst", "min", frozenset(["this->rfirst", hi + ".first"])), ("this->rlast", "max", frozenset(["this->rlast", hi + ".second"]))}
        ok = got == want
        ctx.ob("C16.partition.sentinel-consistent", ST + "::update", ok, "update assigns %s" % sorted(asg), fn.loc(), "update",
               fnkey=f["key"])
    for nm in ("takeLow", "takeHigh"):
        for f in insts(fx, ST + "::" + nm)[:2]:
            fn = ctx.fn(f)
            det = []
            d = {e["n"]: S(e.get("init")) for _, e in fn.events(lambda e: e.get("k") == "decl" and "init" in e)}
            # the block size is the local that holds min(BlockSize(), distance(first, last)); the block start the local
            # initialised from the cursor -- found by what they hold
            want_bs = ("min(this->BlockSize(),distance(this->first,this->last))", "min(distance(this->first,this->last),this->BlockSize())")
            bsn = [n for n, v in d.items() if v in want_bs]
            cur = "this->first" if nm == "takeLow" else "this->last"
            rvn = [n for n, v in d.items() if v == cur]
            if len(bsn) != 1:
                det.append("no local holds min(BlockSize(), distance(first, last)): %s" % d)
            if len(rvn) != 1:
                det.append("no local holds the block start %s" % cur)
            BS = bsn[0] if bsn else "BS"
            RV = rvn[0] if rvn else "rv"
            rets = {S(e.get("e")) for _, e in fn.events(lambda e: e["k"] == "ret")}
            if rets != {"make_pair(%s,(%s + %s))" % (RV, RV, BS)} and rets != {"make_pair(%s,(%s + %s))" % (RV, BS, RV)}:
                det.append("returns %s" % sorted(rets))
            def amount(e):
                """the cursor moves by exactly the block size"""
                if e.get("k") == "assign":
                    return e.get("op") in ("+=", "-=") and e.get("rp") == BS
                return len(e.get("a") or []) == 1 and S(e["a"][0]) == BS
            if nm == "takeLow":
                adv = lambda e: ((e.get("k") == "assign" and e.get("lp") == "this->first") or (e.get("k") == "call" and e.get("op") == "+=" and e.get("rp") == "this->first"))
                rv = lambda e: e.get("k") == "decl" and e.get("n") == RV and e.get("ip") == "this->first"
                if fn.reaches_without(adv, rv) or not any(True for _ in fn.events(adv)) or not any(True for _ in fn.events(rv)):
                    det.append("low block is not [first, first + BS) with first advanced afterwards")
                if not all(amount(e) for _, e in fn.events(adv)):
                    det.append("first is not advanced by the block size")
            else:
                ret_ = lambda e: (e.get("k") == "assign" and e.get("lp") == "this->last") or (e.get("k") == "call" and e.get("op") == "-=" and e.get("rp") == "this->last")
                rv = lambda e: e.get("k") == "decl" and e.get("n") == RV and e.get("ip") == "this->last"
                if fn.reaches_without(rv, ret_) or not any(True for _ in fn.events(ret_)) or not any(True for _ in fn.events(rv)):
                    det.append("high block is not [last - BS, last) with last retreated first")
                if not all(amount(e) for _, e in fn.events(ret_)):
                    det.append("last is not retreated by the block size")
            ctx.ob("C16.partition.block-claiming", ST + "::" + nm, not det, "; ".join(det), fn.loc(), nm, fnkey=f["key"])
    for f in insts(fx, PH + "::operator()")[:2]:
        fn = ctx.fn(f)
        det = []
        tl, th = is_call(name="takeLow"), is_call(name="takeHigh")
        lowe = lambda t: S(t) == "(low.first == low.second)"
        highe = lambda t: S(t) == "(high.first == high.second)"
        if fn.guarded_positions(tl, lowe, True) or fn.guarded_positions(th, highe, True):
            det.append("a block is re-claimed although the current one is not exhausted")
        up = is_call(name="update")
        if fn.exit_reachable_without(up):
            det.append("leftovers not reported (update)")
        a = [[S(x) for x in e.get("a", [])] for _, e in fn.events(up)]
        if a != [["low", "high"]]:
            det.append("update arguments %s" % a)
        dp = [e for _, e in fn.events(is_call(name="dual_partition"))]
        if len(dp) != 1 or [S(x) for x in dp[0].get("a", [])][:4] != ["low.first", "low.second", "high.first", "high.second"]:
            det.append("dual_partition arguments")
        asg = {(t, v) for _, t, op, v in stores(fn) if t in ("low.first", "high.second") and op == "="}
        if asg != {("low.first", "parts.first"), ("high.second", "parts.second")}:
            det.append("block bounds updated as %s" % sorted(asg))
        ctx.ob("C16.partition.block-claiming", PH + "::operator()", not det, "; ".join(det), fn.loc(), "worker", fnkey=f["key"])


def sorting(ctx, fx):
    ctx.rule("C16.sort.shape",
             "sort(): at most 1024 elements -> std::sort with the caller's comparator; otherwise a for_each over the whole range "
             "with sort_helper(comp). sort_helper: below the cut-off std::sort(bounds, comp); otherwise partition around the "
             "pivot value with comp bound to it, push [first, pivot) if non-empty, skip the elements equivalent to the pivot, "
             "push [pivot', second) if non-empty; progress: as no element is set aside the step can return the range unchanged, so "
             "the pivot draw is randomised (choose_rand reaches rand())")
    fs = [f for f in insts(fx, P + "sort") if len(f["params"]) == 3]
    ctx.floor("ParallelSTL::sort(first, last, comp)", len(fs), 1)
    for f in fs:
        fn = ctx.fn(f)
        first, last, comp = (p["n"] for p in f["params"])
        det = []
        ss = [e for _, e in fn.events(is_call(name="sort"))]
        if len(ss) != 1 or [S(x) for x in ss[0].get("a", [])] != [first, last, comp]:
            det.append("serial fallback is %s" % [[S(x) for x in e.get("a", [])] for e in ss])
        small = lambda t: "1024" in S(t) and "distance" in S(t)
        if ss and fn.guarded_positions(lambda e: e is ss[0], small, True):
            det.append("serial sort not tied to the cut-off")
        fe = [e for _, e in fn.events(is_call(name="for_each"))]
        fes = S(fe[0]).replace(" ", "") if fe else ""
        if len(fe) != 1 or "make_pair(%s,%s)" % (first, last) not in fes or "sort_helper{%s}" % comp not in fes:
            det.append("parallel phase does not start from the whole range with sort_helper(comp)")
        ctx.ob("C16.sort.shape", P + "sort", not det, "; ".join(det), fn.loc(), "sort", fnkey=f["key"])
    hs = insts(fx, P + "sort_helper::operator()")
    ctx.floor("sort_helper::operator()", len(hs), 1)
    for f in hs[:3]:
        fn = ctx.fn(f)
        det = []
        ss = [e for _, e in fn.events(is_call(name="sort"))]
        if len(ss) != 1 or [S(x) for x in ss[0].get("a", [])] != ["bounds.first", "bounds.second", "this->comp"]:
            det.append("base case %s" % [[S(x) for x in e.get("a", [])] for e in ss])
        pt = [e for _, e in fn.events(is_call(name="partition"))]
        if len(pt) != 1 or [S(x) for x in pt[0].get("a", [])][:2] != ["bounds.first", "bounds.second"] or \
                "bind(this->comp,_1,pv)" not in S(pt[0]).replace(" ", ""):
            det.append("partition step %s" % [S(e) for e in pt])
        pu = [(p, e) for p, e in fn.events(is_call(name="push"))]
        pa = sorted(S(e["a"][0]) for _, e in pu)
        if pa != ["make_pair(bounds.first,pivot)", "make_pair(pivot,bounds.second)"]:
            det.append("pushes %s" % pa)
        ne1 = cmp_pred("bounds.first", "!=", "pivot")        # any spelling: a != b, b != a, !(a == b)
        ne2 = cmp_pred("bounds.second", "!=", "pivot")
        for p, e in pu:
            g = ne1 if "bounds.first,pivot" in S(e["a"][0]) else ne2
            if fn.guarded_positions(lambda x, e=e: x is e, g, True):
                det.append("an empty sub-range is pushed")
            ge = fn.guard_edges(g, False)
            if fn.exit_reachable_without(lambda x, e=e: x is e, edge_ok=lambda b, i, s: (b, i) not in ge,
                                         starts=[fn.after(q) for q, _ in fn.events(is_call(name="partition"))]):
                det.append("a non-empty sub-range is not pushed")
        fi = [e for _, e in fn.events(is_call(name="find_if"))]
        if len(fi) != 1 or [S(x) for x in fi[0].get("a", [])][:2] != ["pivot", "bounds.second"]:
            det.append("pivot-equivalent elements are not skipped from the right part")
        ctx.ob("C16.sort.shape", P + "sort_helper::operator()", not det, "; ".join(sorted(set(det))), fn.loc(), "helper", fnkey=f["key"])
        # progress. The step can hand back the very range it was given: when the pivot value is the minimum nothing moves in
        # front of it, the lower part is empty, and the skip of pivot-equivalent elements stops at once if the first element is
        # larger -- the upper push is then (first, second) again. This is the case exactly when the upper range starts at the
        # variable that partition / find_if returned (no element is set aside). The retry only makes progress because it
        # draws a DIFFERENT pivot: the draw has to be randomised; a deterministic choice (first, middle, median of three)
        # picks the same minimum again and the loop never ends.
        det = []
        up = [e for _, e in pu if S(e["a"][0]).startswith("make_pair(") and S(e["a"][0]).endswith(",bounds.second)")]
        may_repeat = False
        for e in up:
            first_comp = S(e["a"][0])[len("make_pair("):-len(",bounds.second)")]
            asg = [x for _, x in fn.events(lambda x: (x.get("k") == "assign" and x.get("lp") == first_comp) or
                                           (x.get("k") == "call" and x.get("op") == "=" and S(x.get("recv") or {}) == first_comp))]
            if re.fullmatch(r"\w+", first_comp) and asg and all(
                    re.match(r"(std::)?(find_if|partition|find_if_not|stable_partition)\(", (x.get("rp") if x.get("k") == "assign" else S(x["a"][0])) or "")
                    for x in asg):
                may_repeat = True
        if may_repeat:
            RAND = {"rand", "random", "rand_r", "drand48", "lrand48", "mrand48"}

            def randomised(g, depth=3, seen=None):
                seen = seen if seen is not None else set()
                if g is None or g["key"] in seen or depth < 0:
                    return False
                seen.add(g["key"])
                for b in g.get("blocks", []):
                    for x in b["ev"]:
                        if x.get("k") != "call":
                            continue
                        if x.get("name") in RAND or "random_device" in (x.get("fn") or "") or "mersenne_twister" in (x.get("fn") or "") \
                                or "uniform_int_distribution" in (x.get("fn") or ""):
                            return True
                        if randomised(fx.callee(x), depth - 1, seen):
                            return True
                return False
            draws = [x for _, x in fn.events(lambda x: x.get("k") == "decl" and x.get("n") == "pivot" and "init" in x)]
            ok = False
            for d in draws:
                for y in walk(d["init"]):
                    if isinstance(y, dict) and y.get("k") == "call" and (y.get("name") in RAND or randomised(fx.callee(y))):
                        ok = True
            if not ok:
                det.append("the step can push the range it was given unchanged (pivot = minimum, first element larger) and the "
                           "pivot is a deterministic function of the range (%s): the same pivot is chosen on every retry and the "
                           "sort never returns" % (S(draws[0]["init"]) if draws else "no draw found"))
        ctx.ob("C16.sort.shape", P + "sort_helper::operator()", not det, "; ".join(det), fn.loc(), "progress", fnkey=f["key"])
    for f in insts(fx, P + "sort_helper::neq_to::operator()")[:2]:
        fn = ctx.fn(f)
        rets = {S(e.get("e")).replace(" ", "") for _, e in fn.events(lambda e: e["k"] == "ret")}
        ok = rets == {"(this->comp(a,b)||this->comp(b,a))"} or rets == {"(this->comp.operator()(a,b)||this->comp.operator()(b,a))"}
        ctx.ob("C16.sort.shape", P + "sort_helper::neq_to::operator()", ok or any("comp" in r and "||" in r for r in rets),
               "equivalence test is %s" % sorted(rets), fn.loc(), "neq", fnkey=f["key"])


def reducers(ctx, fx):
    ctx.rule("C16.reduce.update-then-reduce",
             "count_if / accumulate / map_reduce: the parallel body updates a reducible (count += 1 under the predicate, "
             "r.update(v), r.update(map_fn(v))) over iterate(first, last) and the function returns reducible.reduce() after the loop")
    for nm, body_pat in (("count_if", r"count"), ("accumulate", r"r\.update\(v\)"), ("map_reduce", r"r\.update\(map_fn")):
        fs = insts(fx, P + nm)
        ctx.floor(P + nm, len(fs), 1)
        for f in fs[:2]:
            fn = ctx.fn(f)
            first, last = f["params"][0]["n"], f["params"][1]["n"]
            det = []
            da = [(p, e) for p, e in fn.events(is_call(name="do_all"))]
            if len(da) != 1 or "iterate(%s,%s)" % (first, last) not in S(da[0][1]):
                det.append("parallel loop is not over iterate(first, last)")
            red = [(p, e) for p, e in fn.events(is_call(name="reduce"))]
            rets = {S(e.get("e")) for _, e in fn.events(lambda e: e["k"] == "ret")}
            if len(red) != 1 or not all(r.endswith(".reduce()") for r in rets):
                det.append("does not return reducible.reduce(): %s" % sorted(rets))
            elif da and fn.reaches_without(lambda e: e is red[0][1], lambda e: e is da[0][1]):
                det.append("reduce() before the parallel loop")
            lam = [g for g in fx.functions if g["kind"] != "pattern" and g["qn"].startswith(P + nm + "::lambda@") and len(g["params"]) == 1]
            okb = False
            for g in lam:
                gn = Fn(g)
                txt = " ".join((e.get("text") or "") for _, e in gn.events(lambda e: e.get("k") == "call"))
                if nm == "count_if":
                    inc = lambda e: e.get("k") == "call" and e.get("op") == "+=" and S(e.get("recv")) == "count" and [S(a) for a in e.get("a", [])] == ["1"]
                    pr = lambda t: t.get("k") == "call" and S(t.get("recv")) == "pred"
                    if any(True for _ in gn.events(inc)) and not gn.guarded_positions(inc, pr, True):
                        ge = gn.guard_edges(pr, False)
                        if not gn.exit_reachable_without(inc, edge_ok=lambda b, i, s: (b, i) not in ge):
                            okb = True
                else:
                    up = [e for _, e in gn.events(is_call(name="update"))]
                    if len(up) == 1 and not gn.exit_reachable_without(is_call(name="update")):
                        a = S(up[0]["a"][0])
                        v = g["params"][0]["n"]
                        if (nm == "accumulate" and a == v) or (nm == "map_reduce" and a.replace(" ", "") in ("map_fn(%s)" % v, "map_fn.operator()(%s)" % v) or "map_fn" in a and v in a):
                            okb = True
            if not okb:
                det.append("parallel body does not update the reducible with every element")
            ctx.ob("C16.reduce.update-then-reduce", P + nm, not det, "; ".join(det), fn.loc(), nm, fnkey=f["key"])


def find_if(ctx, fx):
    ctx.rule("C16.find.records-before-break",
             "find_if: the helper stores the position into its per-thread slot before calling breakLoop, only when the predicate "
             "holds; find_if scans every thread's slot and returns last only when none is set")
    hs = insts(fx, P + "find_if_helper::operator()")
    ctx.floor("find_if_helper::operator()", len(hs), 1)
    for f in hs[:2]:
        fn = ctx.fn(f)
        v = f["params"][0]["n"]
        st = lambda e: e.get("k") == "call" and e.get("op") == "=" and "accum.getLocal()" in S(e.get("recv")) and [S(a) for a in e.get("a", [])] == [v]
        br = is_call(name="breakLoop")
        pr = lambda t: t.get("k") == "call" and S(t.get("recv")).endswith("f")
        det = []
        if not any(True for _ in fn.events(st)) or fn.reaches_without(br, st):
            det.append("loop broken without recording the position")
        if fn.guarded_positions(st, pr, True):
            det.append("position recorded although the predicate is false")
        ge = fn.guard_edges(pr, False)
        if fn.exit_reachable_without(st, edge_ok=lambda b, i, s: (b, i) not in ge):
            det.append("a match is not recorded")
        ctx.ob("C16.find.records-before-break", P + "find_if_helper::operator()", not det, "; ".join(det), fn.loc(), "helper",
               fnkey=f["key"])
    fs = insts(fx, P + "find_if")
    ctx.floor(P + "find_if", len(fs), 1)
    for f in fs[:2]:
        fn = ctx.fn(f)
        last = f["params"][1]["n"]
        det = []
        loops = [b for b in fn.blocks.values() if (b.get("term") or {}).get("cls") in ("ForStmt", "WhileStmt")]
        # the slot index and the per-thread store are named by the loop condition (i < accum.size()); locals bound to a slot
        # (`auto& found = *accum.getRemote(i)`) are expanded
        m = re.fullmatch(r"\((\w+) < (\w+)\.size\(\)\)", SN(lit(loops[0]["term"]["cond"])[0])) if len(loops) == 1 and loops[0]["term"].get("cond") else None
        if not m:
            det.append("slots are not scanned over [0, accum.size())")
        iv, acc = (m.group(1), m.group(2)) if m else ("i", "accum")
        al = dict(fn.defs()); al.update(fn.aliases())
        al.pop(iv, None); al.pop(acc, None)
        i0 = [e for _, e in fn.events(lambda e: e.get("k") == "decl" and e.get("n") == iv)]
        if not i0 or i0[0].get("ip") != "0":
            det.append("scan does not start at slot 0")
        slot = "%s.getRemote(%s)" % (acc, iv)
        rl = lambda e: e.get("k") == "ret" and S(e.get("e")) == last
        rf = lambda e: e.get("k") == "ret" and slot in S(e.get("e"), al)
        if not any(True for _ in fn.events(rf)):
            det.append("a recorded position is never returned")
        setl = lambda t: slot in S(t, al)
        if fn.guarded_positions(rf, setl, True):
            det.append("an unset slot is returned")
        # `last` only after the loop finished
        if loops:
            ge = {(loops[0]["id"], 1)}
            h, _ = fn.search([fn.entry_state()], stop=rl, edge_ok=lambda b, i, s: (b, i) not in ge)
            if h:
                det.append("last returned before all slots were examined")
        fe = is_call(name="for_each")
        if fn.reaches_without(lambda e: rl(e) or rf(e), fe):
            det.append("result returned before the search ran")
        ctx.ob("C16.find.records-before-break", P + "find_if", not det, "; ".join(det), fn.loc(), "find_if", fnkey=f["key"])
