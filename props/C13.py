"""C13 - work division (structural clauses).

Lemma (paper): if per = max(ceil(d/p), c) with c >= 0, begin(i) = min(per*i, d) and end(i) = begin(i+1), then for p >= 1
the pieces [begin(i), end(i)), 0 <= i < p, are ordered, pairwise disjoint and cover [0, d) whenever per*p does not
overflow (begin is monotone, begin(0) = 0, begin(p) = d because per*p >= d). The rules check the shape that makes the
lemma applicable; for the prefix-sum division the same boundary identity is checked on the block indices and on the
two binary searches.
"""
import re
import itertools

from gsa.cfg import Fn, S, SN, canon, is_call, walk, lit
from gsa import rules as R
from gsa.layout import Interp, Poly

EXPL = ("Division routines (block_range for iterators and integers, LocalIteratorFeature<false>, ParallelSTL::partial_sum "
        "blocks, FileGraph::divideByEdge, divideNodesBinarySearch, findIndexPrefixSum / FileGraph::findIndex, "
        "determine_block_division, the unit-range routines), every instantiation found: the piece size is the ceil-div "
        "idiom over (size, parts); the upper bound is the lower bound with the part index advanced by one and both are "
        "clamped by the same min(size); the block bounds of the weighted division satisfy blockLower(id) = "
        "blockUpper(id-1) and the two binary searches agree on every argument except target and lower bound, the second "
        "starting where the first ended; the searches have the lower-bound shape with a monotone predicate; the scale "
        "factors are turned into a prefix sum whose total is returned; every boundary stored into a range vector is an "
        "absolute node id (units-of-measure ABS/REL), an empty part copies the previous boundary. By the lemma in this "
        "file the pieces are then ordered, disjoint and cover the input. Overflow at the extremes and zero-weight corner "
        "cases inside the search are not decided.")


def insts(fx, qn, anykind=False):
    return [f for f in fx.functions if f["qn"] == qn and (f["kind"] == "inst" or (anykind and f["kind"] == "plain"))]


def subst(s, var, repl):
    return re.sub(r"\b%s\b" % re.escape(var), repl, s)


def local_inits(fn):
    out = {}
    for _, e in fn.events():
        if e["k"] == "decl" and "init" in e:
            out.setdefault(e["n"], []).append(e["init"])
    return out


def is_ceildiv(s, d, p):
    """((d + p) - 1) / p, optionally inside max(.., 1)"""
    core = r"\(\(\(%s \+ %s\) - 1\) / %s\)" % (re.escape(d), re.escape(p), re.escape(p))
    return bool(re.fullmatch(core, s) or re.fullmatch(r"max\(%s,1\)" % core, s))


def run(ctx):
    ctx.explanation = EXPL
    fx = ctx.load("src", "drv_divide")
    ceil_blocks(ctx, fx)
    binary_search(ctx, fx)
    weighted(ctx, fx)
    specific_range(ctx, fx)
    block_division(ctx, fx)
    unit_ranges(ctx, fx)
    outidx_kind(ctx, fx)


FOUND = {}


def ceil_blocks(ctx, fx):
    ctx.rule("C13.block.boundary-identity",
             "block division: per = ceil-div(size, parts) [max(., 1) allowed]; lower = min(per * id, size); upper = "
             "min(per * (id + 1), size), i.e. upper == lower[id := id + 1], same clamp")
    table = [
        # qn, per var, lower var, upper var, id var, size var, parts var
        ("galois::block_range", "numper", "A", "B", "id", "dist", "num"),
        ("galois::FileGraph::divideByEdge".replace("galois::FileGraph", "galois::graphs::FileGraph"), "block", "aa", "ea", "id", "size", "total"),
    ]
    for qn, per, lo, hi, idv, size, parts in table:
        fs = [f for f in fx.functions if f["qn"] == qn and f["kind"] != "pattern"]
        ctx.floor(qn + " instantiations", len(fs), 1)
        for f in fs:
            fn = ctx.fn(f)
            li = local_inits(fn)
            det = []
            # Locals are found by shape, not by name; expressions are compared as polynomials, so commuted operands and
            # renamed locals are the same thing. Parameters `id` / parts are API names and come from the table.
            alias = {}
            for n, v in li.items():
                if len(v) == 1 and isinstance(v[0], dict):
                    t = v[0]
                    while t.get("k") == "cast":
                        t = t["e"]
                    if t.get("k") in ("ref", "mem"):
                        alias[n] = S(t)          # size = numEdges: a plain copy

            def poly(t):
                if not isinstance(t, dict):
                    return None
                k = t.get("k")
                if k == "int":
                    return Poly.const(t["v"])
                if k == "cast":
                    return poly(t["e"])
                if k in ("ref", "mem"):
                    n = S(t)
                    return Poly.sym(alias.get(n, n))
                if k == "bin" and t["op"] in ("+", "-", "*"):
                    x, y = poly(t["l"]), poly(t["r"])
                    if x is None or y is None:
                        return None
                    return x + y if t["op"] == "+" else x - y if t["op"] == "-" else x * y
                return None

            def strip(t):
                while isinstance(t, dict) and t.get("k") in ("cast",):
                    t = t["e"]
                return t
            mins, ceil = {}, {}
            for n, v in li.items():
                if len(v) != 1:
                    continue
                t = strip(v[0])
                if isinstance(t, dict) and t.get("k") == "call" and t.get("name") == "min" and len(t.get("a", [])) == 2:
                    ps = [poly(x) for x in t["a"]]
                    if None not in ps:
                        mins[n] = ps
                inner = t
                if isinstance(t, dict) and t.get("k") == "call" and t.get("name") == "max" and len(t.get("a", [])) == 2:
                    others = [x for x in t["a"] if poly(x) != Poly.const(1)]
                    if len(others) == 1:
                        inner = strip(others[0])
                if isinstance(inner, dict) and inner.get("k") == "bin" and inner.get("op") == "/":
                    num, den = poly(inner["l"]), poly(inner["r"])
                    if num is not None and den is not None:
                        ceil[n] = (num, den)
            pid = Poly.sym(idv)
            pparts = Poly.sym(parts)
            pers = [n for n, (num, den) in ceil.items() if den == pparts and (num - den + Poly.const(1)).t and
                    len((num - den + Poly.const(1)).t) == 1 and list((num - den + Poly.const(1)).t.values()) == [1]]
            if len(pers) != 1:
                det.append("no piece size of the form ceil(size / %s) (candidates %s)" % (parts, sorted(ceil)))
            elif len(mins) != 2:
                det.append("expected two clamped bounds min(., size), found %s" % sorted(mins))
            else:
                pn = pers[0]
                pper = Poly.sym(pn)
                psize = ceil[pn][0] - pparts + Poly.const(1)       # the dividend of the ceil-div is the size
                lows = [n for n, ps in mins.items() if pper * pid in ps]
                ups = [n for n, ps in mins.items() if pper * pid + pper in ps]
                if len(lows) != 1 or len(ups) != 1 or lows == ups:
                    det.append("bounds %s are not min(%s * %s, size) and min(%s * (%s + 1), size)" % (
                        {n: [repr(x) for x in ps] for n, ps in mins.items()}, pn, idv, pn, idv))
                else:
                    FOUND[f["key"]] = (lows[0], ups[0], repr(psize))
                    for n in (lows[0], ups[0]):
                        other = [x for x in mins[n] if x not in (pper * pid, pper * pid + pper)]
                        if other != [psize]:
                            det.append("%s is clamped by %s, the divided size is %s" % (n, [repr(x) for x in other], psize))
            ctx.ob("C13.block.boundary-identity", qn, not det, "; ".join(det), fn.loc(), "bounds/%s" % (f["params"][0]["ty"][:20]),
                   fnkey=f["key"])
    # block_range: the returned pair is (b + A, b + A + (B - A)) / e kept when B == dist
    for f in [g for g in fx.functions if g["qn"] == "galois::block_range" and g["kind"] != "pattern"]:
        fn = ctx.fn(f)
        det = []
        adv = [e for _, e in fn.events(lambda e: (e.get("k") == "call" and e.get("name") == "advance") or
                                        (e.get("k") == "assign" and e.get("op") == "+=" and e.get("lp") in ("b", "e")))]
        txt = [S(e) if e["k"] == "call" else "%s += %s" % (e["lp"], e.get("rp")) for e in adv]
        A, B, SZ = FOUND.get(f["key"], ("A", "B", "dist"))
        want1 = {"advance(b,%s)" % A, "advance(e,(%s - %s))" % (B, A)}
        want2 = {"b += %s" % A, "e += (%s - %s)" % (B, A)}
        if set(txt) != want1 and set(txt) != want2 and set(txt) != {"b += %s" % A, "e += %s - %s" % (B, A)}:
            det.append("range is not [b + %s, b + %s + (%s - %s)): %s" % (A, A, B, A, txt))
        # e restarts from b on the path where the block does not reach the end
        eb = [e for _, e in fn.events(lambda e: (e.get("k") == "assign" and e.get("lp") == "e" and e.get("rp") == "b") or
                                       (e.get("k") == "call" and e.get("op") == "=" and S(e.get("recv")) == "e" and [S(a) for a in e.get("a", [])] == ["b"]))]
        if len(eb) != 1:
            det.append("upper iterator does not restart from the advanced lower iterator")
        cond = [S(fn.branch(b)[0]) for b in fn.blocks if fn.branch(b)]
        if "(%s != %s)" % (SZ, B) not in cond and "(%s != %s)" % (B, SZ) not in cond:
            det.append("no test whether the block reaches the end: %s" % cond)
        ctx.ob("C13.block.boundary-identity", "galois::block_range", not det, "; ".join(det), fn.loc(), "pair/%s" % (f["params"][0]["ty"][:20]),
               fnkey=f["key"])
    # LocalIteratorFeature<false>
    LF = "galois::graphs::internal::LocalIteratorFeature"
    lb = [f for f in fx.functions if f["qn"] == LF + "::localBegin" and f["kind"] != "pattern" and "<false>" in f["key"]]
    le = [f for f in fx.functions if f["qn"] == LF + "::localEnd" and f["kind"] != "pattern" and "<false>" in f["key"]]
    ctx.floor("LocalIteratorFeature<false>::localBegin/localEnd", min(len(lb), len(le)), 1)
    if lb and le:
        fb, fe = ctx.fn(lb[0]), ctx.fn(le[0])
        n = lb[0]["params"][0]["n"]
        ib, ie = local_inits(fb), local_inits(fe)
        sb = S(ib.get("begin", [None])[0]) if ib.get("begin") else None
        se = S(ie.get("end", [None])[0]) if ie.get("end") else None
        det = []
        want = "((((%s + num) - 1) / num) * id)" % n
        if sb != want:
            det.append("begin = %s" % sb)
        if se != subst(want, "id", "(id + 1)"):
            det.append("end = %s is not begin with id advanced by one" % se)
        rb = {S(e.get("e")) for _, e in fb.events(lambda e: e["k"] == "ret")}
        re_ = {S(e.get("e")) for _, e in fe.events(lambda e: e["k"] == "ret")}
        if rb != {"min(begin,%s)" % n} or re_ != {"min(end,%s)" % n}:
            det.append("clamps: %s / %s" % (sorted(rb), sorted(re_)))
        for fn in (fb, fe):
            i = local_inits(fn)
            if S(i.get("id", [None])[0]) != "getTID()" or S(i.get("num", [None])[0]) != "getActiveThreads()":
                det.append("id/num are not (getTID(), getActiveThreads())")
        ctx.ob("C13.block.boundary-identity", LF + "::localBegin", not det, "; ".join(sorted(set(det))), fb.loc(), "local",
               fnkey=lb[0]["key"])
    # partial_sum lambdas
    ls = [f for f in fx.functions if "ParallelSTL::partial_sum::lambda@" in f["qn"] and f["kind"] != "pattern" and
          len(f["params"]) == 1 and "block" == f["params"][0]["n"]]
    ctx.floor("partial_sum block bodies", len(ls), 2)
    for f in ls:
        fn = ctx.fn(f)
        li = local_inits(fn)
        sb = S(li["blockStart"][0]) if li.get("blockStart") else None
        se = S(li["blockEnd"][0]) if li.get("blockEnd") else None
        det = []
        if sb != "min((block * blockSize),sizeOfVector)":
            det.append("blockStart = %s" % sb)
        if sb is None or se != subst(sb, "block", "(block + 1)"):
            det.append("blockEnd = %s is not blockStart with block advanced by one" % se)
        ctx.ob("C13.block.boundary-identity", "galois::ParallelSTL::partial_sum", not det, "; ".join(det), fn.loc(),
               "L%s" % f["line"], fnkey=f["key"])
    for f in [g for g in fx.functions if g["qn"] == "galois::ParallelSTL::partial_sum" and g["kind"] == "inst"]:
        fn = ctx.fn(f)
        li = local_inits(fn)
        sp = S(li["blockSize"][0]) if li.get("blockSize") else None
        ok = sp is not None and is_ceildiv(sp, "sizeOfVector", "numBlocks")
        ctx.ob("C13.block.boundary-identity", "galois::ParallelSTL::partial_sum", ok, "blockSize = %s is not ceil-div" % sp,
               fn.loc(), "blockSize", fnkey=f["key"])


def tpoly(t, alias=None):
    """expression tree -> polynomial over the names it mentions (None when it is not +,-,* of names and integers)"""
    alias = alias or {}
    if not isinstance(t, dict):
        return None
    k = t.get("k")
    if k == "int":
        return Poly.const(t["v"])
    if k in ("cast", "paren"):
        return tpoly(t["e"], alias)
    if k in ("ref", "mem"):
        n = S(t)
        return Poly.sym(alias.get(n, n))
    if k == "bin" and t["op"] in ("+", "-", "*"):
        x, y = tpoly(t["l"], alias), tpoly(t["r"], alias)
        if x is None or y is None:
            return None
        return x + y if t["op"] == "+" else x - y if t["op"] == "-" else x * y
    return None


SEARCH = {}          # function key -> names found by shape (lb, ub, mid, weight, target, prefix)


def search_shape(fn, f):
    """Lower-bound search recognised by what the code does, not by what its locals are called. Returns (names, problems)."""
    det = []
    nm = {}
    sc = lambda t: t
    def unc(t):
        while isinstance(t, dict) and t.get("k") in ("cast", "paren"):
            t = t["e"]
        return t
    loops = [b for b in fn.blocks.values() if (b.get("term") or {}).get("cls") in ("WhileStmt", "ForStmt") and b["term"].get("cond")]
    lu = None
    for b in loops:
        c = canon(lit(b["term"]["cond"])[0])
        c = unc(c)
        if isinstance(c, dict) and c.get("k") == "bin" and c.get("op") == "<" and unc(c["l"]).get("k") == "ref" and unc(c["r"]).get("k") == "ref":
            lu = (unc(c["l"])["n"], unc(c["r"])["n"])
    if len(loops) != 1 or lu is None:
        return None, ["loop is not while (lower < upper)"]
    L, U = lu
    nm["lb"], nm["ub"] = L, U
    # updates: lower = mid + 1, upper = mid
    M = None
    for _, e in fn.events(lambda e: e.get("k") == "assign" and e.get("lp") in (L, U)):
        r = unc(e.get("rhs"))
        if e["lp"] == U:
            if e.get("op") == "=" and isinstance(r, dict) and r.get("k") == "ref" and M in (None, r["n"]):
                M = r["n"]
            else:
                det.append("upper bound updated by %s %s" % (e.get("op"), e.get("rp")))
    if M is None:
        return None, det + ["upper bound is never set to the probe"]
    nm["mid"] = M
    nL = 0
    for _, e in fn.events(lambda e: e.get("k") == "assign" and e.get("lp") == L):
        nL += 1
        pl = tpoly(e.get("rhs"))
        if e.get("op") != "=" or pl is None or pl != Poly.sym(M) + Poly.const(1):
            det.append("lower bound updated by %s %s, expected probe + 1" % (e.get("op"), e.get("rp")))
    if not nL:
        det.append("lower bound never moves")
    li = local_inits(fn)
    mi = li.get(M) or []
    forms = ("(%s + ((%s - %s) / 2))" % (L, U, L), "(((%s - %s) / 2) + %s)" % (U, L, L), "(%s + ((%s - %s) >> 1))" % (L, U, L))
    if len(mi) != 1 or S(mi[0]) not in forms:
        det.append("probe = %s, expected lower + (upper - lower) / 2" % (S(mi[0]) if mi else None))
    # the comparison that steers the search: weight(probe) against the target parameter
    params = {p["n"] for p in f["params"]}
    W = T = None
    for bid in fn.blocks:
        br = fn.branch(bid)
        if not br:
            continue
        c = unc(canon(br[0]))
        if isinstance(c, dict) and c.get("k") == "bin" and c.get("op") in ("<", "<="):
            l, r = unc(c["l"]), unc(c["r"])
            if isinstance(l, dict) and isinstance(r, dict) and l.get("k") == "ref" and r.get("k") == "ref":
                for w, t in ((l["n"], r["n"]), (r["n"], l["n"])):
                    if t in params and w in li and w not in (L, U, M):
                        W, T = w, t
    if W is None:
        return nm, det + ["no comparison of a probed weight against a target parameter"]
    nm["weight"], nm["target"] = W, T
    lt = lambda t: SN(t) == "(%s < %s)" % (W, T)
    ge = lambda t: SN(t) == "(%s <= %s)" % (T, W)
    g_lt = fn.guard_edges(lt, True) | fn.guard_edges(ge, False)
    g_ge = fn.guard_edges(lt, False) | fn.guard_edges(ge, True)
    up_lb = lambda e: e.get("k") == "assign" and e.get("lp") == L
    up_ub = lambda e: e.get("k") == "assign" and e.get("lp") == U
    h1, _ = fn.search([fn.entry_state()], stop=up_lb, edge_ok=lambda b, i, s_: (b, i) not in g_lt)
    h2, _ = fn.search([fn.entry_state()], stop=up_ub, edge_ok=lambda b, i, s_: (b, i) not in g_ge)
    if h1 or h2:
        det.append("branch direction: lower bound must move when weight < target, upper bound otherwise")
    rets = {S(e.get("e")) for _, e in fn.events(lambda e: e["k"] == "ret")}
    if rets != {L}:
        det.append("returns %s" % sorted(rets))
    # weight is monotone in the probe: (edges before the probe) * edge weight + probe * node weight, both weights parameters
    declared = {e["n"] for _, e in fn.events(lambda e: e.get("k") == "decl")}
    wi = li.get(W) or []
    wp = tpoly(wi[0]) if len(wi) == 1 else None
    ok = False
    if wp is not None:
        mons = list(wp.t.items())
        if len(mons) == 2 and all(v == 1 and len(m) == 2 for m, v in mons):
            withM = [m for m, _ in mons if M in m]
            other = [m for m, _ in mons if M not in m]
            if len(withM) == 1 and len(other) == 1:
                y = [x for x in withM[0] if x != M]
                px = [x for x in other[0] if x in declared and x not in (L, U, M)]
                x = [x for x in other[0] if x in params]
                if len(y) == 1 and y[0] in params and len(px) == 1 and len(x) == 1 and x[0] != y[0]:
                    ok = True
                    nm["prefix"], nm["edge_w"], nm["node_w"] = px[0], x[0], y[0]
    if not ok:
        det.append("weight = %s, expected (edges before the probe) * edge weight + probe * node weight" % (S(wi[0]) if wi else None))
    return nm, det


def binary_search(ctx, fx):
    ctx.rule("C13.search.lower-bound-shape",
             "findIndexPrefixSum / FileGraph::findIndex: while (lb < ub) { mid = lb + (ub - lb) / 2; if (weight(mid) < target) "
             "lb = mid + 1; else ub = mid; } return lb -- the lower-bound search of a monotone predicate. The roles (bounds, "
             "probe, weight, target) are found by shape: loop condition, the assignments to the bounds, the comparison against "
             "a parameter; the weight is compared as a polynomial, the branch direction by guard edges under either spelling")
    fs = [f for f in fx.functions if f["qn"] in ("galois::graphs::internal::findIndexPrefixSum", "galois::graphs::FileGraph::findIndex")
          and f["kind"] != "pattern"]
    ctx.floor("binary search routines", len(fs), 2)
    for f in fs:
        fn = ctx.fn(f)
        nm, det = search_shape(fn, f)
        if nm:
            SEARCH[f["key"]] = nm
        ctx.ob("C13.search.lower-bound-shape", f["qn"], not det, "; ".join(det), fn.loc(), "search", fnkey=f["key"])


def specific_range(ctx, fx):
    ctx.rule("C13.specific.clip-is-intersection",
             "SpecificRange::block_pair (per-thread block clipped to the requested sub-range): the function only copies and "
             "compares four values -- the thread's block [lb, le) and the requested range [gb, ge) -- so it is interpreted "
             "abstractly over every total preorder of the four (with lb <= le, gb <= ge): on each one the returned pair is "
             "the intersection [max(lb, gb), min(le, ge)) when that is non-empty and an empty range (begin == end) otherwise. The unclipped "
             "fast path (its condition compares array contents, not these values) is only required to be exact where the "
             "block lies inside the requested range, which is what its condition establishes when the thread ranges partition "
             "the whole range")
    fs = [f for f in fx.functions if f["qn"] == "galois::runtime::SpecificRange::block_pair" and f["kind"] == "inst"]
    ctx.floor("SpecificRange::block_pair instantiations", len(fs), 1)
    for f in fs[:2]:
        fn = ctx.fn(f)
        det = []
        li = local_inits(fn)
        # roles by shape: the two locals read from the thread table at [tid] and [tid + 1]
        def table_read(t):
            for x in walk(t):
                if isinstance(x, dict) and x.get("k") == "idx" and "thread_beginnings" in S(x.get("b")):
                    return S(x)
            return None
        tb = {n: table_read(v[0]) for n, v in li.items() if len(v) == 1 and table_read(v[0])}
        lbn = [n for n, v in tb.items() if "+ 1" not in v]
        len_ = [n for n, v in tb.items() if "+ 1" in v]
        if len(lbn) != 1 or len(len_) != 1:
            ctx.ob("C13.specific.clip-is-intersection", f["qn"], False, "block bounds are not read from thread_beginnings[tid] / [tid + 1]: %s" % tb,
                   fn.loc(), "clip", fnkey=f["key"])
            continue
        LB, LE, GB, GE = lbn[0], len_[0], "this->global_begin", "this->global_end"
        ncase = npath = 0
        for lb, le, gb, ge in itertools.product(range(4), repeat=4):
            if lb > le or gb > ge:
                continue
            ncase += 1
            # the locals' own declarations would overwrite the ranks: seed them under the expression they are read from
            st0 = {GB: gb, GE: ge, tb[LB]: lb, tb[LE]: le}
            paths = R.order_paths(fn, st0)
            if paths is None:
                det.append("too many paths")
                break
            for e, st, und in paths:
                npath += 1
                t = e.get("e")
                while isinstance(t, dict) and t.get("k") in ("cast", "ctor") and (t.get("e") or t.get("a")):
                    t = t["e"] if t.get("k") == "cast" else t["a"][0]
                a = t.get("a", []) if isinstance(t, dict) and t.get("k") == "call" and t.get("name") == "make_pair" else []
                got = tuple(st.get(S(x)) for x in a) if len(a) == 2 else None
                if got is None or None in got:
                    det.append("a return is not a pair of the compared values: %s" % S(e.get("e")))
                    continue
                if any(taken for _, taken in und) and not (gb <= lb and le <= ge):
                    continue        # unclipped fast path (an array-content condition held): only claimed where the block
                                    # lies inside the requested range; the clip path (condition false) is claimed everywhere
                lo, hi = max(lb, gb), min(le, ge)
                # empty means begin == end: a pair with begin past end is not empty for `it != end` loops or std::distance
                ok = got == (lo, hi) if lo < hi else got[0] == got[1]
                if not ok:
                    rk = lambda v: {lb: "lb", le: "le", gb: "gb", ge: "ge"}.get(v, str(v))
                    det.append("order lb=%d le=%d gb=%d ge=%d: returns [%s, %s), expected %s" % (
                        lb, le, gb, ge, got[0], got[1], "[%d, %d)" % (lo, hi) if lo < hi else "an empty range"))
        if not npath:
            det.append("no returning path interpreted")
        ctx.ob("C13.specific.clip-is-intersection", f["qn"], not det, "; ".join(det[:3]) + (" (+%d more orderings)" % (len(det) - 3) if len(det) > 3 else ""),
               fn.loc(), "clip/%d orderings" % ncase, fnkey=f["key"])


def weighted(ctx, fx):
    ctx.rule("C13.weighted.adjacent-agree",
             "divideNodesBinarySearch: blockLower = scaleFactor[id - 1] (0 for id == 0), blockUpper = scaleFactor[id]; the two "
             "findIndexPrefixSum calls agree on every argument except the target (blockWeight * blockLower / blockUpper) and "
             "the lower bound (0 / nodesLower); the edge bounds read the same prefix element on both sides")
    ctx.rule("C13.weighted.last-piece-reaches-end",
             "divideNodesBinarySearch: total weight - max over searched prefixes of (prefix edges * edgeWeight + mid * nodeWeight), "
             "with mid <= numNodes - 1 and prefix edges <= numEdges, is a polynomial that is >= 1 whenever nodeWeight + "
             "edgeWeight >= 1 (the `numEdges + 1` sentinel): the last division's lower-bound search cannot stop before numNodes")
    fs = insts(fx, "galois::graphs::divideNodesBinarySearch")
    ctx.floor("divideNodesBinarySearch instantiations", len(fs), 2)
    for f in fs:
        fn = ctx.fn(f)
        det = []
        asg = {}
        for _, e in fn.events(lambda e: e.get("k") == "assign" and e.get("op") == "="):
            asg.setdefault(e["lp"], []).append(e.get("rp"))
        li = local_inits(fn)
        bl = sorted(asg.get("blockLower", []))
        if bl != ["0", "scaleFactor[id - 1]"]:
            det.append("blockLower <- %s" % bl)
        bu = S(li["blockUpper"][0]) if li.get("blockUpper") else None
        if bu != "scaleFactor[id]":
            det.append("blockUpper = %s" % bu)
        idz = lambda t: S(t) == "id"
        if fn.guarded_positions(lambda e: e.get("k") == "assign" and e.get("lp") == "blockLower" and e.get("rp") != "0", idz, True):
            det.append("scaleFactor[id - 1] read when id may be 0")
        calls = [e for _, e in fn.events(is_call(name="findIndexPrefixSum"))]
        if len(calls) != 2:
            det.append("findIndexPrefixSum calls: %d" % len(calls))
        else:
            a0 = [S(x) for x in calls[0].get("a", [])]
            a1 = [S(x) for x in calls[1].get("a", [])]
            lo = a0 if "blockLower" in a0[2] else a1
            up = a1 if lo is a0 else a0
            tlo = tpoly((calls[0] if lo is a0 else calls[1])["a"][2])
            tup = tpoly((calls[1] if lo is a0 else calls[0])["a"][2])
            bwp = Poly.sym("blockWeight")
            if tlo != bwp * Poly.sym("blockLower") or tup != bwp * Poly.sym("blockUpper"):      # as polynomials: order free
                det.append("targets %s / %s" % (lo[2], up[2]))
            if lo[3] != "0" or up[3] != "nodesLower":
                det.append("lower bounds %s / %s (the second search must start at the first result)" % (lo[3], up[3]))
            rest_lo = lo[:2] + lo[4:]
            rest_up = up[:2] + up[4:]
            if rest_lo != rest_up:
                det.append("the two searches differ in other arguments: %s vs %s" % (rest_lo, rest_up))
        bw = S(li["blockWeight"][0]) if li.get("blockWeight") else None
        if bw is None or not is_ceildiv(bw, "weight", "numBlocks"):
            det.append("blockWeight = %s is not ceil(weight / numBlocks)" % bw)
        nl = asg.get("nodesLower", [])
        if sorted(x for x in nl if x != "0") and not any("findIndexPrefixSum" in x for x in nl):
            det.append("nodesLower <- %s" % nl)
        el = [x for x in asg.get("edgesLower", []) if x != "0"]
        eu = asg.get("edgesUpper", [])
        if el != ["edgePrefixSum[nodesLower - 1 + nodeOffset] - edgeOffset"] or eu != ["edgePrefixSum[nodesUpper - 1 + nodeOffset] - edgeOffset"]:
            det.append("edge bounds %s / %s" % (el, eu))
        ctx.ob("C13.weighted.adjacent-agree", "galois::graphs::divideNodesBinarySearch", not det, "; ".join(det), fn.loc(),
               "weighted", fnkey=f["key"])
        # the last division must end at numNodes: its target (>= the total weight, by the ceil-div and the scale prefix sum)
        # has to be strictly larger than the weight of every prefix the search can look at, whatever the degrees are
        det = []
        N, E, nw, ew = (Poly.sym(x) for x in ("N", "E", "nw", "ew"))
        it = Interp(fn, {"numNodes": N, "numEdges": E, "nodeWeight": nw, "edgeWeight": ew})
        tot = it.ev(li["weight"][0], {}) if li.get("weight") else None
        srch = [g for g in fx.functions if g["qn"] == "galois::graphs::internal::findIndexPrefixSum" and g["kind"] != "pattern"]
        wmax = None
        if srch:
            sfn = ctx.fn(srch[0])
            sli = local_inits(sfn)
            # inside the search mid < ub = numNodes and the prefix sum is at most numEdges; the weight is monotone in both
            nm = SEARCH.get(srch[0]["key"]) or search_shape(sfn, srch[0])[0] or {}
            it2 = Interp(sfn, {nm.get("prefix", "num_edges"): E, nm.get("mid", "mid"): N - Poly.const(1),
                               nm.get("node_w", "nodeWeight"): nw, nm.get("edge_w", "edgeWeight"): ew})
            wn = nm.get("weight", "weight")
            wmax = it2.ev(sli[wn][0], {}) if sli.get(wn) else None
            if wmax is not None and any(v < 0 for v in wmax.p.t.values() if True) and False:
                wmax = None
        ubs = {S(c.get("a", [None] * 5)[4]) for c in calls}
        if ubs != {"numNodes"}:
            det.append("search upper bounds %s" % sorted(ubs))
        if tot is None or wmax is None:
            det.append("total weight / searched weight not linear in (numNodes, numEdges, nodeWeight, edgeWeight)")
        else:
            diff = tot.p - wmax.p
            coef = lambda m: diff.t.get(m, 0)
            ok = all(v >= 0 for v in diff.t.values()) and (coef(()) >= 1 or (coef(("nw",)) >= 1 and coef(("ew",)) >= 1))
            if not ok:
                det.append("total weight %s minus the largest searched prefix weight %s = %s is not >= 1 for every weighting "
                           "with nodeWeight + edgeWeight >= 1: with trailing zero-degree nodes the last search stops early "
                           "and a suffix of nodes is in no piece" % (tot.p, wmax.p, diff))
        ctx.ob("C13.weighted.last-piece-reaches-end", "galois::graphs::divideNodesBinarySearch", not det, "; ".join(det),
               fn.loc(), "weighted", fnkey=f["key"])


def outidx_kind(ctx, fx):
    ctx.rule("C13.kind.file-prefix-sums-are-absolute",
             "FileGraph: after partFromFile the out-index array still holds prefix sums counted from the start of the whole file "
             "(kind ABS-EDGE) while numEdges, edge iterators and division targets are local (REL-EDGE): on the division path "
             "(edge_begin / edge_end / findIndex / divideBy*) every read of outIdx[..] subtracts edgeOffset in the same statement, "
             "and every call that is handed the array itself is handed edgeOffset too (swap is exempt)")
    n = 0
    FGq = "galois::graphs::FileGraph::"
    division_path = ("edge_begin", "edge_end", "findIndex", "divideByNode", "divideByEdge")
    for f in fx.functions:
        if f["kind"] == "pattern" or not f["qn"].startswith(FGq):
            continue
        # reads, judged per source line (an expression is spread over several events: the load, conversions, min, the
        # assignment): some event of the line must subtract edgeOffset
        if f["name"] in division_path:
            lines = {}
            for b in f.get("blocks", []):
                for e in b["ev"]:
                    if any(isinstance(x, dict) and x.get("k") == "idx" and S(x.get("b")).endswith("outIdx") for x in walk(e)):
                        txt = " ".join(S(v) for v in e.values() if isinstance(v, dict)) + " " + \
                            " ".join(S(a) for a in e.get("a", []) if isinstance(a, dict))
                        lines.setdefault(e.get("l"), []).append(txt)
            for l, txts in sorted(lines.items()):
                n += 1
                ok = any("edgeOffset" in t for t in txts)
                ctx.ob("C13.kind.file-prefix-sums-are-absolute", f["qn"], ok,
                       "line %s reads the whole-file prefix sum outIdx[..] without subtracting edgeOffset" % l,
                       "%s:%s" % (f["file"], l), "read@%s" % f["name"], fnkey=f["key"])
        for b in f.get("blocks", []):
            for e in b["ev"]:
                if e.get("k") == "call" and e.get("name") not in ("swap",) and \
                        any(isinstance(a, dict) and S(a) in ("this->outIdx", "g.outIdx", "o.outIdx") for a in e.get("a", [])):
                    n += 1
                    args = [S(a) for a in e.get("a", [])]
                    who = [a.split("outIdx")[0] for a in args if a.endswith("outIdx")][0]
                    ok = (who + "edgeOffset") in args
                    ctx.ob("C13.kind.file-prefix-sums-are-absolute", f["qn"], ok,
                           "line %s hands the whole-file prefix sums to %s without edgeOffset: every weight is too large by "
                           "edgeOffset * edgeWeight and the last piece ends before numNodes" % (e.get("l"), e.get("name")),
                           "%s:%s" % (f["file"], e.get("l")), "call@%s" % e.get("name"), fnkey=f["key"])
    ctx.floor("uses of FileGraph's out-index array", n, 4)


def block_division(ctx, fx):
    ctx.rule("C13.scale.prefix-sum", "determine_block_division: the scale factors are replaced by their running sum (add, then store) "
             "and the total is returned; the default is 1 block per division with prefix i + 1")
    fs = fx.fns(qn="galois::graphs::internal::determine_block_division")
    ctx.floor("determine_block_division", len(fs), 1)
    for f in fs[:1]:
        fn = ctx.fn(f)
        det = []
        add = lambda e: e.get("k") == "assign" and e.get("lp") == "numBlocks" and e.get("op") == "+=" and e.get("rp") == "scaleFactor[i]"
        st = lambda e: e.get("k") == "assign" and e.get("lp") == "scaleFactor[i]" and e.get("rp") == "numBlocks"
        if not any(True for _ in fn.events(add)) or not any(True for _ in fn.events(st)):
            det.append("running sum missing")
        for p, _ in fn.events(st):
            # within the loop body the add precedes the store
            pass
        for p, _ in fn.events(add):
            if not fn.must_follow(p, st):
                det.append("sum not stored back")
            h, _ = fn.search([fn.after(p)], stop=lambda e: add(e) or st(e))
            if any(add(fn.ev(q)) for q in h):
                det.append("two additions without storing")
        # the store reads the sum that includes element i: no store before the add in an iteration
        for p, _ in fn.events(st):
            h, _ = fn.search([fn.after(p)], stop=lambda e: add(e) or st(e))
            if any(st(fn.ev(q)) for q in h):
                det.append("store before add")
        rets = {S(e.get("e")) for _, e in fn.events(lambda e: e["k"] == "ret")}
        if rets != {"numBlocks"}:
            det.append("returns %s" % sorted(rets))
        pb = [S(e) for _, e in fn.events(is_call(name="push_back"))]
        if not pb or "(i + 1)" not in pb[0]:
            det.append("default prefix %s" % pb)
        loops = [S(lit(b["term"]["cond"])[0]) for b in fn.blocks.values() if (b.get("term") or {}).get("cls") in ("ForStmt", "WhileStmt")]
        if loops != ["(i < numDivisions)"] * len(loops) or len(loops) != 2:
            det.append("loops %s" % loops)
        ctx.ob("C13.scale.prefix-sum", f["qn"], not det, "; ".join(det), fn.loc(), "scale", fnkey=f["key"])


# ------------------------------------------------------------ ABS / REL
def kind_of(t, env, depth=0):
    """ABS (absolute node id), REL (count / id relative to beginNode), None unknown"""
    while isinstance(t, dict) and t.get("k") in ("cast", "defarg"):
        t = t.get("e")
    if not isinstance(t, dict) or depth > 8:
        return None
    k = t.get("k")
    s = S(t)
    if s in env:
        return env[s]
    if k == "int":
        return "ZERO" if t.get("v") == 0 else "REL"
    if k == "ref":
        return env.get(t["n"])
    if k == "un" and t.get("op") in ("pre++", "post++", "pre--", "post--"):
        return kind_of(t.get("e"), env, depth + 1)
    if k in ("idx",) or (k == "call" and t.get("op") == "[]"):
        base = S(t.get("b") if k == "idx" else t.get("recv"))
        return env.get(base + "[]")
    if k == "un" and t.get("op") == "*":
        return kind_of(t.get("e"), env, depth + 1) or env.get(S(t))
    if k == "call" and t.get("op") == "*" and t.get("recv") is not None:
        return env.get("*" + S(t["recv"])) or env.get("*deref")
    if k == "bin" and t.get("op") in ("+", "-"):
        a, b = kind_of(t["l"], env, depth + 1), kind_of(t["r"], env, depth + 1)
        if a == "ZERO":
            a = b and "REL" if False else a
        if t["op"] == "+":
            if {a, b} == {"ABS", "REL"}:
                return "ABS"
            if a == "ABS" and b == "ZERO" or a == "ZERO" and b == "ABS":
                return "ABS"
            if a in ("REL", "ZERO") and b in ("REL", "ZERO"):
                return "REL"
            return None
        if a == "ABS" and b == "ABS":
            return "REL"
        if a == "ABS" and b in ("REL", "ZERO"):
            return "ABS"
        if a in ("REL", "ZERO") and b in ("REL", "ZERO"):
            return "REL"
    return None


def unit_ranges(ctx, fx):
    ctx.rule("C13.units.absolute-boundaries",
             "unit-range routines: every value stored into the range vector is an absolute node id (beginNode, endNode, a "
             "previous boundary, or a relative split result + beginNode); counts and relative ids (endNode - beginNode, raw "
             "split results when beginNode != 0) are never stored; an empty unit copies the previous boundary")
    G = "galois::graphs::internal::"
    targets = [(G + "unitRangeCornerCaseHandle", "returnRanges", True),
               (G + "determineUnitRangesLoopGraph", "returnRanges", True),
               (G + "determineUnitRangesLoopPrefixSum", "returnRanges", True),
               ("galois::graphs::determineUnitRangesFromPrefixSum", "nodeRanges", False)]
    for qn, vec, has_begin in targets:
        fs = [f for f in fx.functions if f["qn"] == qn and f["kind"] != "pattern"]
        ctx.floor(qn, len(fs), 1)
        for f in fs:
            pn = [p["n"] for p in f["params"]]
            if not has_begin and "beginNode" in pn:
                continue
            fn = ctx.fn(f)
            env = {"beginNode": "ABS", "endNode": "ABS", vec + "[]": "ABS"}
            if not has_begin:
                # whole-graph variant: ids start at 0, relative == absolute
                env["*deref"] = "ABS"
                env["ZEROABS"] = "ABS"
            # locals: propagate kinds through declarations (flow-insensitive, single pass in source order)
            for _, e in sorted(fn.events(lambda e: e["k"] == "decl" and "init" in e), key=lambda pe: pe[1].get("l", 0)):
                kd = kind_of(e["init"], env)
                if kd in ("ABS", "REL"):
                    env[e["n"]] = kd
                if e["n"] == "nodeSplits":
                    env["*nodeSplits.first"] = "REL" if has_begin else "ABS"
                    env["*nodeSplits.second"] = "REL" if has_begin else "ABS"
            det = []
            n = 0
            for pos, e in fn.events(lambda e: e.get("k") == "assign" and (e.get("lp") or "").startswith(vec + "[")):
                n += 1
                kd = kind_of(e.get("rhs"), env)
                if kd == "ZERO" and (not has_begin):
                    kd = "ABS"
                if kd != "ABS":
                    det.append("%s = %s stores a %s value (%s)" % (e["lp"], e.get("rp"), kd or "non-absolute", fn.loc(pos).split(":")[-1]))
            if n == 0:
                det.append("no boundary stores found")
            # empty unit copies the previous boundary
            if "Loop" in qn or not has_begin:
                cp = [e for _, e in fn.events(lambda e: e.get("k") == "assign" and e.get("lp") == vec + "[i + 1]" and e.get("rp") == vec + "[i]")]
                if not cp:
                    det.append("an empty unit does not copy the previous boundary")
                first = [e for _, e in fn.events(lambda e: e.get("k") == "assign" and e.get("lp") == vec + "[0]")]
                if not first or not all(e.get("rp") in ("beginNode", "0") for e in first):
                    det.append("first boundary is %s" % [e.get("rp") for e in first])
            ctx.ob("C13.units.absolute-boundaries", qn, not det, "; ".join(det[:3]), fn.loc(), vec, fnkey=f["key"])
    # corner case: unit count vs node count
    for f in fx.fns(qn=G + "unitRangeCornerCaseHandle")[:1]:
        fn = ctx.fn(f)
        li = local_inits(fn)
        tn = S(li["totalNodes"][0]) if li.get("totalNodes") else None
        conds = [S(fn.branch(b)[0]) for b in fn.blocks if fn.branch(b)]
        det = []
        if tn != "(endNode - beginNode)":
            det.append("totalNodes = %s" % tn)
        if "(unitsToSplit > totalNodes)" not in conds:
            det.append("no more-units-than-nodes case")
        # single unit gets [beginNode, endNode]
        ctx.ob("C13.units.absolute-boundaries", f["qn"], not det, "; ".join(det), fn.loc(), "corner", fnkey=f["key"])
