"""C01 - for_each conserves work (structural clauses).

Commit publishes exactly the push buffer, abort re-queues the item and discards
the buffer, every popped item is processed, no early publication while aborts
are possible, aborted work is retried each round, loop exit is coupled to
termination detection + empty worklist, worklist lock discipline / chunk
ownership -- for every ForEachExecutor instantiation of the worklist matrix.
"""
from gsa.cfg import Fn, S, is_call, is_assign, walk, lit
from gsa import rules as R
from .common import executor_instances, short, FE, wl_name

EXPL = ("Structural necessary conditions of work conservation evaluated on every CFG path of every "
        "ForEachExecutor instantiation found (26 worklist spellings x {conflict detection on/off} x "
        "{pushes, no_pushes+per_iter_alloc+parallel_break}) and of AbortHandler and the worklist "
        "classes: commit publishes exactly the push buffer once and then clears it; abort re-queues "
        "the in-flight item exactly once, never publishes, and discards buffer and allocator; every "
        "popped item reaches the operator exactly once; fast push-back is never enabled when aborts "
        "are possible; aborted work is retried every round; every work result reaches the termination "
        "detector; the loop only exits after global termination and an empty worklist (or break), and "
        "re-arms the detector behind a barrier; worklist queues touch their shared fields only under "
        "their lock and release it on all paths. Decides these shapes for all schedules; does not "
        "decide interleavings inside lock-free paths or liveness under fairness.")

AH = "galois::runtime::AbortHandler"

EXPECTED_WL = [
    "ChunkMaster<int, galois::worklists::ConExtLinkedQueue, true",     # PerSocketChunkFIFO
    "ChunkMaster<int, galois::worklists::ConExtLinkedStack, true",     # PerSocketChunkLIFO
    "ChunkMaster<int, galois::worklists::ConExtLinkedQueue, false",    # ChunkFIFO
    "ChunkMaster<int, galois::worklists::ConExtLinkedStack, false",    # ChunkLIFO
    "PerThreadChunkMaster<true",
    "PerThreadChunkMaster<false",
    "Wrapper<int",   # FIFO/LIFO/GFIFO/GLIFO: `retype` resets the container, so for_each sees one spelling
    "BulkSynchronous<",
    "LocalQueue<",
    "OwnerComputes<",
    "StableIterator<true",
    "StableIterator<false",
    "OrderedList<",
    "OrderedByIntegerMetric<",
    "AdaptiveOrderedByIntegerMetric<",
]


def go_flags(f):
    """(couldAbort, isLeader) of a go<..> instantiation"""
    ta = f.get("targs", "")
    tail = ta.split("||")[-1].strip() if "||" in ta else ""
    parts = [x.strip() for x in tail.split("|")]
    if len(parts) != 2:
        return None
    return parts[0] == "true", parts[1] == "true"


def run(ctx):
    ctx.explanation = EXPL
    fx = ctx.load("src", "drv_foreach")
    inst = executor_instances(fx)
    ctx.floor("ForEachExecutor instantiations", len(inst), 60)

    ctx.rule("C01.commit.push-then-clear",
             "commitIteration (pushes enabled): every path either sees an empty push buffer or pushes "
             "[pb.begin(), pb.end()) to the worklist exactly once and then clears the buffer; the buffer is "
             "never cleared before being pushed")
    ctx.rule("C01.fastpush.push-then-clear", "fastPushBack pushes the whole buffer then clears it")
    ctx.rule("C01.abort.requeue-once",
             "abortIteration: exactly one aborted.push(item) on every path, never a push to the worklist, "
             "push buffer discarded")
    ctx.rule("C01.pop.flows-to-process",
             "runQueueSimple/runQueueDispatch: the value popped is the value processed; every successful pop is "
             "followed by doProcess before the next pop")
    ctx.rule("C01.process.once", "doProcess calls the operator exactly once (no loop) and then commits")
    ctx.rule("C01.fastpush.not-when-abortable",
             "go<couldAbort=true>: setFastPushBack is unreachable (early publication only without aborts)")
    ctx.rule("C01.retry.every-round",
             "go<couldAbort=true>: every path from a runQueue(wl) call to localTermination passes handleAborts; "
             "handleAborts drains the aborted queue")
    ctx.rule("C01.term.didwork-flow",
             "go: the result of every runQueue/handleAborts/runQueueSimple call is or-accumulated into the "
             "argument of term.localTermination; the accumulator is never overwritten")
    ctx.rule("C01.exit.coupled",
             "go: the function returns only after globalTermination() (or break) and then only if "
             "checkEmpty() is true (or break); the retry path re-arms the detector then waits on the barrier")
    ctx.rule("C01.coverage.worklists", "every shipped worklist appears in at least one analysed executor")

    seen_wl = set()
    n_push = n_abort = 0
    for clsk, d in sorted(inst.items()):
        c = d["consts"]
        if "needsPush" not in c or "needsAborts" not in c:
            ctx.broken("missing trait constants for " + short(clsk))
            continue
        npush, na = bool(c["needsPush"]), bool(c["needsAborts"])
        npia, nbreak = bool(c.get("needsPia")), bool(c.get("needsBreak"))
        wln = wl_name(clsk)
        seen_wl.add(wln)
        n_push += npush
        n_abort += na

        # ---- commit
        for f in d["fns"].get("commitIteration", []):
            if not npush:
                continue
            fn = ctx.fn(f)
            al = fn.aliases()
            defs = fn.defs()
            pushp = lambda e: is_call(name="push", recv=r"(^|>)wl$")(e)
            clearp = lambda e: e.get("k") == "call" and e.get("name") == "clear" and \
                "getPushBuffer" in S(e.get("recv"), al)
            pushes = list(fn.events(pushp))
            det = []
            # push arguments are begin()/end() of the push buffer
            for pos, e in pushes:
                a = [S(x, al) for x in e.get("a", [])]
                if len(a) != 2 or not a[0].endswith("getPushBuffer().begin()") or a[0][:-8] != a[1][:-6] or \
                        not a[1].endswith("getPushBuffer().end()") or a[0].startswith(("+", "-", "(")):
                    det.append("push arguments are not the whole buffer: %s" % a)
            # literal "buffer size is zero"
            def size_lit(t):
                s = S(t, {**defs, **al})
                return "getPushBuffer().size()" in s or "getPushBuffer().empty()" in s
            ge_empty = fn.guard_edges(size_lit, False) | {
                e for e in fn.guard_edges(lambda t: "empty()" in S(t, {**defs, **al}), True)}
            eok = lambda b, i, s: (b, i) not in ge_empty
            if fn.exit_reachable_without(pushp, edge_ok=eok):
                det.append("a path with a non-empty buffer returns without wl.push")
            for pos, e in pushes:
                if not fn.must_follow(pos, clearp):
                    det.append("push at %s not followed by clear on every path" % fn.loc(pos))
                h, _ = fn.search([fn.after(pos)], stop=pushp)
                if h:
                    det.append("buffer pushed twice")
            if fn.reaches_without(clearp, pushp):
                det.append("buffer cleared on a path that did not push it")
            ctx.ob("C01.commit.push-then-clear", FE + "::commitIteration", not det, "; ".join(det),
                   fn.loc(), "pushBuffer", fnkey=f["key"])
        for f in d["fns"].get("fastPushBack", []):
            fn = ctx.fn(f)
            pushp = is_call(name="push", recv=r"(^|>)wl$")
            clearp = is_call(name="clear")
            pushes = list(fn.events(pushp))
            ok = len(pushes) == 1 and fn.must_follow(pushes[0][0], clearp) and \
                not fn.exit_reachable_without(pushp) and not fn.reaches_without(clearp, pushp)
            if ok:
                a = [S(x) for x in pushes[0][1].get("a", [])]
                ok = len(a) == 2 and a[0].endswith(".begin()") and a[1].endswith(".end()") and \
                    a[0].split(".")[0] == a[1].split(".")[0] == fn.f["params"][0]["n"]
            ctx.ob("C01.fastpush.push-then-clear", FE + "::fastPushBack", ok,
                   "fastPushBack does not push exactly the buffer then clear it", fn.loc(), "x", fnkey=f["key"])

        # ---- abort
        for f in d["fns"].get("abortIteration", []):
            if not na:
                continue
            fn = ctx.fn(f)
            item = f["params"][0]["n"]
            ap = lambda e: is_call(name="push", recv=r"aborted$")(e)
            aps = list(fn.events(ap))
            det = []
            if fn.exit_reachable_without(ap):
                det.append("a path returns without aborted.push(item)")
            for pos, e in aps:
                a = [S(x) for x in e.get("a", [])]
                if a != [item]:
                    det.append("aborted.push argument is %s, not the in-flight item" % a)
                h, _ = fn.search([fn.after(pos)], stop=ap)
                if h:
                    det.append("item re-queued twice")
            if any(True for _ in fn.events(is_call(name="push", recv=r"(^|>)wl$"))):
                det.append("abort path pushes to the worklist")
            ctx.ob("C01.abort.requeue-once", FE + "::abortIteration", not det, "; ".join(det), fn.loc(),
                   "aborted", fnkey=f["key"])

        # ---- pop -> process
        for nm in ("runQueueSimple", "runQueueDispatch"):
            for f in d["fns"].get(nm, []):
                fn = ctx.fn(f)
                popp = is_call(name="pop")
                procp = is_call(fn=FE + "::doProcess")
                pops = list(fn.events(popp))
                procs = list(fn.events(procp))
                det = []
                if not pops or not procs:
                    det.append("no pop / doProcess event")
                # variable receiving the pop
                holders = set()
                for pos, e in pops:
                    for p2, e2 in fn.events():
                        if e2["k"] == "call" and e2.get("op") == "=" and any(
                                n.get("sid") == e.get("sid") for n in walk(e2.get("a", []))):
                            holders.add(e2.get("rp"))
                        if e2["k"] in ("decl",) and "init" in e2 and any(
                                n.get("sid") == e.get("sid") for n in walk(e2["init"])):
                            holders.add(e2["n"])
                        if e2["k"] == "assign" and any(
                                n.get("sid") == e.get("sid") for n in walk(e2.get("rhs"))):
                            holders.add(e2["lp"])
                for pos, e in procs:
                    a0 = S(e["a"][0]) if e.get("a") else ""
                    if not any(h and ("*" + h) in a0 for h in holders):
                        det.append("doProcess argument %s is not the popped item %s" % (a0, sorted(holders)))
                # truthiness edge of the pop result -> process before next pop / exit
                def pop_lit(t):
                    s = S(t)
                    return any(h and (s == h or s.startswith("(%s = " % h) or s == "(%s)" % h) for h in holders) \
                        or (t.get("k") == "call" and t.get("op") == "=" and S(t.get("recv")) in holders)
                ge = fn.guard_edges(pop_lit, True)
                if not ge:
                    det.append("no branch on the pop result")
                for (b, i) in ge:
                    s = fn.blocks[b]["succ"][i]
                    if s is None:
                        continue
                    h, ex = fn.search([(s, 0)], stop=lambda e: procp(e) or popp(e))
                    if ex or any(popp(fn.ev(p)) for p in h):
                        det.append("a popped item can be dropped (next pop or return before doProcess)")
                ctx.ob("C01.pop.flows-to-process", FE + "::" + nm, not det, "; ".join(sorted(set(det))),
                       fn.loc(), "pop", fnkey=f["key"])
        for f in d["fns"].get("doProcess", []):
            fn = ctx.fn(f)
            opcall = lambda e: e.get("k") == "call" and (e.get("rp") or "").endswith(".function")
            ops = list(fn.events(opcall))
            det = []
            if len(ops) != 1:
                det.append("operator call sites: %d" % len(ops))
            else:
                h, _ = fn.search([fn.after(ops[0][0])], stop=opcall)
                if h:
                    det.append("operator call inside a loop")
                if fn.exit_reachable_without(opcall):
                    det.append("a path skips the operator")
                a = [S(x) for x in ops[0][1].get("a", [])]
                if not a or a[0] != f["params"][0]["n"]:
                    det.append("operator applied to %s, not the item" % a)
            ctx.ob("C01.process.once", FE + "::doProcess", not det, "; ".join(det), fn.loc(), "operator",
                   fnkey=f["key"])

        # ---- go
        for f in d["fns"].get("go", []):
            fl = go_flags(f)
            if fl is None:
                ctx.broken("cannot read template flags of " + short(f["key"]))
                continue
            could_abort, leader = fl
            fn = ctx.fn(f)
            lt = is_call(name="localTermination", recv=r"term$")
            gt_lit = lambda t: t.get("k") == "call" and t.get("name") == "globalTermination"
            broke_lit = lambda t: S(t) in ("this->broke", "broke")
            rq = is_call(fn=FE + "::runQueue")
            rqs = is_call(fn=FE + "::runQueueSimple")
            ha = is_call(fn=FE + "::handleAborts")
            if could_abort:
                n = sum(1 for _ in fn.events(is_call(name="setFastPushBack")))
                ctx.ob("C01.fastpush.not-when-abortable", FE + "::go", n == 0,
                       "setFastPushBack reachable in an instantiation where iterations can abort", fn.loc(),
                       "setFastPushBack", fnkey=f["key"])
                bad = []
                for pos, e in fn.events(rq):
                    h = fn.reaches_without(lt, ha, starts=[fn.after(pos)])
                    bad += h
                ctx.ob("C01.retry.every-round", FE + "::go", not bad and any(True for _ in fn.events(rq)),
                       "localTermination reachable after runQueue without handleAborts", fn.loc(),
                       "handleAborts", fnkey=f["key"])
            # didWork flow
            lts = list(fn.events(lt))
            det = []
            if len(lts) < 1:
                det.append("no localTermination call")
            accs = {S(e["a"][0]) for _, e in lts if e.get("a")}
            if len(accs) != 1:
                det.append("localTermination argument(s): %s" % sorted(accs))
            else:
                acc = accs.pop()
                work_calls = [(p, e) for p, e in fn.events(lambda e: rq(e) or rqs(e) or ha(e))]
                if not work_calls:
                    det.append("no work-producing call")
                accum = lambda e: e.get("k") == "assign" and e.get("lp") == acc
                for pos, e in fn.events(accum):
                    rhs_names = {n.get("n") for n in walk(e.get("rhs")) if n.get("k") == "ref"}
                    if e.get("op") == "=" and acc not in rhs_names:
                        det.append("accumulator overwritten at %s" % fn.loc(pos))
                    if e.get("op") not in ("=", "|="):
                        det.append("accumulator updated with %s" % e.get("op"))
                    if e.get("op") == "=":
                        r = e.get("rhs")
                        if not (isinstance(r, dict) and r.get("k") == "bin" and r.get("op") in ("||", "|")):
                            det.append("accumulator not or-combined at %s" % fn.loc(pos))
                for pos, e in work_calls:
                    holder = None
                    for p2, e2 in fn.events():
                        src = e2.get("init") if e2["k"] == "decl" else e2.get("rhs") if e2["k"] == "assign" else None
                        if src is not None and any(n.get("sid") == e.get("sid") for n in walk(src)):
                            holder = e2["n"] if e2["k"] == "decl" else e2["lp"]
                            break
                    if holder is None:
                        det.append("result of %s dropped at %s" % (e.get("name"), fn.loc(pos)))
                        continue
                    if holder == acc:
                        continue

                    def uses_holder(e3, holder=holder):
                        return accum(e3) and any(n.get("k") == "ref" and n.get("n") == holder
                                                 for n in walk(e3.get("rhs")))
                    kill = lambda e3, holder=holder, pos=pos: (
                        (e3.get("k") == "assign" and e3.get("lp") == holder) or
                        (e3.get("k") == "decl" and e3.get("n") == holder))
                    # from the call: reach localTermination without accumulating, or holder
                    # overwritten before being accumulated
                    start = fn.after(pos)
                    # skip the holder's own defining event
                    h, _ = fn.search([start], stop=lambda e3: uses_holder(e3) or lt(e3))
                    if any(lt(fn.ev(p)) for p in h):
                        det.append("result of %s at %s does not reach localTermination" % (
                            e.get("name"), fn.loc(pos)))
            ctx.ob("C01.term.didwork-flow", FE + "::go", not det, "; ".join(sorted(set(det))), fn.loc(),
                   "didWork", fnkey=f["key"])
            # exit coupling
            det = []
            ge_term = fn.guard_edges(gt_lit, True) | fn.guard_edges(broke_lit, True)
            ce = is_call(name="checkEmpty")
            ce_lit = lambda t: t.get("k") == "call" and t.get("name") == "checkEmpty"
            if not any(True for _ in fn.events(ce)):
                det.append("no checkEmpty call")
            eok = lambda b, i, s: (b, i) not in ge_term
            h, ex = fn.search([fn.entry_state()], stop=ce, edge_ok=eok)
            if h or ex:
                det.append("checkEmpty / return reachable without globalTermination() (or break)")
            ge_exit = fn.guard_edges(ce_lit, True) | fn.guard_edges(broke_lit, True)
            _, ex = fn.search([fn.entry_state()], edge_ok=lambda b, i, s: (b, i) not in ge_exit)
            if ex:
                det.append("return reachable while checkEmpty() is false and no break")
            # retry path: from the false edge of checkEmpty to the next work call: initializeThread then barrier
            init = is_call(name="initializeThread", recv=r"term$")
            bw = is_call(name="wait", recv=r"barrier$")
            work = lambda e: rq(e) or rqs(e)
            for (b, i) in fn.guard_edges(ce_lit, False):
                s = fn.blocks[b]["succ"][i]
                if s is None:
                    continue
                h1 = fn.reaches_without(work, init, starts=[(s, 0)])
                h2 = fn.reaches_without(work, bw, starts=[(s, 0)])
                h3 = fn.reaches_without(bw, init, starts=[(s, 0)])
                if h1 or h2 or h3:
                    det.append("retry path does not re-arm the detector and then wait on the barrier")
            ctx.ob("C01.exit.coupled", FE + "::go", not det, "; ".join(det), fn.loc(), "exit",
                   fnkey=f["key"])
        for f in d["fns"].get("handleAborts", []):
            if not na:
                continue
            fn = ctx.fn(f)
            p = lambda e: is_call(fn=FE + "::runQueue")(e) and "aborted" in S(e["a"][1] if len(e.get("a", [])) > 1 else None)
            ok = not fn.exit_reachable_without(p)
            ctx.ob("C01.retry.every-round", FE + "::handleAborts", ok,
                   "handleAborts does not run the aborted queue", fn.loc(), "aborted", fnkey=f["key"])
    ctx.floor("executor instantiations with pushes", n_push, 40)
    ctx.floor("executor instantiations with aborts", n_abort, 40)

    for w in EXPECTED_WL:
        hit = any(w in x for x in seen_wl)
        ctx.ob("C01.coverage.worklists", "drivers", hit, "no executor instantiation over worklist %s" % w,
               "drivers/", w)
        if not hit:
            ctx.broken("worklist %s missing from the instantiation matrix" % w)

    abort_handler(ctx, fx)
    owner_computes(ctx, fx)
    stable_iterator(ctx, fx)
    from . import wl_locks
    fxl = ctx.load("src", "drv_foreach", "wlcompile")
    wl_locks.check(ctx, fxl, prefix="C01")
    from . import wl_own
    wl_own.check(ctx, fxl, prefix="C01")


def stable_iterator(ctx, fx):
    """populateSteal() overwrites the owner's shared range [stealBegin, stealEnd). That is only safe when the range is
    empty. Either populateSteal itself tests emptiness under the lock before overwriting, or every populateSteal call in
    pop_steal is preceded by a self-steal that cannot fail because of contention (blocking lock, not try_lock)."""
    SI = "galois::worklists::StableIterator"
    ctx.rule("C01.stable.no-overwrite-of-shared-range",
             "StableIterator<steal>: the owner's shared steal range is overwritten (populateSteal) only when it is empty: "
             "populateSteal tests emptiness under the lock, or the self-steal that precedes it in pop_steal takes the lock "
             "unconditionally (a try_lock that fails under contention would let populateSteal drop the thief's remainder)")
    pops = [f for f in fx.functions if f["qn"] == SI + "::pop_steal" and f["kind"] == "inst"]
    ctx.floor("StableIterator::pop_steal instantiations", len(pops), 1)
    for f in pops:
        fn = ctx.fn(f)
        ps = is_call(name="populateSteal")
        if not any(True for _ in fn.events(ps)):
            continue
        ds = [(p, e) for p, e in fn.events(is_call(name="doSteal"))]
        selfs = [(p, e) for p, e in ds if len(e.get("a", [])) >= 2 and S(e["a"][0]) == S(e["a"][1])]
        det = []
        # alternative 1: populateSteal guards the overwrite itself
        guarded = False
        for g in fx.functions:
            if g["qn"] == SI + "::state::populateSteal" and g["kind"] == "inst" and g["clsk"].startswith(f["clsk"]):
                gn = ctx.fn(g)
                ow = lambda e: e.get("k") in ("assign",) and "stealEnd" in (e.get("lp") or "") or \
                    (e.get("k") == "call" and e.get("op") == "=" and "stealEnd" in (e.get("rp") or ""))
                emp = lambda t: "stealBegin" in S(t, gn.aliases()) and "stealEnd" in S(t, gn.aliases())
                if any(True for _ in gn.events(ow)) and not gn.guarded_positions(ow, emp, True) and \
                        not gn.guarded_positions(ow, emp, False):
                    pass
                if any(True for _ in gn.events(ow)) and (not gn.guarded_positions(ow, emp, False)):
                    guarded = True
        if not guarded:
            if not selfs:
                det.append("no self-steal before populateSteal")
            for p, e in selfs:
                # evaluate the callee under the constant arguments of this call
                cal = [g for g in fx.functions if g["qn"] == SI + "::doSteal" and g["key"].startswith(e.get("fk", "?") + "(")]
                if not cal:
                    det.append("doSteal instantiation not found")
                    continue
                gn = ctx.fn(cal[0])
                env = {}
                for prm, a in zip(cal[0]["params"], e.get("a", [])):
                    v = R.decide(a, {})
                    if v is not None:
                        env[prm["n"]] = v
                eok = R.edges_under(gn, env)
                tl = lambda x: x.get("k") == "call" and x.get("name") == "try_lock"
                h, _ = gn.search([gn.entry_state()], stop=tl, edge_ok=eok)
                if h:
                    det.append("the self-steal uses try_lock: under contention it fails although the owner's shared range is "
                               "not empty, and the later populateSteal overwrites that range")
                lk = lambda x: x.get("k") == "call" and x.get("name") == "lock" and "stealLock" in (x.get("rp") or "")
                h2, _ = gn.search([gn.entry_state()], stop=lk, edge_ok=eok)
                if not h2:
                    det.append("the self-steal never takes the steal lock")
            for p, _ in fn.events(ps):
                if fn.reaches_without(lambda x: x is fn.ev(p), lambda x: any(x is e for _, e in selfs)):
                    det.append("populateSteal reachable without a preceding self-steal")
        ctx.ob("C01.stable.no-overwrite-of-shared-range", SI + "::pop_steal", not det, "; ".join(sorted(set(det))), fn.loc(),
               "stealRange", fnkey=f["key"])


def owner_computes(ctx, fx):
    OC = "galois::worklists::OwnerComputes"
    ctx.rule("C01.owner.flush",
             "OwnerComputes: items pushed into another socket's buffer (pushBuffer.getRemote) are flushed to the "
             "shared queue before the pushing function returns (otherwise they stay in the pusher's private chunk "
             "of a container the pusher never pops)")
    fs = [f for f in fx.functions if f.get("cls") == OC and f["kind"] == "inst"]
    ctx.floor("OwnerComputes member functions", len(fs), 3)
    remote_push = lambda e: is_call(name="push")(e) and "pushBuffer.getRemote" in (e.get("rp") or "")
    flush0 = lambda e: is_call(name="flush")(e) and "pushBuffer.getRemote" in (e.get("rp") or "")

    def flush_loops(fn):
        """sids of the `pushBuffer.size()` bound evaluations of loops whose body flushes every
        pushBuffer.getRemote(x) -- passing such a loop head counts as flushing all buffers"""
        out = set()
        for bid, b in fn.blocks.items():
            t = b.get("term") or {}
            if t.get("cls") not in ("ForStmt", "WhileStmt") or "pushBuffer.size()" not in (t.get("text") or ""):
                continue
            body = b["succ"][0] if b.get("succ") else None
            if body is None:
                continue
            hit_head = []
            h, ex = fn.search([(body, 0)], stop=flush0,
                              edge_ok=lambda bb, i, s2, bid=bid: not (s2 == bid and hit_head.append(1)))
            if h and not ex and not hit_head:
                for e in b["ev"]:
                    if e.get("k") == "call" and e.get("name") == "size" and "pushBuffer" in (e.get("rp") or ""):
                        out.add(e.get("sid"))
        return out
    _fl = {}

    def flush_for(fn):
        if fn.key not in _fl:
            _fl[fn.key] = flush_loops(fn)
        sids = _fl[fn.key]
        return lambda e: flush0(e) or (e.get("k") == "call" and e.get("sid") in sids and e.get("name") == "size")
    dirty = set()
    for _ in range(3):
        for f in fs:
            fn = ctx.fn(f)
            d = lambda e: remote_push(e) or (e.get("k") == "call" and e.get("fn") in dirty and e.get("cls") == OC)
            bad = [p for p, e in fn.events(d) if not fn.must_follow(p, flush_for(fn))]
            if bad:
                dirty.add(f["qn"] + "#" + str(len(f["params"])))
                dirty.add(f["qn"])
    seen = set()
    for f in fs:
        if f["name"] not in ("push", "push_initial"):
            continue
        fn = ctx.fn(f)
        d = lambda e: remote_push(e) or (e.get("k") == "call" and e.get("fn") in dirty and e.get("cls") == OC)
        bad = [p for p, e in fn.events(d) if not fn.must_follow(p, flush_for(fn))]
        ctx.ob("C01.owner.flush", f["qn"], not bad,
               "remote push at %s is not followed by a flush of that buffer" % [fn.loc(p) for p in bad[:3]],
               fn.loc(), "pushBuffer", fnkey=f["key"])


def abort_handler(ctx, fx):
    ctx.rule("C01.aborthandler.one-queue",
             "every AbortHandler policy path pushes the item to exactly one abort queue; push(Item) bumps retries")
    fs = [f for f in fx.functions if f.get("cls") == AH and f["kind"] == "inst"]
    byname = {}
    for f in fs:
        byname.setdefault(f["name"], []).append(f)
    pol = ("basicPolicy", "doublePolicy", "boundedPolicy", "eagerPolicy")
    n = 0
    qpush = lambda e: is_call(name="push")(e) and "queues" in (e.get("rp") or "")
    polcall = lambda e: e.get("k") == "call" and e.get("name") in pol
    for nm in pol + ("push",):
        for f in byname.get(nm, []):
            fn = Fn(f)
            p = (lambda e: qpush(e) or polcall(e)) if nm == "push" else qpush
            det = []
            if fn.exit_reachable_without(p):
                det.append("a path returns without queueing the item")
            for pos, e in fn.events(p):
                h, _ = fn.search([fn.after(pos)], stop=p)
                if h:
                    det.append("item queued twice on one path")
            if nm == "push" and "Item" in f["params"][0]["ty"] and "value_type" not in f["params"][0]["ty"]:
                # retries must grow: initialiser contains item.retries + 1
                ok = any("retries + 1" in (e.get("ip") or "") or ".retries + 1" in S(e.get("init"))
                         for _, e in fn.events(lambda e: e.get("k") == "decl"))
                if not ok and any(pp["ty"].endswith("Item &") for pp in f["params"]):
                    det.append("retry count not incremented")
            n += 1
            ctx.ob("C01.aborthandler.one-queue", AH + "::" + nm, not det, "; ".join(det), fn.loc(), nm,
                   fnkey=f["key"])
    ctx.floor("AbortHandler policy functions analysed", n, 4)
