"""C05 - barriers (structural clauses) for all six implementations."""
import copy
import re

from gsa.cfg import Fn, S, is_call, is_assign, walk, lit
from gsa import lock as L
from gsa import rules as R
from . import mo

EXPL = ("Per barrier implementation (Counting, MCS, Topo, Dissemination, Pthread, Simple), on every CFG path of "
        "wait()/_reinit(): the arrival state is reset before the release that lets peers re-enter; the thread-local "
        "phase variable (sense / parity) is flipped exactly once per wait; every field touched by two threads in "
        "wait() is std::atomic with at least acquire loads / release stores / acq_rel arrival RMWs, or mutex "
        "protected; wait() never reaches a reinit that writes guarded state; fields written by wait() are "
        "initialised by _reinit(); BarrierInstance::get re-initialises exactly when the clamped count changes; the "
        "pthread return code is checked. Decides these shapes for all schedules and participant counts; tree index "
        "arithmetic and deadlock freedom in general are not decided.")

AN = "(anonymous namespace)::"


def fns(ctx, fx, qn, floor=1):
    fs = [f for f in fx.fns(qn=qn) if f["kind"] != "pattern"]
    ctx.floor("function " + qn, len(fs), floor)
    return fs


def unroll_const_loops(f):
    """copy of f in which counted loops `for (i = c0; i < N; ...)` with constant
    c0 < N enter their body from the pre-header (first iteration is certain)"""
    f = copy.deepcopy(f)
    blocks = {b["id"]: b for b in f["blocks"]}
    for b in f["blocks"]:
        t = b.get("term") or {}
        if t.get("cls") not in ("ForStmt", "WhileStmt") or len(b.get("succ", [])) != 2:
            continue
        c = t.get("cond")
        if not (isinstance(c, dict) and c.get("k") == "bin" and c.get("op") in ("<", "!=", "<=")):
            continue
        var = S(c["l"])
        n = R.decide(c["r"], {})
        if n is None:
            continue
        for p in f["blocks"]:
            if p is b or p.get("succ") != [b["id"]]:
                continue
            init = None
            for e in p["ev"]:
                if e["k"] == "decl" and e["n"] == var and "init" in e:
                    init = R.decide(e["init"], {})
            if init is None:
                continue
            ok = (init < n) if c["op"] in ("<", "!=") else (init <= n)
            if ok and b["succ"][0] is not None:
                p["succ"] = [b["succ"][0]]
    return f


def atomic_on(kind, pathsub):
    def p(e):
        return e.get("k") == "atomic" and e["kind"] in kind and pathsub in (e.get("p") or "")
    return p


def run(ctx):
    ctx.explanation = EXPL
    fx = ctx.load("src")

    ctx.rule("C05.reset-before-release",
             "in wait(), the arrival counter / child flags are re-armed before the store that releases peers "
             "(a released peer may immediately enter the next phase)")
    ctx.rule("C05.flip-once", "the thread-local phase variable is updated exactly once on every path through wait()")
    ctx.rule("C05.wait-no-reinit", "no barrier's wait() calls reinit()/_reinit() (re-initialisation races with peers "
             "still inside wait)")
    ctx.rule("C05.reinit-covers-wait", "every member field written in wait() is initialised by _reinit()/reinit()")
    ctx.rule("C05.instance.reinit-iff-changed",
             "BarrierInstance::get clamps the count to [1, max usable], calls reinit exactly when the clamped count "
             "differs from the current one, and records the new count")
    ctx.rule("C05.pthread.rc", "PthreadBarrier::wait accepts only 0 and PTHREAD_BARRIER_SERIAL_THREAD")
    ctx.rule("C05.simple.generation",
             "OneWayBarrier::wait: state guarded by its mutex; the last arriver resets the count and advances the "
             "generation before notifying; the others wait for the generation to change")

    # ---------------------------------------------------------- Counting
    for f in fns(ctx, fx, AN + "CountingBarrier::wait"):
        fn = ctx.fn(f)
        rel = atomic_on({"store"}, "sense")
        rst = atomic_on({"store"}, "count")
        bad = fn.reaches_without(rel, rst)
        n = sum(1 for _ in fn.events(rel))
        ctx.ob("C05.reset-before-release", f["qn"], n >= 1 and not bad,
               "sense released at %s before count is reset" % [fn.loc(p) for p in bad], fn.loc(), "count", fnkey=f["key"])
        # the reset value is the participant count
        vals = {S(e["a"][0]) for _, e in fn.events(rst) if e.get("a")}
        ctx.ob("C05.reset-before-release", f["qn"], vals == {"this->num"},
               "count reset to %s, not num" % sorted(vals), fn.loc(), "count=num", fnkey=f["key"])
        flip_once(ctx, fn, f, lambda e: e.get("k") == "assign" and e.get("lp") == "lsense", "lsense")
        # releaser is the last arriver: release store guarded by (--count == 0)
        # accepted spellings of "I am the last arriver": the decremented value is 0 (`--count == 0`, `(count -= 1) == 0`,
        # `count.fetch_sub(1) - 1 == 0`) or the value before the decrement is 1 (`count-- == 1`, `count.fetch_sub(1) == 1`)
        def newval(t):
            s = S(t)
            return "count" in s and (s.startswith("--") or "-= 1" in s or re.search(r"fetch_sub\(1[^)]*\) - 1", s) is not None)

        def oldval(t):
            s = S(t)
            return "count" in s and (s.endswith("--") or re.search(r"fetch_sub\(1[^)]*\)$", s) is not None)

        def old_is_one(t):
            return isinstance(t, dict) and t.get("k") == "bin" and t.get("op") == "==" and \
                ((oldval(t["l"]) and S(t["r"]) == "1") or (oldval(t["r"]) and S(t["l"]) == "1"))
        ge = fn.guard_edges(newval, False) | fn.guard_edges(old_is_one, True)
        hits, _ = fn.search([fn.entry_state()], stop=rel, edge_ok=lambda b, i, s2: (b, i) not in ge)
        bad = hits
        ctx.ob("C05.reset-before-release", f["qn"], not bad, "sense is released by a thread that is not the last arriver",
               fn.loc(), "last-arriver", fnkey=f["key"])

    # --------------------------------------------------------------- MCS
    for f0 in fns(ctx, fx, AN + "MCSBarrier::wait"):
        f = unroll_const_loops(f0)
        fn = Fn(f)
        rst = atomic_on({"store"}, "childnotready")
        rel = lambda e: e.get("k") == "atomic" and e["kind"] == "store" and (
            "parentpointer" in e["p"] or "childpointers" in e["p"])
        bad = fn.reaches_without(rel, rst)
        n = sum(1 for _ in fn.events(rel))
        ctx.ob("C05.reset-before-release", f["qn"], n >= 3 and not bad,
               "parent/child released at %s before childnotready is re-armed" % [fn.loc(p) for p in bad], fn.loc(),
               "childnotready", fnkey=f["key"])
        vals = {S(e["a"][0]).split(".")[-1].split("[")[0] for _, e in fn.events(rst) if e.get("a")}
        ctx.ob("C05.reset-before-release", f["qn"], vals == {"havechild"},
               "childnotready re-armed from %s, not havechild" % sorted(vals), fn.loc(), "childnotready=havechild",
               fnkey=f["key"])
        # arrival is announced only after all children arrived: parent store after the spin loop on childnotready
        spin = atomic_on({"load"}, "childnotready")
        par = lambda e: e.get("k") == "atomic" and e["kind"] == "store" and "parentpointer" in e["p"]
        bad = fn.reaches_without(par, spin)
        ctx.ob("C05.reset-before-release", f["qn"], not bad, "arrival announced to the parent before waiting for the children",
               fn.loc(), "arrive-after-children", fnkey=f["key"])
        # children are released only after the parent released us
        wake = lambda e: e.get("k") == "atomic" and e["kind"] == "store" and "childpointers" in e["p"]
        psl = lambda t: "parentpointer" in S(t, fn.aliases())
        # on the path where a parent exists, the parentsense spin precedes the wake-ups
        ps = atomic_on({"load"}, "parentsense")
        ge = fn.guard_edges(psl, False)
        bad = fn.reaches_without(wake, ps, edge_ok=lambda b, i, s: (b, i) not in ge)
        ctx.ob("C05.reset-before-release", f["qn"], not bad, "children woken before this node was released by its parent",
               fn.loc(), "wake-after-release", fnkey=f["key"])
        flip_once(ctx, fn, f, lambda e: e.get("k") == "assign" and e.get("lp", "").endswith(".sense"), "sense")

    # -------------------------------------------------------------- Topo
    for f in fns(ctx, fx, AN + "TopoBarrier::wait"):
        fn = ctx.fn(f)
        al = fn.aliases()
        rst = lambda e: e.get("k") == "atomic" and e["kind"] == "store" and e["p"].endswith("childnotready") \
            and "parentpointer" not in e["p"]
        rel = lambda e: e.get("k") == "atomic" and (
            (e["kind"] == "rmw" and "parentpointer" in e["p"]) or
            (e["kind"] == "store" and "parentsense" in e["p"]))
        bad = fn.reaches_without_t(rel, rst, {"leader"})
        n = sum(1 for _ in fn.events(rel))
        ctx.ob("C05.reset-before-release", f["qn"], n >= 4 and not bad,
               "parent/children released at %s before childnotready is re-armed" % [fn.loc(p) for p in bad], fn.loc(),
               "childnotready", fnkey=f["key"])
        vals = {S(e["a"][0]).split(".")[-1] for _, e in fn.events(rst) if e.get("a")}
        ctx.ob("C05.reset-before-release", f["qn"], vals == {"havechild"},
               "childnotready re-armed from %s" % sorted(vals), fn.loc(), "childnotready=havechild", fnkey=f["key"])
        spin = lambda e: e.get("k") == "atomic" and e["kind"] == "load" and e["p"].endswith("childnotready")
        par = lambda e: e.get("k") == "atomic" and e["kind"] == "rmw" and "parentpointer" in e["p"]
        bad = fn.reaches_without(par, spin)
        ctx.ob("C05.reset-before-release", f["qn"], not bad, "arrival announced to the parent before the socket's threads arrived",
               fn.loc(), "arrive-after-children", fnkey=f["key"])
        # every thread arrives exactly once: leader decrements the parent's counter (if any), others their own
        arr = lambda e: e.get("k") == "atomic" and e["kind"] == "rmw" and e["aop"] == "operator--"
        leader_lit = lambda t: S(t, fn.defs()) in ("leader", "isLeader()") or "isLeader" in S(t, fn.defs())
        ge_nl = fn.guard_edges(leader_lit, True)
        ex = fn.exit_reachable_without(arr, edge_ok=lambda b, i, s: (b, i) not in ge_nl)
        ctx.ob("C05.reset-before-release", f["qn"], not ex, "a non-leader thread can leave wait() without arriving",
               fn.loc(), "non-leader-arrives", fnkey=f["key"])
        # wake-ups only after own release (threads other than 0 spin on parentsense first)
        wake = lambda e: e.get("k") == "atomic" and e["kind"] == "store" and "childpointers" in e["p"]
        ps = lambda e: e.get("k") == "atomic" and e["kind"] == "load" and e["p"].endswith("parentsense")
        idlit = lambda t: t.get("k") == "bin" and t.get("op") in ("!=", "==") and "id" in S(t)
        ge0 = fn.guard_edges(lambda t: S(t) == "id", False) | {
            (b, i) for (b, i) in set()}
        # edges on which id == 0 is known: `id != 0` false edge
        ge_id0 = set()
        for bid in fn.blocks:
            br = fn.branch(bid)
            if br is None:
                continue
            t, pol = br
            s = S(t)
            if s == "(id != 0)":
                ge_id0.add((bid, 1 if pol else 0))
            if s == "(id == 0)":
                ge_id0.add((bid, 0 if pol else 1))
            if s == "id":           # lit() strips `!= 0`
                ge_id0.add((bid, 1 if pol else 0))
        bad = fn.reaches_without(wake, ps, edge_ok=lambda b, i, s: (b, i) not in ge_id0)
        ctx.ob("C05.reset-before-release", f["qn"], not bad and bool(ge_id0),
               "children woken before this node was released (only thread 0 may skip the wait)", fn.loc(),
               "wake-after-release", fnkey=f["key"])
        flip_once(ctx, fn, f, lambda e: e.get("k") == "assign" and S(e.get("lhs"), al) in ("*this->sense.getLocal()", "s")
                  and e.get("op") in ("++", "+=", "="), "s")

    # ----------------------------------------------------- Dissemination
    for f in fns(ctx, fx, AN + "DisseminationBarrier::wait"):
        fn = ctx.fn(f)
        al = fn.aliases()
        par = lambda e: e.get("k") == "assign" and S(e.get("lhs"), al).endswith(".parity")
        flip_once(ctx, fn, f, par, "parity")
        vals = {S(e.get("rhs"), al) for _, e in fn.events(par)}
        ctx.ob("C05.flip-once", f["qn"], all(v.startswith("(1 - ") and v.endswith(".parity)") for v in vals) and vals,
               "parity updated to %s, not 1 - parity" % sorted(vals), fn.loc(), "parity-value", fnkey=f["key"])
        sen = lambda e: e.get("k") == "assign" and S(e.get("lhs"), al).endswith(".sense")
        plit = lambda t: t.get("k") == "bin" and t.get("op") == "==" and S(t, al).endswith(".parity == 1)")
        ge1 = fn.guard_edges(plit, True)
        ge0 = fn.guard_edges(plit, False)
        det = []
        if not ge1:
            det.append("no `parity == 1` test")
        if fn.guarded_positions(sen, plit, True):
            det.append("sense flipped on a path where parity != 1")
        if fn.exit_reachable_without(sen, edge_ok=lambda b, i, s: (b, i) not in ge0):
            det.append("sense not flipped on a path where parity == 1")
        if fn.reaches_without(par, sen, edge_ok=lambda b, i, s: (b, i) not in ge0):
            det.append("parity flipped before the sense test")
        ctx.ob("C05.flip-once", f["qn"], not det, "; ".join(det), fn.loc(), "sense", fnkey=f["key"])
        # each round signals the partner before waiting on the own flag, same parity slot and same sense value
        sig = lambda e: e.get("k") == "atomic" and e["kind"] == "store" and "partner->flag" in e["p"]
        wt = lambda e: e.get("k") == "atomic" and e["kind"] == "load" and ".flag[" in e["p"] and "partner" not in e["p"]
        det = []
        sigs, wts = list(fn.events(sig)), list(fn.events(wt))
        if len(sigs) != 1 or len(wts) != 1:
            det.append("expected one partner store and one own-flag load per round")
        else:
            if fn.reaches_without(wt, sig):
                det.append("waits on its own flag before signalling the partner")
            si = sigs[0][1]["p"].split("flag[")[-1]
            wi = wts[0][1]["p"].split("flag[")[-1]
            if si != wi:
                det.append("signal uses slot %s, wait uses slot %s" % (si, wi))
            r1 = sigs[0][1]["p"].split("myflags[")[1].split("]")[0]
            r2 = wts[0][1]["p"].split("myflags[")[1].split("]")[0]
            if r1 != r2:
                det.append("signal round %s != wait round %s" % (r1, r2))
        # the loop runs over all LogP rounds
        loops = [b for b in fn.blocks.values() if (b.get("term") or {}).get("cls") in ("ForStmt", "WhileStmt")]
        if len([b for b in loops if "LogP" in (b["term"].get("text") or "")]) != 1:
            det.append("round loop is not bounded by LogP")
        ctx.ob("C05.reset-before-release", f["qn"], not det, "; ".join(det), fn.loc(), "rounds", fnkey=f["key"])

    # ----------------------------------------------------------- Pthread
    # the shipped build does not define GALOIS_HAVE_PTHREAD (createPthreadBarrier returns null); the class is analysed
    # under that define so that it is covered whenever it is enabled
    fxp = ctx.load("pthreadbarrier", extra_flags=["-DGALOIS_HAVE_PTHREAD"])
    for f in fns(ctx, fxp, AN + "PthreadBarrier::wait"):
        fn = ctx.fn(f)
        w = is_call(name="pthread_barrier_wait")
        det = []
        if sum(1 for _ in fn.events(w)) != 1 or fn.exit_reachable_without(w):
            det.append("pthread_barrier_wait not called exactly once on every path")
        # a non-zero, non-serial code must die: normal exit unreachable when rc is neither
        holder = [e["n"] for _, e in fn.events(lambda e: e["k"] == "decl" and "pthread_barrier_wait" in (e.get("ip") or ""))]
        if not holder:
            det.append("return code dropped")
        else:
            rc = holder[0]
            for val, should_return in ((0, True), (-1, True), (5, False), (22, False)):
                eok = R.edges_under(fn, {rc: val, "PTHREAD_BARRIER_SERIAL_THREAD": -1})
                _, ex = fn.search([fn.entry_state()], edge_ok=eok)
                if ex != should_return:
                    det.append("rc=%d %s" % (val, "does not return" if should_return else "returns normally"))
        ctx.ob("C05.pthread.rc", f["qn"], not det, "; ".join(det), fn.loc(), "rc", fnkey=f["key"])

    # ------------------------------------------------------------ Simple
    for f in fns(ctx, fx, AN + "OneWayBarrier::wait"):
        fn = ctx.fn(f)
        res = L.analyse(fn)
        det = []
        O = AN + "OneWayBarrier::"
        for fld in ("count", "total", "generation"):
            bad = L.check_guarded(fn, res, O + fld, "lock")
            if bad:
                det.append("%s accessed without the mutex at %s" % (fld, [fn.loc(p) for p, _, _ in bad]))
        if res.problems:
            det.append("mutex pairing: %s" % res.problems[:2])
        if not res.locks_seen:
            det.append("no mutex taken")
        notify = is_call(name="notify_all")
        rst = lambda e: e.get("k") == "assign" and e.get("lp") == "this->count" and e.get("rp") == "0"
        gen = lambda e: e.get("k") == "assign" and e.get("lp") == "this->generation"
        if fn.reaches_without(notify, rst) or fn.reaches_without(notify, gen):
            det.append("waiters notified before count is reset / generation advanced")
        if not any(True for _ in fn.events(notify)):
            det.append("no notify_all")
        # the waiting predicate is the generation, captured before arriving
        waitc = is_call(name="wait", recv=r"cond$")
        if not any(True for _ in fn.events(waitc)):
            det.append("no condition wait")
        lam = [g for g in fx.functions if g.get("parent", "").startswith(f["qn"]) or
               g["qn"].startswith(f["qn"] + "::lambda")]
        if not lam or not any("generation" in S(e.get("e")) for g in lam for _, e in Fn(g).events(lambda e: e["k"] == "ret")):
            det.append("wait predicate does not test the generation")
        # exactly one of {release, wait} per call
        ctx.ob("C05.simple.generation", f["qn"], not det, "; ".join(det), fn.loc(), "generation", fnkey=f["key"])
    for f in fns(ctx, fx, AN + "SimpleBarrier::wait"):
        fn = ctx.fn(f)
        ws = [S(e.get("recv")) for _, e in fn.events(is_call(name="wait"))]
        ctx.ob("C05.simple.generation", f["qn"], ws == ["this->barrier1", "this->barrier2"] and
               not fn.exit_reachable_without(is_call(name="wait", recv="barrier2")),
               "SimpleBarrier::wait is not barrier1.wait(); barrier2.wait(): %s" % ws, fn.loc(), "two-phase",
               fnkey=f["key"])

    # ---------------------------------------------------- wait never reinit
    classes = ["CountingBarrier", "MCSBarrier", "TopoBarrier", "DisseminationBarrier",
               "OneWayBarrier", "SimpleBarrier"]
    reinit_like = lambda e: e.get("k") == "call" and e.get("name") in ("reinit", "_reinit")
    for c in classes:
        for f in fns(ctx, fx, AN + c + "::wait"):
            fn = ctx.fn(f)
            bad = [p for p, _ in fn.events(reinit_like)]
            ctx.ob("C05.wait-no-reinit", f["qn"], not bad, "wait() calls reinit at %s" % [fn.loc(p) for p in bad],
                   fn.loc(), "reinit", fnkey=f["key"])

    # ------------------------------------------------ reinit covers wait
    for c in ("CountingBarrier", "MCSBarrier", "TopoBarrier", "DisseminationBarrier"):
        w = fns(ctx, fx, AN + c + "::wait")
        r = fns(ctx, fx, AN + c + "::_reinit")
        if not w or not r:
            continue
        wf = written_fields(Fn(w[0]))
        rf = written_fields(Fn(r[0]))
        missing = sorted(wf - rf)
        ctx.ob("C05.reinit-covers-wait", AN + c + "::_reinit", not missing and bool(wf),
               "fields written by wait() but not initialised by _reinit(): %s" % missing, Fn(r[0]).loc(), "fields",
               fnkey=r[0]["key"])
        # public reinit forwards
        for f in fns(ctx, fx, AN + c + "::reinit"):
            fn = ctx.fn(f)
            ok = not fn.exit_reachable_without(is_call(name="_reinit"))
            ctx.ob("C05.reinit-covers-wait", f["qn"], ok, "reinit does not call _reinit", fn.loc(), "forward", fnkey=f["key"])

    # ------------------------------------------------------ BarrierInstance
    BI = "galois::substrate::internal::BarrierInstance::get"
    fs = [f for f in fx.functions if f["qn"] == BI and f["kind"] == "inst"]
    ctx.floor("BarrierInstance::get", len(fs), 1)
    for f in fs[:1]:
        fn = ctx.fn(f)
        det = []
        ri = is_call(name="reinit")
        chg = lambda t: t.get("k") == "bin" and t.get("op") == "!=" and "m_num_threads" in S(t)
        if fn.guarded_positions(ri, chg, True):
            det.append("reinit reachable when the count did not change")
        ge = fn.guard_edges(chg, False)
        if fn.exit_reachable_without(ri, edge_ok=lambda b, i, s: (b, i) not in ge):
            det.append("count changed but no reinit")
        rec = lambda e: e.get("k") == "assign" and e.get("lp") == "this->m_num_threads"
        if fn.exit_reachable_without(rec, edge_ok=lambda b, i, s: (b, i) not in ge):
            det.append("new count not recorded")
        args = {S(e["a"][0]) for _, e in fn.events(ri) if e.get("a")}
        if args != {"numT"}:
            det.append("reinit argument %s" % sorted(args))
        clamp = [e for _, e in fn.events(lambda e: e.get("k") == "assign" and e.get("lp") == "numT")]
        txt = " ".join(e.get("rp") or "" for e in clamp)
        if "min(" not in txt or "getMaxUsableThreads" not in txt or "max(" not in txt:
            det.append("count not clamped to [1, max usable]")
        ctx.ob("C05.instance.reinit-iff-changed", BI, not det, "; ".join(det), fn.loc(), "reinit", fnkey=f["key"])

    # ------------------------------------------------------- memory orders
    mo.check_rows(ctx, fx, "C05", mo.BARRIER_ROWS, floor=30)
    tbl = [r for r in mo.MUST_BE_ATOMIC if "Barrier" in r[0]]
    mo.check_atomic_fields(ctx, fx, "C05", tbl)


def flip_once(ctx, fn, f, pred, name):
    det = []
    evs = list(fn.events(pred))
    if not evs:
        det.append("no update of %s" % name)
    if fn.exit_reachable_without(pred):
        det.append("a path through wait() does not update %s" % name)
    for p, _ in evs:
        h, _ = fn.search([fn.after(p)], stop=pred)
        if h:
            det.append("%s updated twice on one path" % name)
    ctx.ob("C05.flip-once", f["qn"], not det, "; ".join(sorted(set(det))), fn.loc(), name, fnkey=f["key"])


def written_fields(fn):
    """names of member fields (of any record) written in fn: assignments and atomic stores/RMWs"""
    al = fn.aliases()
    out = set()

    ptr_map = {"parentpointer": "childnotready", "childpointers": "parentsense"}

    def private_copy(t):
        """does the access path start at a local object held by value (neither reference, pointer nor alias)?"""
        hops = 0
        while isinstance(t, dict) and hops < 12:
            hops += 1
            k = t.get("k")
            if k in ("mem", "idx"):
                t = t.get("b")
                continue
            if k == "cast":
                t = t.get("e")
                continue
            if k == "ref":
                ty = t.get("t") or {}
                return t.get("vk") == "local" and t.get("n") not in al and not ty.get("ref") and not ty.get("ptr")
            return False
        return False

    def fields_of(t):
        # outermost member of the written object; a store *through* a pointer member designates the pointee's field
        cur = t
        hops = 0
        deref = False
        while isinstance(cur, dict) and hops < 12:
            hops += 1
            k = cur.get("k")
            if k == "mem":
                if private_copy(cur.get("b")):
                    return None        # a field of a by-value local (`for (auto n : flags) n.flag = 0`): not the barrier's state
                return ptr_map.get(cur["n"], cur["n"]) if deref else cur["n"]
            if k == "idx":
                cur = cur["b"]
                continue
            if k == "un" and cur.get("op") == "*":
                deref = True
                cur = cur["e"]
                continue
            if k == "ref" and cur.get("n") in al:
                cur = al[cur["n"]]
                continue
            if k == "call" and cur.get("recv") is not None:
                cur = cur["recv"]
                continue
            if k == "cast":
                cur = cur["e"]
                continue
            return None
        return None
    for _, e in fn.events():
        if e["k"] == "assign":
            n = fields_of(e.get("lhs"))
            if n:
                out.add(n)
        elif e["k"] == "atomic" and e["kind"] in ("store", "rmw", "cas"):
            n = fields_of(e.get("obj"))
            if n:
                out.add(n)
    return out
