"""C14 - sequential containers (narrow, structural clauses)."""
import re
from collections import deque

from gsa.cfg import Fn, S, SN, is_call, walk, lit
from gsa import rules as R
from gsa.layout import Interp, Poly

EXPL = ("narrow: structural necessary conditions of container correctness, on every CFG path of the container instantiations "
        "of the driver matrix (gdeque, FixedSizeRing, FixedSizeBag sequential and concurrent, gslist sequential and "
        "concurrent, optional, InsertBag, LazyArray/LazyObject users) and on the uninstantiated template patterns: every "
        "next/prev link assignment is matched by the mirror assignment on the same path whenever the neighbour is non-null; "
        "element construction/destruction is paired one-to-one with the size counter update on every path; the concurrent and "
        "sequential variants construct at the old count and destroy the slot equal to the new count; singly linked block "
        "lists link before publishing; every value-returning member returns a value on all paths (patterns included, because "
        "never-instantiated members matter here); optional constructs/destroys exactly with its initialised flag. Equivalence "
        "with the standard containers for all operation histories is a value-level property and is not decided.")

G = "galois::"
FILES = ("gdeque.h", "FixedSizeRing.h", "gslist.h", "FlatMap.h", "PODResizeableArray.h", "LazyArray.h", "LazyObject.h",
         "optional.h", "PriorityQueue.h", "Bag.h", "TwoLevelIterator.h", "TwoLevelIteratorA.h", "LargeArray.h", "CopyableTuple.h")


def run(ctx):
    ctx.explanation = EXPL
    fx = ctx.load("drv_containers", "drv_foreach")
    links(ctx, fx)
    counters(ctx, fx)
    variants(ctx, fx)
    returns(ctx)
    optional_(ctx, fx)
    iterator_reseat(ctx, fx)
    two_level(ctx, fx)
    bag_header_gap(ctx, fx)
    ring_steps(ctx, fx)


def bag_header_gap(ctx, fx):
    ctx.rule("C14.bag.first-slot-behind-header",
             "InsertBag::newHeaderFromHeap carves a block out of a raw page: header first, elements behind it. By symbolic "
             "interpretation of every instantiation (byte offsets from the page start; the driver instantiates one bag per "
             "element size 1..40, the header being 32 bytes): the first element slot starts at or behind the end of the "
             "header, less than one element (rounded up to whole slots) further than necessary, so constructing element 0 can "
             "never overwrite the header's own end-of-block pointer. For element sizes above the header's size the folded "
             "expressions are the same as for size 33 (the quotient is 0 and every comparison with the header's size has the "
             "same outcome), so 1..40 is exhaustive")
    fs = [f for f in fx.functions if f["qn"] == G + "InsertBag::newHeaderFromHeap" and f["kind"] == "inst"]
    sizes = set()
    for f in fs:
        fn = ctx.fn(f)
        det = []
        hdr = esz = None
        for b in fn.blocks.values():
            for e in b.get("ev", []):
                for x in walk(e):
                    if isinstance(x, dict) and x.get("k") == "sizeof" and "c" in x and not isinstance(x["c"], dict):
                        if "::header" in S(x):
                            hdr = int(x["c"])
        dl = [e for _, e in fn.events(lambda e: e.get("k") == "assign" and e.get("lp") == "H->dlast")]
        for e in dl:
            for x in walk(e.get("rhs")):
                if isinstance(x, dict) and x.get("k") == "sizeof" and "c" in x and not isinstance(x["c"], dict) and "::header" not in S(x):
                    esz = int(x["c"])
        # the element type: what the raw page pointer is cast to
        rec = None
        for _, e in fn.events(lambda e: e.get("k") == "decl" and "init" in e):
            for x in walk(e["init"]):
                if isinstance(x, dict) and x.get("k") == "cast" and (x.get("tt") or {}).get("ptr") and (x.get("tt") or {}).get("rec"):
                    rec = x["tt"]["rec"]
        vals = set()
        if esz is not None:
            it = Interp(fn, {"m": Poly.sym("M")}, {}, lambda e: e.get("k") == "assign" and e.get("lp") == "H->dbegin", max_paths=16,
                        esz_of={rec: esz})
            for st, obs in it.run():
                for o in obs:
                    v = o.get("value")
                    vals.add(v.p if v is not None else None)
        if hdr is None or esz is None:
            det.append("header / element size not found (header %s, element %s)" % (hdr, esz))
        elif len(vals) != 1 or None in vals:
            det.append("first slot is not a single byte offset from the page start: %s" % sorted(map(str, vals)))
        else:
            off = (list(vals)[0] - Poly.sym("M"))
            if not off.is_const():
                det.append("first slot at %s" % list(vals)[0])
            else:
                k = off.cval()
                sizes.add(esz)
                if k < hdr:
                    det.append("element size %d: the first slot starts %d bytes into the block, inside the %d-byte header: "
                               "constructing element 0 overwrites the header's end-of-block pointer and the block never "
                               "looks full" % (esz, k, hdr))
                elif k % esz or k - hdr >= 2 * esz:
                    det.append("element size %d: first slot at byte %d (header %d bytes)" % (esz, k, hdr))
        ctx.ob("C14.bag.first-slot-behind-header", G + "InsertBag::newHeaderFromHeap", not det, "; ".join(det), fn.loc(),
               "T=%s bytes" % esz, fnkey=f["key"])
    ctx.floor("InsertBag element sizes analysed", len(sizes), 40)


def _tpoly(t):
    """expression -> polynomial over the names it mentions (constants folded by the front end count as constants)"""
    if not isinstance(t, dict):
        return None
    k = t.get("k")
    if k == "int":
        return Poly.const(t["v"])
    if "c" in t and not isinstance(t.get("c"), dict) and k in ("ref", "mem", "sizeof"):
        try:
            return Poly.const(int(t["c"]))
        except (TypeError, ValueError):
            pass
    if k in ("cast", "paren"):
        return _tpoly(t.get("e"))
    if k in ("ref", "mem"):
        return Poly.sym(S(t))
    if k == "bin" and t.get("op") in ("+", "-", "*"):
        a, b = _tpoly(t["l"]), _tpoly(t["r"])
        if a is None or b is None:
            return None
        return a + b if t["op"] == "+" else a - b if t["op"] == "-" else a * b
    return None


def ring_steps(ctx, fx):
    ctx.rule("C14.ring.modular-step-never-subtracts",
             "circular containers (FixedSizeRing and what is built on it): an index that is moved with `v = (v ...) % M` is "
             "never moved by a negative amount -- stepping back is written v + M - 1, not v - 1: for an unsigned index `0 - 1` "
             "wraps to 2^32 - 1, and (2^32 - 1) % M is M - 1 only when M is a power of two (for a signed one the result is "
             "negative). Compared as polynomials on every instantiation (the chunk size is a constant there)")
    n = 0
    for f in fx.functions:
        if f["kind"] == "pattern" or not re.search(r"galois/(FixedSizeRing|gdeque|gslist|Bag)\.h$", f["file"]):
            continue
        sites = []
        for b in f.get("blocks", []):
            for e in b["ev"]:
                if e.get("k") == "assign" and e.get("op") == "=" and e.get("lp"):
                    r = e.get("rhs")
                    while isinstance(r, dict) and r.get("k") in ("cast", "paren"):
                        r = r.get("e")
                    # chained assignment i = start = (..) % M: the inner assignment is its own event
                    if isinstance(r, dict) and r.get("k") == "bin" and r.get("op") == "%":
                        sites.append((e, r))
        for e, r in sites:
            left = _tpoly(r["l"])
            if left is None:
                continue
            v = Poly.sym(e["lp"])
            if (e["lp"],) not in left.t:
                continue            # not a self-update (an index computed from other values)
            n += 1
            delta = left - v
            neg = {m: c for m, c in delta.t.items() if c < 0}
            ctx.ob("C14.ring.modular-step-never-subtracts", f["qn"], not neg,
                   "%s = (%s) %% %s moves the index by %s: when %s is 0 the subtraction wraps before the modulo is taken and "
                   "the index lands on the wrong slot for every chunk size that is not a power of two" % (
                       e["lp"], S(r["l"]), S(r["r"]), delta, e["lp"]),
                   "%s:%s" % (f["file"], e.get("l")), "%s@%s" % (e["lp"], e.get("l")), fnkey=f["key"])
    ctx.floor("modular index self-updates in the ring containers", n, 8)


def iterator_reseat(ctx, fx):
    ctx.rule("C14.vector-backed.iterator-reseated",
             "containers that sit on a std::vector (flat_map): a positional insert / emplace / erase on the vector invalidates "
             "the iterator passed to it (the vector may reallocate, and elements shift), so on every path that iterator variable "
             "is assigned again (normally from the call's result) before it is read, returned or dereferenced")
    n = 0
    for f in fx.functions:
        if f["kind"] == "pattern" or not f["file"].endswith("galois/FlatMap.h"):
            continue
        fn = None
        for b in f.get("blocks", []):
            for e in b["ev"]:
                if e.get("k") == "call" and e.get("name") in ("insert", "emplace", "erase") and \
                        S(e.get("recv") or {}).endswith("_data") and e.get("a"):
                    a0 = e["a"][0]
                    while isinstance(a0, dict) and a0.get("k") in ("ctor", "cast") and (a0.get("a") or a0.get("e")):
                        a0 = a0["a"][0] if a0.get("k") == "ctor" else a0["e"]
                    if not (isinstance(a0, dict) and a0.get("k") == "ref" and a0.get("vk") == "local"):
                        continue
                    x = a0["n"]
                    fn = fn or ctx.fn(f)
                    n += 1
                    pos = [p for p, e2 in fn.events(lambda e2: e2 is e)]
                    if not pos:
                        continue
                    kill = lambda e2, x=x: (e2.get("k") == "assign" and e2.get("lp") == x and e2.get("op") == "=") or \
                        (e2.get("k") == "call" and e2.get("op") == "=" and S(e2.get("recv") or {}) == x) or \
                        (e2.get("k") == "decl" and e2.get("n") == x)

                    def uses(e2, x=x):
                        if kill(e2):
                            return False
                        return any(isinstance(y, dict) and y.get("k") == "ref" and y.get("n") == x for y in walk(e2))
                    hits, _ = fn.search([fn.after(pos[0])], stop=lambda e2: kill(e2) or uses(e2))
                    bad = [q for q in hits if uses(fn.ev(q))]
                    ctx.ob("C14.vector-backed.iterator-reseated", f["qn"], not bad,
                           "`%s` is passed to _data.%s at line %s and used again at line %s without being re-seated from the "
                           "call's result: after a reallocation it dangles" % (
                               x, e.get("name"), e.get("l"), fn.ev(bad[0]).get("l") if bad else "?"),
                           "%s:%s" % (f["file"], e.get("l")), "%s@%s" % (x, e.get("l")), fnkey=f["key"])
    ctx.floor("positional vector mutations in flat_map", n, 2)


def two_level(ctx, fx):
    ctx.rule("C14.twolevel.backward-boundary",
             "TwoLevelIteratorA (forward, bidirectional and random-access instantiations): seek_backward() positions at the end of "
             "the first non-empty inner range at or before the current outer position, so whenever it is used to leave a range "
             "the outer iterator is stepped back first (safe_decrement(m_outer, ..)) on every path; the base iterator is moved "
             "backwards inside a range only by an amount a preceding comparison bounds by the number of elements in front of it; "
             "jump_backward crosses a range boundary only through decrement()")
    TL = "galois::TwoLevelIteratorA::"
    fs = [f for f in fx.functions if f["qn"].startswith(TL) and f["kind"] == "inst"]
    names = {f["name"] for f in fs}
    if not {"decrement", "jump_backward", "seek_backward", "jump_forward"} <= names:
        ctx.broken("TwoLevelIteratorA: decrement / jump_backward / seek_backward / jump_forward are not all instantiated (%s)" % sorted(names))
        return
    n = 0
    for f in fs:
        if f["name"] not in ("decrement", "jump_backward"):
            continue
        fn = ctx.fn(f)
        al = fn.aliases()
        sb = is_call(name="seek_backward")
        step = lambda e: e.get("k") == "call" and e.get("name") == "safe_decrement" and e.get("a") and S(e["a"][0], al).endswith("m_outer")
        det = []
        if fn.reaches_without(sb, step):
            det.append("seek_backward() reachable without stepping the outer iterator back first: it jumps to the end of the "
                       "CURRENT inner range")
        if f["name"] == "jump_backward":
            # negative advance of the base iterator only under a bound n <= k
            adv = lambda e: e.get("k") == "call" and e.get("name") == "advance" and len(e.get("a", [])) == 2 and \
                S(e["a"][1], al).startswith("-")
            for p, e in fn.events(adv):
                amount = S(e["a"][1], al)[1:]
                if amount in ("k",):
                    continue        # moving to the first element of the range: k is the distance to it by definition
                bound = lambda t, amount=amount: isinstance(t, dict) and t.get("k") == "bin" and t.get("op") in ("<=", "<", ">=", ">") and \
                    amount in (S(t.get("l"), al), S(t.get("r"), al)) and "k" in (S(t.get("l"), al), S(t.get("r"), al))
                ge = fn.guard_edges(lambda t: bound(t) and SN(t, al) in ("(%s <= k)" % amount,), True) | \
                    fn.guard_edges(lambda t: bound(t) and SN(t, al) in ("(k < %s)" % amount,), False)
                hits, _ = fn.search([fn.entry_state()], stop=lambda x: x is e, edge_ok=lambda b, i, s2: (b, i) not in ge)
                if hits:
                    det.append("the base iterator is moved back by %s (line %s) on a path where %s may exceed the elements in front "
                               "of it" % (amount, e.get("l"), amount))
            kd = fn.defs().get("k") or None
            kinit = [S(e2.get("init"), al) for _, e2 in fn.events(lambda e2: e2.get("k") == "decl" and e2.get("n") == "k")]
            if not kinit or any("+ 1" in x for x in kinit) or not all("distance(" in x for x in kinit):
                det.append("k is %s, expected the number of elements in front of the current one (distance(begin, base))" % kinit)
        n += 1
        ctx.ob("C14.twolevel.backward-boundary", f["qn"], not det, "; ".join(det), fn.loc(), f["key"][-60:], fnkey=f["key"])
    ctx.floor("TwoLevelIteratorA decrement/jump_backward instantiations", n, 2)


# ---------------------------------------------------------------- LINK
def accompanied(fn, a_ev, is_b, null_lit=None):
    """on every entry->exit path that executes event a_ev there is an event satisfying is_b (before or after), unless the
    literal null_lit is known false (null) on that path. Returns True when the obligation holds."""
    al = fn.aliases()
    br = {}
    if null_lit is not None:
        for bid in fn.blocks:
            b = fn.branch(bid)
            if b is not None and S(b[0], al) == null_lit:
                br[bid] = b[1]
    seen = set()
    dq = deque([(fn.entry, 0, False, False, None)])      # block, idx, passed a, seen b, known null-lit value
    while dq:
        bid, idx, pa, sb, kn = dq.popleft()
        if (bid, idx, pa, sb, kn) in seen:
            continue
        seen.add((bid, idx, pa, sb, kn))
        b = fn.blocks.get(bid)
        if b is None:
            continue
        for i in range(idx, len(b["ev"])):
            e = b["ev"][i]
            if e is a_ev:
                pa = True
            elif is_b(e):
                sb = True
            elif null_lit is not None and e.get("k") == "assign" and S(e.get("lhs"), al) == null_lit and not (e is a_ev):
                kn = None
        if bid == fn.exit:
            if pa and not sb and kn is not False:
                return False
            continue
        if b.get("noreturn"):
            continue
        for i, s in fn.succs(bid):
            k2 = kn
            if bid in br:
                val = br[bid] if i == 0 else (not br[bid])
                if kn is not None and kn != val:
                    continue
                k2 = val
            dq.append((s, 0, pa, sb, k2))
    return True


def links(ctx, fx):
    ctx.rule("C14.link.mirror",
             "doubly linked blocks (gdeque): every assignment X->next = Y (resp. X->prev = Y) with Y possibly non-null is matched "
             "on the same path by Y->prev = X (resp. Y->next = X); unlinking updates both neighbours")
    cls = G + "gdeque"
    fs = [f for f in fx.functions if f.get("cls") == cls and f["kind"] == "inst" and
          f["name"] in ("extend_first", "extend_last", "shrink", "emplace", "clear", "pop_back", "pop_front")]
    ctx.floor("gdeque linking functions", len(fs), 6)
    nlinks = 0
    seen = set()
    for f in fs:
        if (f["name"], len(f["params"])) in seen:
            continue
        fn = ctx.fn(f)
        al = fn.aliases()
        link_evs = []
        for pos, e in fn.events(lambda e: e.get("k") == "assign" and e.get("op") == "="):
            lp = e.get("lp", "")
            m = re.match(r"^(.*)->(next|prev)$", lp)
            if not m:
                continue
            link_evs.append((pos, e, m.group(1), m.group(2)))
        if not link_evs:
            continue
        seen.add((f["name"], len(f["params"])))
        det = []
        for pos, e, L, fld in link_evs:
            Rr = e.get("rp")
            if Rr in ("0", "nullptr", "NULL"):
                continue
            if L == "%s->%s" % (Rr, "prev" if fld == "next" else "next"):
                continue    # X->next->prev = X: the owner is spelled through the mirror field; it is the mirror itself
            nlinks += 1
            other = "prev" if fld == "next" else "next"
            # counterpart: R->other = L, where R may be spelled as the rhs or as L->fld (the location just assigned)
            lhs_ok = {"%s->%s" % (Rr, other), "%s->%s->%s" % (L, fld, other)}

            def is_b(x, lhs_ok=lhs_ok, L=L):
                return x.get("k") == "assign" and x.get("op") == "=" and x.get("lp") in lhs_ok and x.get("rp") == L
            # the neighbour may be null: literal is the rhs expression or the assigned location
            ok = accompanied(fn, e, is_b, null_lit=Rr) or accompanied(fn, e, is_b, null_lit="%s->%s" % (L, fld))
            if not ok:
                det.append("%s = %s at line %s has no mirror %s->%s = %s on the same path" % (
                    e["lp"], Rr, e.get("l"), Rr, other, L))
        ctx.ob("C14.link.mirror", cls + "::" + f["name"], not det, "; ".join(det[:3]), fn.loc(), "links", fnkey=f["key"])
    ctx.floor("gdeque link assignments checked", nlinks, 6)
    # first/last maintenance in extend_* and shrink
    ctx.rule("C14.link.ends", "gdeque: extend_first/extend_last publish the new block as first/last (and as the other end when the deque "
             "was empty); shrink moves first/last off the removed block before freeing it")
    for f in [g for g in fx.functions if g.get("cls") == cls and g["kind"] == "inst" and g["name"] in ("extend_first", "extend_last")][:2]:
        fn = ctx.fn(f)
        end = "first" if f["name"] == "extend_first" else "last"
        oth = "last" if end == "first" else "first"
        a = lambda e: e.get("k") == "assign" and e.get("lp") == "this->" + end and e.get("rp") == "b"
        o = lambda e: e.get("k") == "assign" and e.get("lp") == "this->" + oth and e.get("rp") == "b"
        ol = lambda t: S(t) == "this->" + oth
        ok = not fn.exit_reachable_without(a) and not fn.guarded_positions(o, ol, False)
        ge = fn.guard_edges(ol, True)
        ok = ok and not fn.exit_reachable_without(o, edge_ok=lambda b, i, s: (b, i) not in ge)
        ctx.ob("C14.link.ends", cls + "::" + f["name"], ok, "new block not published as %s / as %s of an empty deque" % (end, oth),
               fn.loc(), end, fnkey=f["key"])
    for f in [g for g in fx.functions if g.get("cls") == cls and g["kind"] == "inst" and g["name"] == "shrink"][:1]:
        fn = ctx.fn(f)
        fr = is_call(name="free_block")
        det = []
        for end, nb in (("first", "b->next"), ("last", "b->prev")):
            mv = lambda e, end=end, nb=nb: e.get("k") == "assign" and e.get("lp") == "this->" + end and e.get("rp") == nb
            isend = lambda t, end=end: S(t) in ("(b == this->%s)" % end, "(this->%s == b)" % end)
            ge = fn.guard_edges(isend, False)
            if fn.reaches_without(fr, mv, edge_ok=lambda b, i, s: (b, i) not in ge) or not ge:
                det.append("%s not moved off the removed block before it is freed" % end)
        ctx.ob("C14.link.ends", cls + "::shrink", not det, "; ".join(det), fn.loc(), "shrink", fnkey=f["key"])


# ------------------------------------------------------------- counters
def counters(ctx, fx):
    ctx.rule("C14.count.paired",
             "on every path through a container mutator, an element construction (datac.emplace / construct / placement new) is "
             "accompanied by exactly one size-counter increment and a destruction by one decrement (clear: destroy all, then "
             "counter = 0)")
    specs = [
        # class, counter path regex, construct names, destroy names
        (G + "FixedSizeRing", r"^this->count$", {"emplace", "construct"}, {"destroy"}),
        (G + "FixedSizeBagBase", r"^this->count$", {"emplace", "construct"}, {"destroy"}),
    ]
    n = 0
    for cls, cre, cons, dest in specs:
        fs = [f for f in fx.functions if f.get("cls") == cls and f["kind"] == "inst"]
        ctx.floor("members of " + cls, len(fs), 10)
        seen = set()
        for f in fs:
            key = (f["name"], len(f["params"]), "atomic" if "true>" in f["clsk"] else "plain", f.get("const", False))
            if key in seen or f.get("ctor") or f.get("dtor"):
                continue
            fn = ctx.fn(f)
            is_c = lambda e: e.get("k") == "call" and e.get("name") in cons and (e.get("rp") or "").endswith("datac")
            is_d = lambda e: e.get("k") == "call" and e.get("name") in dest and (e.get("rp") or "").endswith("datac")
            inc = lambda e: (e.get("k") == "assign" and re.search(cre, e.get("lp", "")) and e.get("op") in ("++", "+=")) or \
                (e.get("k") == "atomic" and re.search(cre, e.get("p", "")) and e["kind"] in ("rmw", "cas") and
                 (e["aop"] in ("operator++", "fetch_add") or (e["kind"] == "cas" and "+ 1" in S(e["a"][1] if len(e.get("a", [])) > 1 else None))))
            dec = lambda e: (e.get("k") == "assign" and re.search(cre, e.get("lp", "")) and e.get("op") in ("--", "-=")) or \
                (e.get("k") == "atomic" and re.search(cre, e.get("p", "")) and e["kind"] in ("rmw", "cas") and
                 (e["aop"] in ("operator--", "fetch_sub") or (e["kind"] == "cas" and "- 1" in S(e["a"][1] if len(e.get("a", [])) > 1 else None))))
            zero = lambda e: (e.get("k") == "assign" and re.search(cre, e.get("lp", "")) and e.get("op") == "=" and e.get("rp") == "0") or \
                (e.get("k") == "atomic" and re.search(cre, e.get("p", "")) and e["kind"] == "store" and S(e["a"][0]) == "0")
            cs, ds = list(fn.events(is_c)), list(fn.events(is_d))
            incs, decs = list(fn.events(inc)), list(fn.events(dec))
            if not (cs or ds or incs or decs):
                continue
            seen.add(key)
            n += 1
            det = []
            in_loop = lambda p: bool(fn.search([fn.after(p)], stop=lambda x: x is fn.ev(p))[0])
            def same_slot(pred, e0):
                i0 = S(e0["a"][0]) if e0.get("a") else None
                return lambda x: pred(x) and x.get("a") and S(x["a"][0]) == i0
            is_cas = lambda e: e.get("k") == "atomic" and e["kind"] == "cas"
            isc_lit = lambda t: t.get("k") == "call" and (t.get("name") or "").startswith("compare_exchange")

            def after_success(e, pred):
                """a CAS only changes the counter on its success edge: from there pred must follow before the exit"""
                ok = True
                for (b, i) in fn.guard_edges(isc_lit, True):
                    s2 = fn.blocks[b]["succ"][i]
                    if s2 is not None and fn.exit_reachable_without(pred, starts=[(s2, 0)]):
                        ok = False
                return ok
            for p, e in cs:
                if not accompanied(fn, e, lambda x: inc(x) or same_slot(is_d, e)(x)):
                    det.append("construction at line %s without a counter increment (or a replaced slot) on the same path" % e.get("l"))
            for p, e in incs:
                if is_cas(e):
                    if not after_success(e, is_c):
                        det.append("count raised by the CAS at line %s but no construction follows" % e.get("l"))
                elif not accompanied(fn, e, is_c):
                    det.append("counter increment at line %s without a construction on the same path" % e.get("l"))
            for p, e in ds:
                if in_loop(p):
                    if not accompanied(fn, e, zero):
                        det.append("destroy loop at line %s not followed by counter = 0" % e.get("l"))
                elif not accompanied(fn, e, lambda x: dec(x) or same_slot(is_c, e)(x)):
                    det.append("destruction at line %s without a counter decrement (or re-construction of the slot) on the same path" % e.get("l"))
            for p, e in decs:
                if is_cas(e):
                    if not after_success(e, is_d):
                        det.append("count lowered by the CAS at line %s but no destruction follows" % e.get("l"))
                elif not accompanied(fn, e, is_d):
                    det.append("counter decrement at line %s without a destruction on the same path" % e.get("l"))
            ctx.ob("C14.count.paired", cls + "::" + f["name"], not det, "; ".join(det[:3]), fn.loc(),
                   "%s/%s" % (key[2], key[1]), fnkey=f["key"])
    ctx.floor("container mutators with counter obligations", n, 10)
    # gdeque::num
    cls = G + "gdeque"
    for nm, delta, callee in (("pop_back", "--", "pop_back"), ("pop_front", "--", "pop_front"), ("emplace", "++", "emplace")):
        fs = [f for f in fx.functions if f.get("cls") == cls and f["kind"] == "inst" and f["name"] == nm and
              (nm != "emplace" or len(f["params"]) >= 2 and f["params"][0]["n"] == "b")]
        for f in fs[:1]:
            fn = ctx.fn(f)
            cnt = lambda e: e.get("k") == "assign" and e.get("lp") == "this->num" and e.get("op") == delta
            elem = lambda e: e.get("k") == "call" and e.get("name") == callee and (e.get("cls") or "") != cls
            det = []
            cl, el = list(fn.events(cnt)), list(fn.events(elem))
            if len(cl) != 1:
                det.append("num %s sites: %d" % (delta, len(cl)))
            if not el:
                det.append("no element %s" % callee)
            for _, e in cl:
                if not accompanied(fn, e, elem):
                    det.append("num changed without the element operation")
            for _, e in el:
                if not accompanied(fn, e, cnt):
                    det.append("element operation without num update")
            ctx.ob("C14.count.paired", cls + "::" + nm, not det, "; ".join(det), fn.loc(), "num", fnkey=f["key"])
    # InsertBag: dend advanced after construction / retreated after destruction
    for f in [g for g in fx.functions if g["qn"] == G + "InsertBag::emplace" and g["kind"] == "inst"][:2]:
        fn = ctx.fn(f)
        new = lambda e: e.get("k") == "new" and any("dend" in S(a) for a in e.get("place", []))
        adv = lambda e: e.get("k") == "assign" and e.get("lp") == "H->dend" and e.get("op") == "++"
        full = lambda t: S(t) == "(H->dend == H->dlast)"
        det = []
        if fn.exit_reachable_without(new) or fn.exit_reachable_without(adv) or fn.reaches_without(adv, new):
            det.append("element not constructed at dend and dend then advanced on every path")
        nh = is_call(name="newHeader")
        ge = fn.guard_edges(full, False)
        if fn.reaches_without(new, nh, edge_ok=lambda b, i, s: (b, i) not in ge) or not ge:
            det.append("a full block is written without allocating a new one")
        ih = is_call(name="insHeader")
        for p, _ in fn.events(nh):
            if not fn.must_follow(p, ih):
                det.append("new block not linked into the thread's list")
        ctx.ob("C14.count.paired", G + "InsertBag::emplace", not det, "; ".join(det), fn.loc(), "dend", fnkey=f["key"])
    for f in [g for g in fx.functions if g["qn"] == G + "InsertBag::pop" and g["kind"] == "inst"][:2]:
        fn = ctx.fn(f)
        de = lambda e: e.get("k") == "call" and e.get("name") == "uninitialized_destroy"
        dc = lambda e: e.get("k") == "assign" and e.get("lp") == "H->dend" and e.get("op") == "--"
        emp = lambda t: S(t) == "(H->dbegin == H->dend)"
        det = []
        if fn.exit_reachable_without(de) or fn.exit_reachable_without(dc):
            det.append("pop does not destroy the last element and retreat dend")
        if fn.guarded_positions(de, emp, False):
            det.append("pop from an empty block is not rejected")
        args = [[S(a) for a in e.get("a", [])] for _, e in fn.events(de)]
        if args != [["(H->dend - 1)", "H->dend"]]:
            det.append("destroyed range %s" % args)
        ctx.ob("C14.count.paired", G + "InsertBag::pop", not det, "; ".join(det), fn.loc(), "dend", fnkey=f["key"])


# -------------------------------------------------------------- variants
def variants(ctx, fx):
    ctx.rule("C14.variant.slot",
             "FixedSizeBag: both the concurrent (CAS) and the sequential variant construct the pushed element at the old count and "
             "destroy the slot whose index equals the new count")
    cls = G + "FixedSizeBagBase"
    n = 0
    for f in [g for g in fx.functions if g.get("cls") == cls and g["kind"] == "inst" and g["name"] in ("pop_front", "push_front", "emplace_front")]:
        fn = ctx.fn(f)
        conc = ", true>" in f["clsk"]
        det = []
        if f["name"] == "pop_front":
            d = [e for _, e in fn.events(lambda e: e.get("k") == "call" and e.get("name") == "destroy")]
            if len(d) != 1:
                continue
            n += 1
            idx = S(d[0]["a"][0])
            if conc:
                cas = [e for _, e in fn.events(lambda e: e.get("k") == "atomic" and e["kind"] == "cas")]
                newv = S(cas[0]["a"][1]) if cas and len(cas[0].get("a", [])) > 1 else None
                if idx != newv:
                    det.append("destroys slot %s but the new count is %s" % (idx, newv))
                # destroy only after the CAS succeeded
                isc = lambda t: t.get("k") == "call" and (t.get("name") or "").startswith("compare_exchange")
                if fn.guarded_positions(lambda e: e is d[0], isc, True):
                    det.append("slot destroyed without winning the CAS")
            else:
                if idx != "--this->count":
                    det.append("destroys slot %s, not the new count" % idx)
        else:
            c = [e for _, e in fn.events(lambda e: e.get("k") == "call" and e.get("name") == "emplace" and (e.get("rp") or "").endswith("datac"))]
            if len(c) != 1:
                continue
            n += 1
            idx = S(c[0]["a"][0])
            if conc:
                cas = [e for _, e in fn.events(lambda e: e.get("k") == "atomic" and e["kind"] == "cas")]
                oldv = S(cas[0]["a"][0]) if cas else None
                newv = S(cas[0]["a"][1]) if cas and len(cas[0].get("a", [])) > 1 else None
                if idx != oldv or newv != "(%s + 1)" % oldv:
                    det.append("constructs at %s, CAS(%s -> %s)" % (idx, oldv, newv))
                full = [S(fn.branch(b)[0]) for b in fn.blocks if fn.branch(b)]
                if not any(re.fullmatch(r"\(%s >= \d+\)" % re.escape(oldv or "?"), x) for x in full):
                    det.append("no capacity test on the value the CAS expects")
            else:
                d0 = fn.defs().get(idx)
                if d0 is None or S(d0) != "this->count++":
                    det.append("constructs at %s" % (S(d0) if d0 else idx))
        ctx.ob("C14.variant.slot", cls + "::" + f["name"], not det, "; ".join(det), fn.loc(), "concurrent" if conc else "sequential",
               fnkey=f["key"])
    ctx.floor("FixedSizeBag push/pop variants", n, 4)
    ctx.rule("C14.variant.slist", "gslist: extend_first links the new block to the current first before publishing it (plain store or "
             "CAS on the value just read); shrink_first advances first to old_first->next only when first is still old_first, "
             "and frees the block only then")
    cls = G + "gslist_base"
    m = 0
    for f in [g for g in fx.functions if g.get("cls") == cls and g["kind"] == "inst" and g["name"] in ("extend_first", "shrink_first")]:
        fn = ctx.fn(f)
        conc = ", true>" in f["clsk"]
        det = []
        m += 1
        if f["name"] == "extend_first":
            link = lambda e: e.get("k") == "assign" and e.get("lp") == "b->next"
            if conc:
                pub = lambda e: e.get("k") == "atomic" and e["kind"] == "cas"
                rd = lambda e: e.get("k") == "atomic" and e["kind"] == "load"
                cas = [e for _, e in fn.events(pub)]
                if not cas or [S(a) for a in cas[0].get("a", [])][:2] != ["f", "b"]:
                    det.append("CAS arguments %s" % [[S(a) for a in e.get("a", [])] for e in cas])
                lk = [e for _, e in fn.events(link)]
                if not lk or lk[0].get("rp") != "f":
                    det.append("new block linked to %s" % [e.get("rp") for e in lk])
            else:
                pub = lambda e: e.get("k") == "assign" and e.get("lp") == "this->first" and e.get("rp") == "b"
                lk = [e for _, e in fn.events(link)]
                if not lk or lk[0].get("rp") != "this->first":
                    det.append("new block linked to %s" % [e.get("rp") for e in lk])
            if fn.reaches_without(pub, link) or not any(True for _ in fn.events(pub)):
                det.append("block published before it was linked")
        else:
            old = f["params"][0]["n"]
            fr = is_call(name="free_block")
            if conc:
                cas = [e for _, e in fn.events(lambda e: e.get("k") == "atomic" and e["kind"] == "cas")]
                if not cas or [S(a) for a in cas[0].get("a", [])][:2] != [old, old + "->next"]:
                    det.append("CAS arguments %s" % [[S(a) for a in e.get("a", [])] for e in cas])
                isc = lambda t: t.get("k") == "call" and (t.get("name") or "").startswith("compare_exchange")
                if fn.guarded_positions(fr, isc, True):
                    det.append("block freed without having unlinked it")
            else:
                adv = lambda e: e.get("k") == "assign" and e.get("lp") == "this->first" and e.get("rp") == old + "->next"
                same = lambda t: S(t) in ("(this->first != %s)" % old, "(this->first == %s)" % old)
                if not any(True for _ in fn.events(adv)) or fn.reaches_without(fr, adv):
                    det.append("block freed without advancing first")
                ok_edges = set()
                for bid in fn.blocks:
                    br = fn.branch(bid)
                    if br and S(br[0]) == "(this->first != %s)" % old:
                        ok_edges.add((bid, 1 if br[1] else 0))
                    if br and S(br[0]) == "(this->first == %s)" % old:
                        ok_edges.add((bid, 0 if br[1] else 1))
                h, _ = fn.search([fn.entry_state()], stop=adv, edge_ok=lambda b, i, s: (b, i) not in ok_edges)
                if h or not ok_edges:
                    det.append("first advanced although it is not the block being removed")
        ctx.ob("C14.variant.slist", cls + "::" + f["name"], not det, "; ".join(det), fn.loc(), "concurrent" if conc else "sequential",
               fnkey=f["key"])
    ctx.floor("gslist extend/shrink variants", m, 4)


# --------------------------------------------------------------- returns
def returns(ctx):
    ctx.rule("C14.returns.on-all-paths", "every member of the container headers whose return type is not void returns a value on every "
             "path; for uninstantiated template patterns (no CFG) the body must contain a return statement")
    fx = ctx.load("drv_containers", "drv_foreach", patterns=True)
    n = 0
    for f in fx.functions:
        if not f["file"].endswith(FILES) or "::lambda@" in f["qn"]:
            continue
        if f.get("ret") in ("void", "") or f.get("ctor") or f.get("dtor") or f.get("noreturn"):
            continue
        if re.search(r"enable_if<.*>::type$|enable_if_t<[^,]*>$", f.get("ret", "")) and "," not in f.get("ret", ""):
            continue   # enable_if<cond>::type == void
        if f.get("ret", "").startswith("typename std::enable_if<") and "," not in f["ret"]:
            continue
        n += 1
        if f.get("nocfg"):
            evs = f["blocks"][0]["ev"] if f["blocks"] else []
            has_ret = any(e.get("k") == "ret" and "e" in e for e in evs)
            throws = any(e.get("k") == "throw" for e in evs)
            dies = any(e.get("k") == "call" and e.get("name") in ("abort", "GALOIS_DIE", "gDie") for e in evs)
            ctx.ob("C14.returns.on-all-paths", f["qn"], has_ret or throws or dies,
                   "non-void member `%s %s` has no return statement" % (f.get("ret"), f["name"]),
                   "%s:%s" % (f["file"], f["line"]), f["name"] + ("-const" if f.get("const") else ""), nontrivial=True,
                   fnkey=f["key"])
        else:
            fn = ctx.fn(f)
            ret = lambda e: e.get("k") == "ret" or e.get("k") == "throw"
            ok = not fn.exit_reachable_without(ret)
            ctx.ob("C14.returns.on-all-paths", f["qn"], ok, "a path falls off the end of non-void `%s %s`" % (f.get("ret"), f["name"]),
                   fn.loc(), f["name"] + ("-const" if f.get("const") else ""), nontrivial=fn.count_paths_ge2(), fnkey=f["key"])
    ctx.floor("non-void container members checked (instantiations + patterns)", n, 300)


# -------------------------------------------------------------- optional
def optional_(ctx, fx):
    ctx.rule("C14.optional.flag-paired", "galois::optional: construct() builds the value and sets initialized_; destroy() destroys it "
             "exactly when initialized_ and clears the flag; assign() never constructs over a live value nor assigns to a dead one")
    cls = G + "optional"
    fs = {}
    for f in fx.functions:
        if f.get("cls") == cls and f["kind"] == "inst" and f["name"] in ("construct", "destroy", "assign"):
            fs.setdefault((f["name"], f["params"][0]["ty"][:30] if f["params"] else ""), f)
    ctx.floor("optional construct/destroy/assign", len(fs), 3)
    for (nm, _), f in sorted(fs.items()):
        fn = ctx.fn(f)
        det = []
        if nm == "construct":
            c = lambda e: e.get("k") == "call" and e.get("name") == "construct" and (e.get("rp") or "").endswith("data_")
            fl = lambda e: e.get("k") == "assign" and e.get("lp") == "this->initialized_" and e.get("rp") == "true"
            if fn.exit_reachable_without(c) or fn.exit_reachable_without(fl):
                det.append("value built and flag set not on every path")
        elif nm == "destroy":
            d = lambda e: e.get("k") == "call" and e.get("name") == "destroy" and (e.get("rp") or "").endswith("data_")
            fl = lambda e: e.get("k") == "assign" and e.get("lp") == "this->initialized_" and e.get("rp") == "false"
            il = lambda t: S(t) == "this->initialized_"
            ge = fn.guard_edges(il, False)
            if fn.guarded_positions(d, il, True):
                det.append("destroys although not initialised")
            if fn.exit_reachable_without(d, edge_ok=lambda b, i, s: (b, i) not in ge) or \
                    fn.exit_reachable_without(fl, edge_ok=lambda b, i, s: (b, i) not in ge):
                det.append("initialised value not destroyed / flag not cleared")
        else:
            il = lambda t: t.get("k") == "call" and t.get("name") == "is_initialized" and S(t.get("recv")) == "this"
            c = lambda e: e.get("k") == "call" and e.get("name") == "construct" and S(e.get("recv")) == "this"
            a = lambda e: e.get("k") == "call" and e.get("name") == "assign_impl"
            if fn.guarded_positions(c, il, False):
                det.append("constructs over a live value")
            if fn.guarded_positions(a, il, True):
                det.append("assigns to an unconstructed value")
        ctx.ob("C14.optional.flag-paired", cls + "::" + nm, not det, "; ".join(det), fn.loc(), nm, fnkey=f["key"])
