import re
"""C06 - locks exclude; promised edges are happens-before (structural clauses).

Decides: the memory order requested at every atomic access on a promised edge
(release at the source, acquire at the sink, acq_rel on arrival counters), lock
acquisition is a single atomic RMW whose result decides, unlock on all paths
wherever the repo's locks are used, no non-atomic synchronisation variable.
Not decided: fairness, reads-from, races on variables the table does not list.
"""
from gsa.cfg import Fn, S, is_call, walk, lit
from gsa import lock as L
from gsa import rules as R
from . import mo, wl_locks

EXPL = ("For the memory orders the code requests: every atomic access on a promised synchronisation edge "
        "(lock hand-over, lockable hand-over, barrier arrival/departure, loop entry/return, worklist bucket "
        "discovery, termination tokens) is classified by (function, object, kind) into a role and must request at "
        "least the order the role needs; lock acquisition in SimpleLock/PtrLock is a single RMW whose result decides "
        "success; unlock stores clear the lock bit; every lock acquisition anywhere in the analysed units is released "
        "exactly once on every path (LOCK typestate); PaddedLock forwards to the same primitive; ThreadRWlock's "
        "writer visits every per-thread lock; all synchronisation fields are std::atomic. Given that the sink reads "
        "the value the source wrote, these orders are necessary and sufficient for the C++ happens-before edge; "
        "reads-from and fairness are not decided.")

SL = mo.SL
PL = mo.PL


def run(ctx):
    ctx.explanation = EXPL
    fx = ctx.load("src", "drv_foreach", "wlcompile", "drv_containers")
    mo.check_rows(ctx, fx, "C06", mo.ALL_ROWS, floor=80)
    mo.check_atomic_fields(ctx, fx, "C06", mo.MUST_BE_ATOMIC)
    tree_td(ctx, fx)
    acquisition_shape(ctx, fx)
    unlock_shape(ctx, fx)
    padded(ctx, fx)
    rwlock(ctx, fx)
    global_pairing(ctx, fx)


def tree_td(ctx, fx):
    fxp = ctx.load("src", patterns=True)
    mo.check_atomic_fields(ctx, fxp, "C06", mo.MUST_BE_ATOMIC_TERMINATION)


def acquisition_shape(ctx, fx):
    ctx.rule("C06.acquire.single-rmw",
             "lock acquisition is one atomic read-modify-write whose outcome decides success: no plain store to the lock "
             "word in lock()/try_lock()/slow_lock(); a successful return is only reachable through the success edge of the "
             "CAS (or returns the tested old value of the fetch_or); the CAS installs the locked value")
    targets = [(SL + "::lock", "cas"), (SL + "::try_lock", "cas"), (SL + "::slow_lock", "cas"),
               (PL + "::lock", "cas"), (PL + "::try_lock", "rmw"), ("galois::substrate::internal::ptr_slow_lock", "rmw")]
    for qn, kind in targets:
        fs = [f for f in fx.fns(qn=qn) if f["kind"] != "pattern"]
        ctx.floor("function " + qn, len(fs), 1)
        for f in fs[:2]:
            fn = ctx.fn(f)
            det = []
            ats = list(fn.events(lambda e: e["k"] == "atomic"))
            if any(e["kind"] == "store" for _, e in ats):
                det.append("plain store to the lock word in an acquisition function")
            rm = [(p, e) for p, e in ats if e["kind"] in ("cas", "rmw")]
            if not rm:
                det.append("no atomic read-modify-write")
            slow = is_call(name="slow_lock")
            slow2 = is_call(name="ptr_slow_lock")
            # the table says how the function acquires today; a function that is rewritten from fetch_or to a CAS loop (or
            # back) is judged by the shape it has
            if rm and all(e["kind"] == "cas" for _, e in rm):
                kind = "cas"
            elif rm and all(e["kind"] == "rmw" for _, e in rm):
                kind = "rmw"
            if kind == "cas":
                is_cas = lambda t: t.get("k") == "call" and t.get("name", "").startswith("compare_exchange")
                ge = fn.guard_edges(is_cas, True)
                if not ge:
                    det.append("no branch on the CAS result")
                # normal return must pass a CAS-success edge or delegate to the slow path
                eok = lambda b, i, s: (b, i) not in ge
                rets_true = lambda e: e.get("k") == "ret" and S(e.get("e")) not in ("false", "0")
                if f["ret"] == "bool":
                    h, _ = fn.search([fn.entry_state()], stop=lambda e: rets_true(e), edge_ok=eok)
                    if h:
                        det.append("returns success without a successful CAS")
                else:
                    _, ex = fn.search([fn.entry_state()], stop=lambda e: slow(e) or slow2(e), edge_ok=eok)
                    if ex:
                        det.append("returns without a successful CAS or the slow path")
                for p, e in rm:
                    a = [S(x) for x in e.get("a", [])]
                    if e["kind"] == "cas" and len(a) >= 2 and not (a[1] == "1" or "| 1" in a[1]):
                        det.append("CAS does not install the locked value: %s" % a)
                    # the value the CAS expects must be an UNLOCKED word: a CAS that expects `P|1` and installs `P|1`
                    # succeeds while somebody else holds the lock. A failed compare_exchange writes the current word (lock
                    # bit and all) into its `expected` variable, so on every path to the CAS -- from the function entry,
                    # from any assignment to that variable and from the CAS itself (retry) -- the variable is either
                    # assigned a value with the bit cleared (0, nullptr, `x & ~1`) or tested `(v & 1) == 0`
                    if e["kind"] == "cas" and a:
                        ev_ = a[0]
                        if not re.fullmatch(r"\w+", ev_):
                            continue
                        me = e

                        def clears(x, ev_=ev_):
                            if x.get("k") == "decl" and x.get("n") == ev_ and "init" in x:
                                v = S(x["init"])
                            elif x.get("k") == "assign" and x.get("lp") == ev_ and x.get("op") in ("=", "&="):
                                v = ("%s & " % ev_ if x.get("op") == "&=" else "") + S(x.get("rhs"))
                            else:
                                return False
                            v = v.replace(" ", "")
                            return v in ("0", "nullptr", "(uintptr_t)0", "0UL") or "&~1" in v or "&(~1)" in v or "&~(uintptr_t)1" in v
                        bit = lambda t, ev_=ev_: re.fullmatch(r"\(%s & 1\)" % re.escape(ev_), S(t).replace("UL", "")) is not None
                        ge0 = fn.guard_edges(bit, False)
                        writes = lambda x, ev_=ev_: (x.get("k") == "assign" and x.get("lp") == ev_) or (x.get("k") == "decl" and x.get("n") == ev_)
                        starts = [fn.entry_state(), fn.after(p)] + [fn.after(q) for q, x in fn.events(writes) if not clears(x)]
                        h, _ = fn.search(starts, stop=lambda x: x is me or clears(x), edge_ok=lambda b, i, s_: (b, i) not in ge0)
                        if any(fn.ev(y) is me for y in h):
                            det.append("the CAS expects `%s`, which is not known to have the lock bit clear on every path to it "
                                       "(a failed CAS reloads it with the current, possibly locked, word): expecting a locked "
                                       "word and installing the same word succeeds while another thread holds the lock" % ev_)
            else:
                # fetch_or(1): the old value must be what is tested / returned
                holders = set()
                for p, e in rm:
                    a = [S(x) for x in e.get("a", [])]
                    if e["aop"] != "fetch_or" or a[:1] != ["1"]:
                        det.append("RMW is not fetch_or(1): %s %s" % (e["aop"], a))
                    for p2, e2 in fn.events(lambda x: x["k"] in ("assign", "decl")):
                        src = e2.get("rhs") if e2["k"] == "assign" else e2.get("init")
                        if src is not None and any(n.get("sid") == e.get("sid") for n in walk(src)):
                            holders.add(e2["lp"] if e2["k"] == "assign" else e2["n"])
                if not holders:
                    det.append("old value of the RMW is not kept")
                if f["ret"] == "bool":
                    # the last return (success path) must test the old value
                    rets = [(p, e) for p, e in fn.events(lambda e: e["k"] == "ret")]
                    succ = [e for p, e in rets if S(e.get("e")) not in ("false", "0")]
                    if not succ or not all(any(h in S(e.get("e")) for h in holders) for e in succ):
                        det.append("success result does not depend on the old value of the RMW")
                    for p, e in rm:
                        if fn.reaches_without(lambda x: x in succ, lambda x: x is e):
                            det.append("success return reachable without the RMW")
                else:
                    # loop exit must test the old value
                    hl = lambda t: any(h == S(n) for n in walk(t) for h in holders if n.get("k") == "ref")
                    ge = fn.guard_edges(hl, False) | fn.guard_edges(hl, True)
                    if not ge:
                        det.append("no branch on the old value of the RMW")
            ctx.ob("C06.acquire.single-rmw", qn, not det, "; ".join(det), fn.loc(), "_lock", fnkey=f["key"])


def unlock_shape(ctx, fx):
    ctx.rule("C06.unlock.clears-bit", "every unlock variant performs exactly one store to the lock word on every path and "
             "the stored value has the lock bit clear")
    for qn, want in ((SL + "::unlock", "0"), (PL + "::unlock", "& ~"), (PL + "::unlock_and_clear", "0"),
                     (PL + "::unlock_and_set", "val")):
        fs = [f for f in fx.fns(qn=qn) if f["kind"] != "pattern"]
        ctx.floor("function " + qn, len(fs), 1)
        for f in fs[:2]:
            fn = ctx.fn(f)
            st = lambda e: e["k"] == "atomic" and e["kind"] == "store"
            stores = list(fn.events(st))
            det = []
            if len(stores) != 1 or fn.exit_reachable_without(st):
                det.append("not exactly one store on every path")
            for p, e in stores:
                v = S(e["a"][0]) if e.get("a") else ""
                if want == "0" and v != "0":
                    det.append("stores %s, not 0" % v)
                if want == "& ~" and "& ~" not in v:
                    det.append("stored value %s does not mask the lock bit" % v)
                if want == "val" and ("| 1" in v or not v):
                    det.append("stored value %s" % v)
            ctx.ob("C06.unlock.clears-bit", qn, not det, "; ".join(det), fn.loc(), "_lock", fnkey=f["key"])


def padded(ctx, fx):
    ctx.rule("C06.padded.forwards", "PaddedLock<true>::{lock,try_lock,unlock} each forward to the same member of the wrapped "
             "SimpleLock and try_lock returns its result")
    PD = "galois::substrate::PaddedLock"
    n = 0
    for nm in ("lock", "try_lock", "unlock"):
        fs = [f for f in fx.functions if f.get("cls") == PD and f["name"] == nm and f["kind"] == "inst"
              and "PaddedLock<true>" in f["key"]]
        for f in fs[:1]:
            n += 1
            fn = ctx.fn(f)
            p = is_call(fn=SL + "::" + nm)
            ok = not fn.exit_reachable_without(p) and sum(1 for _ in fn.events(p)) == 1
            if nm == "try_lock":
                ok = ok and all(nm in S(e.get("e")) for _, e in fn.events(lambda e: e["k"] == "ret"))
            ctx.ob("C06.padded.forwards", PD + "::" + nm, ok, "does not forward to SimpleLock::" + nm, fn.loc(), nm,
                   fnkey=f["key"])
    ctx.floor("PaddedLock<true> members", n, 3)


def rwlock(ctx, fx):
    ctx.rule("C06.rwlock.writer-visits-all",
             "ThreadRWlock: readLock/readUnlock use the caller's own lock; writeLock and writeUnlock visit every per-thread "
             "lock in one loop over [0, numThreads), both ascending")
    RW = "galois::substrate::ThreadRWlock"
    fs = {f["name"]: f for f in fx.functions if f.get("cls") == RW and f["kind"] != "pattern"}
    ctx.floor("ThreadRWlock members", len(fs), 4)
    for nm, prim in (("readLock", "lock"), ("readUnlock", "unlock")):
        f = fs.get(nm)
        if not f:
            continue
        fn = ctx.fn(f)
        p = lambda e: e.get("k") == "call" and e.get("name") == prim and "getLocal()" in (e.get("rp") or "")
        ok = not fn.exit_reachable_without(p)
        ctx.ob("C06.rwlock.writer-visits-all", RW + "::" + nm, ok, "does not %s the caller's own lock" % prim, fn.loc(), nm,
               fnkey=f["key"])
    for nm, prim in (("writeLock", "lock"), ("writeUnlock", "unlock")):
        f = fs.get(nm)
        if not f:
            continue
        fn = ctx.fn(f)
        det = []
        p = lambda e: e.get("k") == "call" and e.get("name") == prim and "getRemote(" in (e.get("rp") or "")
        calls = list(fn.events(p))
        if len(calls) != 1:
            det.append("expected one %s on getRemote(i), found %d" % (prim, len(calls)))
        loops = [b for b in fn.blocks.values() if (b.get("term") or {}).get("cls") in ("ForStmt", "WhileStmt")]
        if len(loops) != 1:
            det.append("expected one loop")
        else:
            t = loops[0]["term"]["text"] or ""
            if ("numThreads" not in t and "locks.size()" not in t) or "<" not in t:
                det.append("loop bound is not < numThreads: " + t)
            # induction starts at 0 and increments
            inits = [e for _, e in fn.events(lambda e: e["k"] == "decl" and e.get("ip") == "0")]
            incs = [e for _, e in fn.events(lambda e: e["k"] == "assign" and e.get("op") == "++")]
            if not inits or not incs:
                det.append("loop does not run 0,1,2,... ascending")
            for _, e in calls:
                idx = (e.get("rp") or "")
                if inits and ("getRemote(%s)" % inits[0]["n"]) not in idx:
                    det.append("lock index is not the loop variable: " + idx)
        ctx.ob("C06.rwlock.writer-visits-all", RW + "::" + nm, not det, "; ".join(det), fn.loc(), nm, fnkey=f["key"])


# classes whose members transfer lock ownership across calls by design (one named class each, with the reason)
PAIRING_EXEMPT_CLASSES = {
    "galois::substrate::ThreadRWlock": "lock/unlock are separate API calls; checked by C06.rwlock.*",
    "galois::runtime::LockManagerBase": "lockable ownership is held from acquire to commit/abort; protocol checked by C02",
    "galois::runtime::SimpleRuntimeContext": "lockable ownership is held from acquire to commit/abort; protocol checked by C02",
}


def global_pairing(ctx, fx):
    ctx.rule("C06.lock.pairing", "every acquisition of a Galois lock / std::mutex anywhere in the analysed units is released "
             "exactly once on every path to a normal exit (RAII guards, try_lock branches, callee-releases summaries honoured)")
    n = 0
    opts = wl_locks.FN_OPTS
    seen = set()
    for f in fx.functions:
        if f["kind"] == "pattern" or f.get("ctor") or f.get("dtor"):
            continue
        if f.get("cls") in L.LOCK_CLASSES or f.get("cls") in PAIRING_EXEMPT_CLASSES:
            continue
        # cheap pre-filter
        has = False
        for b in f["blocks"]:
            for e in b["ev"]:
                if (e.get("k") == "call" and e.get("cls") in L.LOCK_CLASSES and e.get("name") in L.ACQ | L.TRY | L.REL) or \
                        (e.get("k") == "decl" and (e.get("t") or {}).get("rec") in L.GUARD_CLASSES):
                    has = True
                    break
            if has:
                break
        if not has:
            continue
        fn = ctx.fn(f)
        o = opts.get(f["qn"], {})
        assume = [f["params"][0]["n"] + o["assume_param_lock"]] if "assume_param_lock" in o else []
        res = L.analyse(fn, assume_held=assume, callee_releases=wl_locks.CALLEE_RELEASES)
        probs = [(k, p, lk) for (k, p, lk) in res.problems
                 if not (k == "held-at-exit" and lk in [L.norm(a) for a in assume])]
        if assume:
            for st in res.exit_states:
                for a in assume:
                    if L.norm(a) in st:
                        probs.append(("held-at-exit", None, L.norm(a)))
        n += 1
        det = "; ".join("%s %s" % (k, lk) for k, p, lk in probs[:4])
        ctx.ob("C06.lock.pairing", f["qn"], not probs, det, fn.loc(), sorted(res.locks_seen)[0] if res.locks_seen else "",
               fnkey=f["key"])
    ctx.floor("functions using locks", n, 40)
