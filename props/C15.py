"""C15 - reductions and concurrent collections (narrow, structural clauses)."""
import re

from gsa.cfg import Fn, S, SN, is_call, walk, lit
from gsa import lock as L
from gsa import race
from gsa import rules as R
from . import wl_locks

EXPL = ("narrow: structural necessary conditions, every instantiation found: each reducible class pairs its merge functor with "
        "the matching identity (plus/0, min/max(), max/lowest(), and/true, or/false) and the functors compute what their "
        "names say; GAccumulator::operator-= passes the negated operand; Reducible's constructor and reset() write the "
        "identity into every slot [0, size) and reduce() merges every slot [1, size) into the local one and re-arms it; the "
        "atomic min/max/add/subtract helpers update only through a compare-exchange loop whose guard compares in the "
        "direction the name says and whose new value is the named combination; DynamicBitSet set/reset are CAS loops on the "
        "word that contains the bit with the right mask; union-find links by CAS on the representative in a fixed address "
        "direction; the parallel bitset operations are owner-indexed; the thread-safe ordered set / heap touch their "
        "container only under their lock; the distributed reducers map C++ types to MPI datatypes identically and use "
        "MPI_SUM/MAX/MIN. The values (lost updates, bit-range masks, floating-point merge order) are not decided.")

G = "galois::"


def insts(fx, qn):
    return [f for f in fx.functions if f["qn"] == qn and f["kind"] == "inst"]


def run(ctx):
    ctx.explanation = EXPL
    fx = ctx.load("src", "drv_reduce", "drv_containers")
    identity_table(ctx, fx)
    reducible(ctx, fx)
    atomics(ctx, fx)
    bitset(ctx, fx)
    unionfind(ctx, fx)
    queues(ctx, fx)
    dist(ctx)


def identity_table(ctx, fx):
    ctx.rule("C15.identity.matches-merge",
             "every reducible class derives from Reducible<T, merge, identity> with the matching pair, and the functors do what "
             "they are named: gmax -> std::max, gmin -> std::min, identity_value_zero -> T{0}, identity_value_max -> "
             "numeric_limits::max(), identity_value_min (identity of max) -> numeric_limits::lowest()")
    want = {
        G + "GAccumulator": ("std::plus", "identity_value_zero"),
        G + "GReduceMax": ("gmax", "identity_value_min"),
        G + "GReduceMin": ("gmin", "identity_value_max"),
        G + "GReduceLogicalAnd": ("std::logical_and", "identity_value<bool, true>"),
        G + "GReduceLogicalOr": ("std::logical_or", "identity_value<bool, false>"),
    }
    for qn, (merge, ident) in want.items():
        rs = [r for r in fx.records if r["qn"] == qn and r["kind"] == "concrete"]
        ctx.floor("record " + qn, len(rs), 1)
        for r in rs[:2]:
            bases = " ".join(b["ty"] for b in r.get("bases", []))
            from .common import split_targs
            ta = split_targs(bases.replace("galois::", ""))
            ok = len(ta) == 3 and ta[1].startswith(merge.replace("galois::", "")) and ta[2].startswith(ident.replace("galois::", ""))
            ctx.ob("C15.identity.matches-merge", qn, ok, "base is %s, expected merge %s with identity %s" % (bases, merge, ident),
                   "%s:%s" % (r["file"], r["line"]), "base")
    funs = {
        G + "gmax::operator()": r"^max\(lhs,rhs\)$",
        G + "gmin::operator()": r"^min\(lhs,rhs\)$",
        G + "identity_value_zero::operator()": r"^\w*\{?0\}?$|^0$",
        G + "identity_value_max::operator()": r"^max\(\)$",
        G + "identity_value_min::operator()": r"^lowest\(\)$",
    }
    for qn, pat in funs.items():
        fs = insts(fx, qn)
        ctx.floor(qn, len(fs), 1)
        for f in fs[:3]:
            fn = ctx.fn(f)
            rets = {S(e.get("e")) for _, e in fn.events(lambda e: e["k"] == "ret")}
            ok = len(rets) == 1 and all(re.fullmatch(pat, x.replace("initlist", "").replace("{0}", "0").strip()) or
                                        re.fullmatch(pat, re.sub(r"^\w+\{(.*)\}$", r"\1", x)) for x in rets)
            ctx.ob("C15.identity.matches-merge", qn, ok, "returns %s" % sorted(rets), fn.loc(), "functor", fnkey=f["key"])
    ctx.rule("C15.accumulator.minus-negates", "GAccumulator::operator-= updates with the negated operand (T{} - rhs or -rhs)")
    fs = insts(fx, G + "GAccumulator::operator-=")
    ctx.floor("GAccumulator::operator-=", len(fs), 1)
    for f in fs[:3]:
        fn = ctx.fn(f)
        rhs = f["params"][0]["n"]
        up = [e for _, e in fn.events(is_call(name="update"))]
        a = [S(x) for x in up[0].get("a", [])] if up else []
        ok = len(up) == 1 and len(a) == 1 and a[0] != rhs and (re.search(r"- %s\)?$" % rhs, a[0]) or a[0] == "-" + rhs)
        ctx.ob("C15.accumulator.minus-negates", G + "GAccumulator::operator-=", bool(ok), "updates with %s" % a, fn.loc(), "-=",
               fnkey=f["key"])
    fs = insts(fx, G + "GAccumulator::operator+=")
    for f in fs[:3]:
        fn = ctx.fn(f)
        rhs = f["params"][0]["n"]
        up = [e for _, e in fn.events(is_call(name="update"))]
        a = [S(x) for x in up[0].get("a", [])] if up else []
        ctx.ob("C15.accumulator.minus-negates", G + "GAccumulator::operator+=", a == [rhs], "updates with %s" % a, fn.loc(), "+=",
               fnkey=f["key"])


def reducible(ctx, fx):
    ctx.rule("C15.reduce.covers-all-slots",
             "Reducible: the constructor and reset() store the identity into data_.getRemote(i) for every i in [0, size); "
             "reduce() merges getRemote(i) for every i in [1, size) into the local slot and then stores the identity there; it "
             "returns the local slot; update() merges into the local slot")
    R_ = G + "Reducible"
    for nm, start in (("Reducible", "0"), ("reset", "0"), ("reduce", "1")):
        fs = insts(fx, R_ + "::" + nm)
        ctx.floor(R_ + "::" + nm, len(fs), 3)
        for f in fs[:6]:
            fn = ctx.fn(f)
            al = fn.aliases()
            det = []
            loops = [b for b in fn.blocks.values() if (b.get("term") or {}).get("cls") in ("ForStmt", "WhileStmt")]
            # the loop variable is whatever the loop condition compares with data_.size()
            iv = None
            if len(loops) == 1 and loops[0]["term"].get("cond"):
                # a bound hoisted into a single-definition local (`const auto n = data_.size()`) is looked through
                dfs = {k: v for k, v in fn.defs().items() if v is not None and "data_.size()" in S(v)}
                m = re.fullmatch(r"\((\w+) < this->data_\.size\(\)\)", SN(lit(loops[0]["term"]["cond"])[0], dfs))
                iv = m.group(1) if m else None
            if iv is None:
                det.append("loop is not over [.., data_.size())")
                iv = "i"
            i0 = [e for _, e in fn.events(lambda e: e.get("k") == "decl" and e.get("n") == iv)]
            if not i0 or i0[0].get("ip") != start:
                det.append("loop starts at %s, expected %s" % (i0[0].get("ip") if i0 else None, start))
            inc = [e for _, e in fn.events(lambda e: e.get("k") == "assign" and e.get("lp") == iv)]
            if [e.get("op") for e in inc] not in (["++"],) and [(e.get("op"), e.get("rp")) for e in inc] != [("+=", "1")]:
                det.append("loop step %s" % [e.get("op") for e in inc])
            slot = "getRemote(%s)" % iv
            ident = lambda e: (e.get("k") in ("assign",) and slot in S(e.get("lhs"), al) and "operator()" in S(e.get("rhs"))) or \
                (e.get("k") == "call" and e.get("op") == "=" and slot in S(e.get("recv"), al) and
                 any("operator()" in S(a) for a in e.get("a", [])))
            body = loops[0]["succ"][0] if loops else None
            if body is not None:
                h, ex = fn.search([(body, 0)], stop=ident, edge_ok=lambda b, i, s: s != loops[0]["id"] or True)
                if not h:
                    det.append("slot i is not set to the identity in the loop body")
                # every pass through the body stores the identity before returning to the loop head
                hit_head = []
                h2, _ = fn.search([(body, 0)], stop=ident,
                                  edge_ok=lambda b, i, s: not (s == loops[0]["id"] and hit_head.append(1)))
                if hit_head:
                    det.append("a pass through the loop body skips the identity store")
            if nm == "reduce":
                mg = [e for _, e in fn.events(is_call(name="merge"))]
                if len(mg) != 1 or S(mg[0]["a"][0], al) != "*this->data_.getLocal()" or slot not in S(mg[0]["a"][1], al):
                    det.append("merge arguments %s" % [[S(a, al) for a in e.get("a", [])] for e in mg])
                else:
                    # merge before re-arming
                    if fn.reaches_without(lambda e: e is mg[0], lambda e: False) is None:
                        pass
                    for p, _ in fn.events(ident):
                        if fn.reaches_without(lambda e, p=p: e is fn.ev(p), lambda e: e is mg[0]):
                            det.append("slot re-armed before it was merged")
                rets = {S(e.get("e"), al) for _, e in fn.events(lambda e: e["k"] == "ret")}
                if rets != {"*this->data_.getLocal()"}:
                    det.append("returns %s" % sorted(rets))
            ctx.ob("C15.reduce.covers-all-slots", R_ + "::" + nm, not det, "; ".join(sorted(set(det))), fn.loc(), nm, fnkey=f["key"])
    for f in insts(fx, R_ + "::update")[:6]:
        fn = ctx.fn(f)
        mg = [e for _, e in fn.events(is_call(name="merge"))]
        ok = len(mg) == 1 and S(mg[0]["a"][0]) == "*this->data_.getLocal()" and f["params"][0]["n"] in S(mg[0]["a"][1])
        ctx.ob("C15.reduce.covers-all-slots", R_ + "::update", ok, "update does not merge the operand into the local slot", fn.loc(),
               "update", fnkey=f["key"])
    for f in insts(fx, R_ + "::merge")[:8]:
        fn = ctx.fn(f)
        lhs, rhs = f["params"][0]["n"], f["params"][1]["n"]
        calls = [e for _, e in fn.events(lambda e: e.get("k") == "call" and e.get("name") == "operator()")]
        ok = len(calls) == 1 and [S(a) for a in calls[0].get("a", [])][0] == lhs and rhs in [S(a) for a in calls[0].get("a", [])][1]
        st = [e for _, e in fn.events(lambda e: (e.get("k") == "assign" and e.get("lp") == lhs) or
                                     (e.get("k") == "call" and e.get("op") == "=" and S(e.get("recv")) == lhs))]
        ok = ok and len(st) == 1
        ctx.ob("C15.reduce.covers-all-slots", R_ + "::merge", ok, "merge does not store MergeFunc(lhs, rhs) into lhs", fn.loc(),
               "merge", fnkey=f["key"])


def atomics(ctx, fx):
    ctx.rule("C15.atomic.cas-loop",
             "atomicMin / atomicMax / atomicAdd / atomicSubtract: the only write is a compare_exchange in a loop (no plain store); "
             "min/max loop while old > b / old < b and install b; add/subtract install old + delta / old - delta; the old value "
             "is returned")
    table = {
        G + "atomicMin": (">", None), G + "atomicMax": ("<", None),
        G + "atomicAdd": (None, "+"), G + "atomicSubtract": (None, "-"),
    }
    for qn, (cmpop, arith) in table.items():
        fs = insts(fx, qn)
        ctx.floor(qn, len(fs), 1)
        for f in fs[:4]:
            fn = ctx.fn(f)
            a, b = f["params"][0]["n"], f["params"][1]["n"]
            det = []
            ats = [e for _, e in fn.events(lambda e: e["k"] == "atomic")]
            if any(e["kind"] == "store" or e["kind"] == "rmw" for e in ats):
                det.append("plain store / non-CAS RMW to the shared value")
            cas = [e for e in ats if e["kind"] == "cas"]
            if len(cas) != 1:
                det.append("compare_exchange sites: %d" % len(cas))
            else:
                args = [S(x) for x in cas[0].get("a", [])]
                old = args[0]
                # the value installed, with locals that have one defining expression expanded (a hoisted or renamed
                # temporary is the same thing); a local computed from the expected variable must be recomputed after a
                # failed compare_exchange, which reloads the expected variable
                alldefs = {}
                for _, e in fn.events(lambda e: (e.get("k") == "decl" and "init" in e) or (e.get("k") == "assign" and e.get("op") == "=")):
                    if e["k"] == "decl":
                        alldefs.setdefault(e["n"], set()).add(S(e.get("init")))
                    else:
                        alldefs.setdefault(e.get("lp"), set()).add(S(e.get("rhs")))
                D = args[1] if len(args) > 1 else "?"
                through = []
                for _ in range(3):
                    for v, ds in alldefs.items():
                        if len(ds) == 1 and v not in (old, a, b) and re.search(r"\b%s\b" % re.escape(v), D):
                            d1 = next(iter(ds))
                            if re.search(r"\b%s\b" % re.escape(old), d1):
                                through.append(v)
                            D = re.sub(r"\b%s\b" % re.escape(v), d1, D)
                cpos = [p for p, e in fn.events(lambda e: e is cas[0])]
                for v in set(through):
                    redefine = lambda e, v=v: (e.get("k") == "decl" and e.get("n") == v) or (e.get("k") == "assign" and e.get("lp") == v)
                    h, _ = fn.search([fn.after(cpos[0])], stop=lambda e: redefine(e) or e is cas[0])
                    if any(fn.ev(q) is cas[0] for q in h):
                        det.append("after a failed compare_exchange (which reloads %s) the next attempt still installs %s computed from "
                                   "the old %s: a concurrent update in between is overwritten" % (old, v, old))
                gnorm = SN({"k": "bin", "op": cmpop, "l": {"k": "ref", "n": old}, "r": {"k": "ref", "n": b}}) if cmpop else None
                if cmpop:
                    if D != b:
                        det.append("installs %s, not %s" % (D, b))
                    conds = [SN(fn.branch(bid)[0]) for bid in fn.blocks if fn.branch(bid)]
                    if gnorm not in conds:
                        det.append("loop guard is not `%s %s %s`: %s" % (old, cmpop, b, conds))
                    # CAS only attempted when the guard holds
                    g = lambda t: SN(t) == gnorm
                    if fn.guarded_positions(lambda e: e is cas[0], g, True):
                        det.append("CAS attempted although the value need not change")
                else:
                    want = {"(%s %s %s)" % (old, arith, b)} | ({"(%s + %s)" % (b, old)} if arith == "+" else set())
                    if D not in want:
                        det.append("installs %s, not %s %s %s" % (D, old, arith, b))
                # loop until success: the function returns only via the CAS-success edge or the guard-false edge
                isc = lambda t: t.get("k") == "call" and (t.get("name") or "").startswith("compare_exchange")
                ge = fn.guard_edges(isc, True)
                if cmpop:
                    ge |= fn.guard_edges(lambda t: SN(t) == gnorm, False)
                _, ex = fn.search([fn.entry_state()], edge_ok=lambda bb, i, s: (bb, i) not in ge)
                if ex:
                    det.append("returns after a failed compare_exchange")
                rets = {S(e.get("e")) for _, e in fn.events(lambda e: e["k"] == "ret")}
                if rets != {old}:
                    det.append("returns %s" % sorted(rets))
                d = fn.defs().get(old)
                if not any("%s.load(" % a in S(e.get("init")) for _, e in fn.events(lambda e: e.get("k") == "decl" and e.get("n") == old)):
                    det.append("old value is not loaded from the shared variable")
            ctx.ob("C15.atomic.cas-loop", qn, not det, "; ".join(det), fn.loc(), "%s/%s" % (qn.split("::")[-1], f["params"][1]["ty"]),
                   fnkey=f["key"])


def bitset(ctx, fx):
    ctx.rule("C15.bitset.cas-on-word",
             "DynamicBitSet::set/reset(index): word = index / 64, mask = 1 << (index % 64); CAS loop on bitvec[word] installing "
             "old | mask (set) / old & ~mask (reset), attempted only while the bit differs; returns the old bit")
    DB = G + "DynamicBitSet::"
    for nm in ("set", "reset"):
        fs = [f for f in fx.functions if f["qn"] == DB + nm and f["kind"] != "pattern" and len(f["params"]) == 1]
        ctx.floor(DB + nm, len(fs), 1)
        for f in fs[:1]:
            fn = ctx.fn(f)
            idx = f["params"][0]["n"]
            det = []
            ats = [(p, e) for p, e in fn.events(lambda e: e["k"] == "atomic")]
            if any(e["kind"] in ("store", "rmw") for _, e in ats):
                det.append("plain store / non-CAS RMW")
            cas = [(p, e) for p, e in ats if e["kind"] == "cas"]
            if len(cas) != 1:
                det.append("compare_exchange sites: %d" % len(cas))
                ctx.ob("C15.bitset.cas-on-word", DB + nm, False, "; ".join(det), fn.loc(), nm, fnkey=f["key"])
                continue
            cpos, ce = cas[0]
            # names are taken from the code: X = the CAS's expected variable, W = the word index, M = the mask
            X = S(ce["a"][0]) if ce.get("a") else "?"
            m = re.fullmatch(r"this->bitvec\[(\w+)\]", ce["p"])
            if not m:
                det.append("CAS on %s" % ce["p"])
            W = m.group(1) if m else "?"
            alldefs = {}
            for _, e in fn.events(lambda e: (e.get("k") == "decl" and "init" in e) or (e.get("k") == "assign" and e.get("op") == "=")):
                if e["k"] == "decl":
                    alldefs.setdefault(e["n"], set()).add(S(e.get("init")))
                else:
                    alldefs.setdefault(e.get("lp"), set()).add(S(e.get("rhs")))
            wdef = alldefs.get(W, set())
            if not wdef or any(not re.fullmatch(r"\(%s / (galois::DynamicBitSet::)?bits_uint64\)" % idx, x) for x in wdef):
                det.append("word index %s = %s" % (W, sorted(wdef)))
            # desired value, with locals that have one defining expression expanded
            D = S(ce["a"][1]) if len(ce.get("a", [])) > 1 else "?"
            stale_vars = []
            for _ in range(3):
                for v, ds in alldefs.items():
                    if len(ds) == 1 and v != X and re.search(r"\b%s\b" % re.escape(v), D):
                        d = next(iter(ds))
                        if re.search(r"\b%s\b" % re.escape(X), d):
                            stale_vars.append(v)
                            D = re.sub(r"\b%s\b" % re.escape(v), d, D)
            mm = re.fullmatch(r"\(%s \| (\w+)\)|\((\w+) \| %s\)" % (X, X), D) if nm == "set" else \
                re.fullmatch(r"\(%s & ~(\w+)\)|\(~(\w+) & %s\)" % (X, X), D)
            if not mm:
                det.append("CAS installs %s (expected variable %s)" % (D, X))
            M = (mm.group(1) or mm.group(2)) if mm else "?"
            sh = [e for _, e in fn.events(lambda e: e.get("k") == "assign" and e.get("lp") == M and e.get("op") == "<<=")]
            if alldefs.get(M) != {"1"} or len(sh) != 1 or not re.fullmatch(r"\(?%s %% .*bits_uint64\)?" % idx, sh[0].get("rp") or ""):
                det.append("mask %s is not 1 << (index %% 64): %s <<= %s" % (M, sorted(alldefs.get(M, [])), [e.get("rp") for e in sh]))
            # freshness: a failed compare_exchange rewrites X, so every local the desired value is computed from X through
            # must be recomputed before the next attempt
            for v in set(stale_vars):
                redefine = lambda e, v=v: (e.get("k") == "decl" and e.get("n") == v) or (e.get("k") == "assign" and e.get("lp") == v)
                h, _ = fn.search([fn.after(cpos)], stop=lambda e: redefine(e) or e is ce)
                if any(fn.ev(q) is ce for q in h):
                    det.append("after a failed compare_exchange (which reloads %s) the next attempt still installs %s computed "
                               "from the old %s: concurrent bits of the word are overwritten" % (X, v, X))
            bit = "(%s & %s)" % (X, M)
            conds = [S(fn.branch(bid)[0]) for bid in fn.blocks if fn.branch(bid)]
            if bit not in conds:
                det.append("no test of the bit before the CAS: %s" % conds)
            isc = lambda t: t.get("k") == "call" and (t.get("name") or "").startswith("compare_exchange")
            bitlit = lambda t: S(t) == bit
            # the loop is left only after a successful CAS or when the bit already has the wanted value
            ge = fn.guard_edges(isc, True) | fn.guard_edges(bitlit, nm == "set")
            _, ex = fn.search([fn.entry_state()], edge_ok=lambda bb, i, s: (bb, i) not in ge)
            if ex:
                det.append("returns after a failed compare_exchange while the bit still differs")
            # the CAS is attempted only while the bit differs
            if fn.guarded_positions(lambda e: e is ce, bitlit, nm != "set",
                                    kill=lambda e: e is ce or (e.get("k") in ("decl", "assign") and
                                                               (e.get("n") == X or e.get("lp") == X))):
                det.append("compare_exchange attempted without testing the bit in the current %s" % X)
            rets = {S(e.get("e")) for _, e in fn.events(lambda e: e["k"] == "ret")}
            if rets != {bit}:
                det.append("returns %s" % sorted(rets))
            ctx.ob("C15.bitset.cas-on-word", DB + nm, not det, "; ".join(det), fn.loc(), nm, fnkey=f["key"])
    for f in [g for g in fx.functions if g["qn"] == DB + "test" and g["kind"] != "pattern"][:1]:
        fn = ctx.fn(f)
        rets = {S(e.get("e")) for _, e in fn.events(lambda e: e["k"] == "ret")}
        ok = len(rets) == 1 and "bitvec[bit_index]" in next(iter(rets)) and "& bit_offset" in next(iter(rets))
        ctx.ob("C15.bitset.cas-on-word", DB + "test", ok, "test returns %s" % sorted(rets), fn.loc(), "test", fnkey=f["key"])
    ctx.rule("C15.bitset.parallel-ops-owner-indexed", "DynamicBitSet::bitwise_* / getOffsets / count: every parallel body writes only "
             "bitvec[i] for its own i, per-thread slots, a reducible, or its own prefix range")
    lam = [f for f in fx.functions if f["kind"] != "pattern" and "::lambda@" in f["qn"] and G + "DynamicBitSet::" in f["qn"]]
    ctx.floor("parallel bodies of DynamicBitSet", len(lam), 5)
    for f in lam:
        writes, problems = race.analyse(f, [p["n"] for p in f["params"]][:1])
        # getOffsets: offsets[prefix + local count] is the thread's own range by construction of the prefix array
        problems = [p for p in problems if not re.search(r"offsets\[.*(tPrefixBitCounts|activeThreadIndex|count)", p)]
        ctx.ob("C15.bitset.parallel-ops-owner-indexed", f["qn"].split("::lambda@")[0], not problems, "; ".join(problems[:2]),
               "%s:%s" % (f["file"], f["line"]), "L%s" % f["line"], nontrivial=bool(writes), fnkey=f["key"])


def unionfind(ctx, fx):
    ctx.rule("C15.unionfind.cas-link", "UnionFindNode::merge: both sides are replaced by their representatives each round; equal "
             "representatives return without linking; the larger address is linked under the smaller by a CAS on the "
             "representative's own pointer (expected value = itself); a failed CAS retries")
    fs = insts(fx, G + "UnionFindNode::merge")
    ctx.floor("UnionFindNode::merge", len(fs), 1)
    for f in fs[:2]:
        fn = ctx.fn(f)
        det = []
        cas = [e for _, e in fn.events(lambda e: e["k"] == "atomic" and e["kind"] == "cas")]
        # the two representatives are named by the link itself: X->m_component.compare_exchange(X, Y)
        X = Y = None
        if len(cas) == 1:
            m = re.fullmatch(r"(\w+)->m_component", cas[0]["p"])
            ar = [S(x) for x in cas[0].get("a", [])][:2]
            if m and len(ar) == 2 and ar[0] == m.group(1) and re.fullmatch(r"\w+", ar[1]) and ar[1] != ar[0]:
                X, Y = ar
        if X is None:
            det.append("link is %s, expected X->m_component.compare_exchange(X, Y)" % [(e["p"], [S(x) for x in e.get("a", [])]) for e in cas])
            X, Y = "a", "b"
        if any(e["kind"] == "store" for _, e in fn.events(lambda e: e["k"] == "atomic")):
            det.append("plain store to a component pointer")
        fc = [S(e.get("recv")) for _, e in fn.events(is_call(name="findAndCompress"))]
        if sorted(fc) != sorted([X, Y]):
            det.append("representatives looked up for %s" % fc)
        eqs = SN({"k": "bin", "op": "==", "l": {"k": "ref", "n": X}, "r": {"k": "ref", "n": Y}})
        lts = "(%s < %s)" % (X, Y)
        conds = [SN(fn.branch(bid)[0]) for bid in fn.blocks if fn.branch(bid)]
        if eqs not in conds or lts not in conds:
            det.append("conditions %s" % conds)
        sw = [e for _, e in fn.events(is_call(name="swap"))]
        if len(sw) != 1 or sorted(S(a) for a in sw[0].get("a", [])) != sorted([X, Y]) or \
                fn.guarded_positions(lambda e: e is sw[0], lambda t: SN(t) == lts, True):
            det.append("direction normalisation (swap when %s < %s) missing" % (X, Y))
        if cas:
            isc = lambda t: t.get("k") == "call" and (t.get("name") or "").startswith("compare_exchange")
            ret_b = lambda e: e.get("k") == "ret" and S(e.get("e")) == Y
            if fn.guarded_positions(ret_b, isc, True):
                det.append("success reported without a successful CAS")
            eq = lambda t: SN(t) == eqs
            ret0 = lambda e: e.get("k") == "ret" and S(e.get("e")) in ("0", "nullptr")
            if fn.guarded_positions(ret0, eq, True):
                det.append("null returned although the sets differ")
        ctx.ob("C15.unionfind.cas-link", G + "UnionFindNode::merge", not det, "; ".join(det), fn.loc(), "merge", fnkey=f["key"])


QUEUE_TABLE = [
    dict(cls=G + "ThreadSafeOrderedSet", lock="mutex", guarded=["orderedSet"], lockvalue=False,
         exempt={"begin": "documented: iteration is not thread safe", "end": "documented: iteration is not thread safe"}),
    dict(cls=G + "ThreadSafeMinHeap", lock="mutex", guarded=["heap"], lockvalue=False,
         exempt={"begin": "documented: iteration is not thread safe", "end": "documented: iteration is not thread safe",
                 "reserve": "documented: call before parallel use"}),
]


def queues(ctx, fx):
    wl_locks.check(ctx, fx, prefix="C15", table=QUEUE_TABLE, fn_opts={}, callee_releases={}, family="thread-safe queue",
                   floor_fns=8)


def mpi_name(s):
    """OpenMPI spells MPI_INT as (&ompi_mpi_int) and MPI_SUM as (&ompi_mpi_op_sum) after macro expansion"""
    s = s.strip("()& ")
    if s.startswith("ompi_mpi_op_"):
        return "MPI_" + s[len("ompi_mpi_op_"):].upper()
    if s.startswith("ompi_mpi_"):
        return "MPI_" + s[len("ompi_mpi_"):].upper()
    return s


def dist(ctx):
    ctx.rule("C15.dist.mpi-tables-agree",
             "DGAccumulator / DGReduceMax / DGReduceMin: the C++-type -> MPI-datatype chains are identical in the three classes "
             "and cover the same types; the operations are MPI_SUM / MPI_MAX / MPI_MIN respectively; reduce() reduces the local "
             "reducible before the all-reduce and returns the global value")
    fx = ctx.load("drv_distreduce")
    tabs = {}
    for cls, op in (("DGAccumulator", "MPI_SUM"), ("DGReduceMax", "MPI_MAX"), ("DGReduceMin", "MPI_MIN")):
        fs = insts(fx, G + cls + "::reduce_mpi")
        ctx.floor(cls + "::reduce_mpi", len(fs), 1)
        for f in fs[:1]:
            fn = ctx.fn(f)
            calls = [e for _, e in fn.events(is_call(name="MPI_Allreduce"))]
            # pair each call with the typeid test guarding it
            tab = []
            for e in calls:
                a = [mpi_name(S(x)) for x in e.get("a", [])]
                tab.append((a[3] if len(a) > 3 else "?", a[4] if len(a) > 4 else "?"))
            conds = []
            for bid in sorted(fn.blocks, reverse=True):
                br = fn.branch(bid)
                if br and "typeid" in S(br[0]):
                    m = re.findall(r"typeid\(([^)]*)\)", S(br[0]) + (fn.blocks[bid]["term"].get("text") or ""))
                    conds.append(tuple(m))
            types = [re.sub(r".*typeid\((\w[\w ]*)\)$", r"\1", (fn.blocks[bid]["term"].get("text") or "")) for bid in sorted(fn.blocks, reverse=True)
                     if fn.branch(bid) and "typeid" in (fn.blocks[bid]["term"].get("text") or "")]
            ops = {o for _, o in tab}
            ctx.ob("C15.dist.mpi-tables-agree", G + cls + "::reduce_mpi", ops == {op} and len(tab) >= 5,
                   "operations %s (expected only %s), %d branches" % (sorted(ops), op, len(tab)), fn.loc(), "op", fnkey=f["key"])
            tabs[cls] = (types, [t for t, _ in tab])
    if len(tabs) == 3:
        vals = list(tabs.values())
        same = all(v == vals[0] for v in vals)
        ctx.ob("C15.dist.mpi-tables-agree", G + "DReducible", same and len(vals[0][0]) == len(vals[0][1]) and len(vals[0][1]) >= 5,
               "type->MPI datatype tables differ: %s" % {k: v for k, v in tabs.items()}, "", "datatype-table")
        # the pairs themselves
        want = {"int32_t": "MPI_INT", "int64_t": "MPI_LONG", "uint32_t": "MPI_UNSIGNED", "uint64_t": "MPI_UNSIGNED_LONG",
                "float": "MPI_FLOAT", "double": "MPI_DOUBLE", "long double": "MPI_LONG_DOUBLE"}
        pairs = dict(zip(vals[0][0], vals[0][1]))
        bad = {k: v for k, v in pairs.items() if want.get(k) is not None and not v.endswith(want[k]) and want[k] not in v}
        ctx.ob("C15.dist.mpi-tables-agree", G + "DReducible", not bad, "wrong MPI datatype for %s" % bad, "", "datatype-pairs")
    for cls in ("DGAccumulator", "DGReduceMax", "DGReduceMin"):
        for f in insts(fx, G + cls + "::reduce")[:1]:
            fn = ctx.fn(f)
            loc = is_call(name="reduce", recv=r"mdata$")
            glob = is_call(name="reduce_mpi")
            det = []
            if fn.exit_reachable_without(glob):
                det.append("a path returns without the all-reduce")
            rets = {S(e.get("e")) for _, e in fn.events(lambda e: e["k"] == "ret")}
            if rets != {"this->global_mdata"}:
                det.append("returns %s" % sorted(rets))
            if not any(True for _ in fn.events(loc)):
                det.append("local reducible never reduced")
            ctx.ob("C15.dist.mpi-tables-agree", G + cls + "::reduce", not det, "; ".join(det), fn.loc(), "reduce", fnkey=f["key"])
