"""helpers shared by property modules"""
from gsa.cfg import Fn, S, is_call, walk
from gsa import rules as R

FE = "galois::runtime::ForEachExecutor"


def executor_instances(fx, cls=FE):
    """group member functions of every instantiation of the executor by class
    key; returns {clsk: {"consts":{}, "fns": {name: [f,...]}}}"""
    out = {}
    for f in fx.functions:
        if f.get("cls") != cls or f["kind"] != "inst":
            continue
        if cls == FE and f["clsk"].startswith(FE + "<galois::worklists::Deterministic<"):
            # partial specialisation of the executor for the deterministic scheduler (Executor_Deterministic.h): a different
            # class with its own protocol, decided by C07
            continue
        d = out.setdefault(f["clsk"], {"consts": None, "fns": {}})
        d["fns"].setdefault(f["name"], []).append(f)
    for k, d in out.items():
        d["consts"] = R.class_consts(fx, k)
    return out


def short(key, n=160):
    return key if len(key) <= n else key[:n] + "..."


def wl_name(clsk):
    """first template argument (the worklist) of an executor class key"""
    i = clsk.find("<")
    if i < 0:
        return clsk
    depth = 0
    for j in range(i, len(clsk)):
        c = clsk[j]
        if c == "<":
            depth += 1
        elif c == ">":
            depth -= 1
        elif c == "," and depth == 1:
            return clsk[i + 1:j]
    return clsk[i + 1:]


def split_targs(s):
    """top-level template arguments of `Name<a, b<c, d>, e>` -> [a, b<c, d>, e]"""
    i = s.find("<")
    if i < 0:
        return []
    out, depth, cur = [], 0, ""
    for c in s[i:]:
        if c == "<":
            depth += 1
            if depth == 1:
                continue
        elif c == ">":
            depth -= 1
            if depth == 0:
                out.append(cur.strip())
                break
        elif c == "," and depth == 1:
            out.append(cur.strip())
            cur = ""
            continue
        cur += c
    return out
