"""C02 - isolation of for_each iterations (structural clauses).

Decides, on every path of the anchored functions and of every ForEachExecutor
instantiation found: try-lock -> set-owner -> neighbourhood protocol, release
walk, commit/cancel after every operator call on normal and conflict paths,
method-flag table, access control. Not decided: the interleaving argument
itself (follows from PtrLock exclusion, C06), serialisability of final state.
"""
from gsa.cfg import Fn, S, is_call, is_assign, walk, lit
from gsa import rules as R
from .common import executor_instances, short, FE

EXPL = ("Structural necessary conditions of iteration isolation, evaluated on every CFG path of "
        "LockManagerBase::tryAcquire, SimpleRuntimeContext::{acquire,release,commitIteration,"
        "cancelIteration}, shouldLock/acquire/doAcquire and of every ForEachExecutor instantiation "
        "(doProcess, commitIteration, abortIteration, runQueueDispatch, go): ownership is recorded "
        "only after a successful try-lock, a new owner is always entered into the neighbourhood "
        "list, a failed acquisition never returns normally, the release walk releases every entry, "
        "every operator call is followed by commit (normal path) or cancel + buffer/allocator reset "
        "(conflict path), READ/WRITE flags lock and the lock word is not reachable from user code. "
        "Decides these shapes, not the run-time interleavings.")

CTX = "galois::runtime::SimpleRuntimeContext"
LMB = "galois::runtime::LockManagerBase"


def one(ctx, fx, qn, floor=1):
    fs = fx.fns(qn=qn)
    ctx.floor("function " + qn, len(fs), floor)
    return fs


def run(ctx):
    ctx.explanation = EXPL
    fx = ctx.load("src", "drv_foreach")
    scope = lambda f: f["qn"].startswith("galois::runtime::")

    # primitives and their wrappers (hand-inlined or helper form both accepted)
    try_lock_p = is_call(fn="galois::substrate::PtrLock::try_lock", recv=r"owner$")
    set_owner_p = is_call(fn="galois::substrate::PtrLock::setValue", recv=r"owner$")
    unlock_p = is_call(fn="galois::substrate::PtrLock::unlock_and_clear", recv=r"owner$")
    cls_scope = lambda f: f.get("cls") in (LMB, CTX)
    w_try = R.wrappers(fx, try_lock_p, cls_scope)
    w_set = R.wrappers(fx, set_owner_p, cls_scope) - {LMB + "::tryAcquire"}
    w_unl = R.wrappers(fx, unlock_p, cls_scope)
    try_lock = R.with_wrappers(try_lock_p, w_try - {LMB + "::tryAcquire"})
    set_owner = R.with_wrappers(set_owner_p, w_set)

    # ------------------------------------------------------------ tryAcquire
    ctx.rule("C02.tryacq.set-after-trylock",
             "in tryAcquire the owner is recorded only on the branch where try_lock() returned true")
    ctx.rule("C02.tryacq.new-owner-sets",
             "every `return NEW_OWNER` is preceded on all paths by a successful try_lock and by setting the owner")
    ctx.rule("C02.tryacq.already-owner-guard",
             "`return ALREADY_OWNER` only on the branch where getOwner(lockable) == this")
    ctx.rule("C02.tryacq.returns",
             "tryAcquire returns only NEW_OWNER / ALREADY_OWNER / FAIL, and FAIL on every other path")
    for f in one(ctx, fx, LMB + "::tryAcquire"):
        fn = ctx.fn(f)
        site = f["qn"]
        is_trylock_lit = lambda t: t.get("k") == "call" and try_lock(dict(t, k="call"))
        sets = list(fn.events(set_owner))
        bad = fn.guarded_positions(set_owner, is_trylock_lit, True)
        ctx.ob("C02.tryacq.set-after-trylock", site, not bad,
               "owner set on a path without successful try_lock: %s" % [fn.loc(p) for p in bad],
               fn.loc(), "owner", fnkey=f["key"])
        rets = R.ret_values(fn)
        names = {}
        for pos, v, p in rets:
            names[pos] = (p or "").split("::")[-1]
        new_rets = [pos for pos in names if names[pos] == "NEW_OWNER"]
        ctx.floor("return NEW_OWNER in tryAcquire", len(new_rets), 1)
        is_new = lambda e: e.get("k") == "ret" and (e.get("p") or "").split("::")[-1] == "NEW_OWNER"
        bad1 = fn.guarded_positions(is_new, is_trylock_lit, True)
        bad2 = fn.reaches_without(is_new, set_owner)
        ctx.ob("C02.tryacq.new-owner-sets", site, not bad1 and not bad2,
               "NEW_OWNER returned without try_lock success %s / without recording the owner %s" %
               ([fn.loc(p) for p in bad1], [fn.loc(p) for p in bad2]), fn.loc(), "NEW_OWNER",
               fnkey=f["key"])
        is_already = lambda e: e.get("k") == "ret" and (e.get("p") or "").split("::")[-1] == "ALREADY_OWNER"

        def owner_is_this(t):
            if t.get("k") != "bin" or t.get("op") != "==":
                return False
            a, b = S(t["l"]), S(t["r"])
            return ("this" in (a, b)) and any("getOwner" in x or "getValue" in x for x in (a, b))
        bad3 = fn.guarded_positions(is_already, owner_is_this, True)
        n_al = sum(1 for _ in fn.events(is_already))
        ctx.floor("return ALREADY_OWNER in tryAcquire", n_al, 1)
        ctx.ob("C02.tryacq.already-owner-guard", site, not bad3,
               "ALREADY_OWNER returned without the owner==this test: %s" % [fn.loc(p) for p in bad3],
               fn.loc(), "ALREADY_OWNER", fnkey=f["key"])
        okset = {"NEW_OWNER", "ALREADY_OWNER", "FAIL"}
        bad4 = [fn.loc(p) for p in names if names[p] not in okset]
        # the path on which neither test succeeded must return FAIL
        e_try = fn.guard_edges(is_trylock_lit, True)
        e_own = fn.guard_edges(owner_is_this, True)
        ge = e_try | e_own
        hits, ex = fn.search([fn.entry_state()], stop=lambda e: e.get("k") == "ret",
                             edge_ok=lambda b, i, s: (b, i) not in ge)
        bad5 = [fn.loc(p) for p in hits if names.get(p) != "FAIL"]
        ctx.ob("C02.tryacq.returns", site, not bad4 and not bad5 and not ex,
               "unexpected return %s; non-FAIL on the failure path %s" % (bad4, bad5),
               fn.loc(), "FAIL", fnkey=f["key"])

    # ------------------------------------------------------------- acquire
    ctx.rule("C02.acquire.new-owner-nhood",
             "SimpleRuntimeContext::acquire: status NEW_OWNER => addToNhood exactly once on every path; "
             "ALREADY_OWNER => never; FAIL => no normal return (signalConflict) and no addToNhood; no path returns without "
             "tryAcquire / subAcquire / signalConflict")
    for f in one(ctx, fx, CTX + "::acquire"):
        fn = ctx.fn(f)
        site = f["qn"]
        tacq = list(fn.events(is_call(fn=LMB + "::tryAcquire")))
        ctx.floor("tryAcquire call in acquire", len(tacq), 1)
        en = fx.enums.get(LMB + "::AcquireStatus")
        enum = dict(en["values"]) if en else {}
        need = {"FAIL", "NEW_OWNER", "ALREADY_OWNER"}
        if not need <= set(enum):
            ctx.broken("enum AcquireStatus not found or incomplete: %s" % sorted(enum))
            continue
        add_p = is_call(fn=CTX + "::addToNhood")
        # no way around the decision: every path through acquire() asks the owner word (tryAcquire), delegates to the
        # context's own protocol (subAcquire, deterministic executor) or signals a conflict. A "fast path" that returns on
        # some other evidence (the object is linked into A neighbourhood list, a flag says read-only, ..) lets a second
        # iteration proceed on an object another one owns.
        decide = lambda x: x.get("k") == "call" and x.get("name") in ("tryAcquire", "subAcquire", "signalConflict")
        ctx.ob("C02.acquire.new-owner-nhood", site, not fn.exit_reachable_without(decide),
               "a path returns from acquire() without tryAcquire / subAcquire / signalConflict: the caller goes on although "
               "ownership of the object was never established", fn.loc(), "decides", fnkey=f["key"])
        for pos, e in tacq:
            # the variable the status is stored in
            tracked = {S(e)}
            for p2, e2 in fn.events(lambda x: x.get("k") in ("assign", "decl")):
                src = e2.get("rhs") if e2["k"] == "assign" else e2.get("init")
                if src is not None and any(n.get("sid") == e.get("sid") for n in walk(src)):
                    tracked.add(e2["lp"] if e2["k"] == "assign" else e2["n"])
            for status in ("NEW_OWNER", "ALREADY_OWNER", "FAIL"):
                env = {t: enum[status] for t in tracked}
                eok = R.edges_under(fn, env)
                hits, ex = fn.search([fn.after(pos)], stop=add_p, edge_ok=eok)
                if status == "NEW_OWNER":
                    ok = bool(hits) and not ex
                    # exactly once: after an add no second add
                    for h in hits:
                        h2, _ = fn.search([fn.after(h)], stop=add_p, edge_ok=eok)
                        ok = ok and not h2
                    det = "a path with status NEW_OWNER returns without addToNhood (or adds twice)"
                elif status == "ALREADY_OWNER":
                    ok = not hits and ex
                    det = "status ALREADY_OWNER reaches addToNhood or never returns"
                else:
                    ok = not hits and not ex
                    det = "status FAIL returns normally (no signalConflict) or reaches addToNhood"
                ctx.ob("C02.acquire.new-owner-nhood", site, ok, det, fn.loc(pos), status, fnkey=f["key"])

    ctx.rule("C02.nhood.link", "addToNhood links the lockable at the head: next = locks precedes locks = lockable")
    for f in one(ctx, fx, CTX + "::addToNhood"):
        fn = ctx.fn(f)
        a1 = is_assign(lp=r"->next$")
        a2 = is_assign(lp=r"(^|>)locks$")
        n1 = [p for p, e in fn.events(a1) if "locks" in (e.get("rp") or "")]
        n2 = [p for p, e in fn.events(a2)]
        ok = bool(n1) and bool(n2) and not fn.reaches_without(a2, a1) and not fn.exit_reachable_without(a2)
        ctx.ob("C02.nhood.link", f["qn"], ok, "list head updated before/without linking the old head",
               fn.loc(), "locks", fnkey=f["key"])

    # --------------------------------------------------------- release walk
    ctx.rule("C02.walk.exit-only-empty", "commitIteration returns only when the lock list is empty")
    ctx.rule("C02.walk.advance-unlink-release",
             "each loop round advances the list, clears the entry's link and then releases that entry's lock")
    ctx.rule("C02.walk.cancel", "cancelIteration performs the same release walk on every path")
    ctx.rule("C02.release.unlocks", "release() clears the owner word on every path")
    rel_p = R.with_wrappers(unlock_p, w_unl)
    for f in one(ctx, fx, CTX + "::commitIteration"):
        fn = ctx.fn(f)
        site = f["qn"]
        locks_lit = lambda t: S(t) in ("this->locks", "locks")
        ge = fn.guard_edges(locks_lit, False)
        ctx.floor("`locks` loop test in commitIteration", len(ge), 1)
        # remove the edges on which locks==null is established: exit must be unreachable
        _, ex = fn.search([fn.entry_state()], edge_ok=lambda b, i, s: (b, i) not in ge)
        ctx.ob("C02.walk.exit-only-empty", site, not ex,
               "a path returns while the lock list may be non-empty", fn.loc(), "locks", fnkey=f["key"])
        adv = lambda e: is_assign(lp=r"(^|>)locks$")(e) and "next" in (e.get("rp") or "")
        unl = lambda e: is_assign(lp=r"->next$")(e) and (e.get("rp") in ("0", "nullptr"))
        rels = list(fn.events(rel_p))
        ctx.floor("release event in commitIteration", len(rels), 1)
        starts = [fn.entry_state()] + [fn.after(p) for p, _ in rels]
        b1 = fn.reaches_without(rel_p, adv, starts=starts)
        b2 = fn.reaches_without(rel_p, unl, starts=starts)
        # between two advances there must be a release (no entry skipped)
        advs = list(fn.events(adv))
        b3 = []
        for p, _ in advs:
            h, _ = fn.search([fn.after(p)], stop=lambda e: adv(e) or rel_p(e))
            b3 += [q for q in h if adv(fn.ev(q))]
            if fn.exit_reachable_without(rel_p, starts=[fn.after(p)]):
                b3.append(p)
        ctx.ob("C02.walk.advance-unlink-release", site, not b1 and not b2 and not b3,
               "release without advancing %s / without unlinking %s / entry dropped without release %s" % (
                   [fn.loc(p) for p in b1], [fn.loc(p) for p in b2], [fn.loc(p) for p in b3]),
               fn.loc(), "locks", fnkey=f["key"])
    walk_fns = {CTX + "::commitIteration"}
    for f in one(ctx, fx, CTX + "::cancelIteration"):
        fn = ctx.fn(f)
        p = is_call(fn_in=walk_fns)
        ok = not fn.exit_reachable_without(p)
        ctx.ob("C02.walk.cancel", f["qn"], ok, "a path returns without the release walk", fn.loc(),
               "cancelIteration", fnkey=f["key"])
    for qn in (CTX + "::release", LMB + "::release"):
        for f in one(ctx, fx, qn):
            fn = ctx.fn(f)
            ok = not fn.exit_reachable_without(unlock_p)
            ctx.ob("C02.release.unlocks", f["qn"], ok, "a path returns without owner.unlock_and_clear()",
                   fn.loc(), "owner", fnkey=f["key"])

    # ----------------------------------------------------------- flag table
    ctx.rule("C02.flags.table", "shouldLock: READ, WRITE -> true; UNPROTECTED, PREVIOUS -> false")
    ctx.rule("C02.flags.acquire", "acquire() calls doAcquire exactly when shouldLock(m) is true; "
             "doAcquire calls ctx->acquire whenever a thread context is installed")
    for f in one(ctx, fx, "galois::runtime::shouldLock"):
        fn = ctx.fn(f)
        tab = R.switch_table(fn)
        want = {0: {0}, 1: {1}, 2: {1}, 4: {0}}
        for v, exp in want.items():
            got = tab.get(v)
            ctx.ob("C02.flags.table", f["qn"], got == exp,
                   "MethodFlag value %d maps to %s, expected %s" % (v, got, exp), fn.loc(),
                   "flag=%d" % v, fnkey=f["key"])
        # the switch must be over the masked flag
        sw = [b for b in fn.blocks.values() if (b.get("term") or {}).get("cls") == "SwitchStmt"]
        ok = bool(sw) and all("INTERNAL_MASK" in (b["term"].get("text") or "") for b in sw)
        ctx.ob("C02.flags.table", f["qn"], ok, "switch is not over (flag & INTERNAL_MASK)", fn.loc(),
               "mask", fnkey=f["key"])
    for f in one(ctx, fx, "galois::runtime::acquire"):
        fn = ctx.fn(f)
        da = is_call(fn="galois::runtime::doAcquire")
        sl = lambda t: t.get("k") == "call" and t.get("fn") == "galois::runtime::shouldLock"
        bad = fn.guarded_positions(da, sl, True)
        # and on the true edge doAcquire must happen
        ge = fn.guard_edges(sl, False)
        ex = fn.exit_reachable_without(da, edge_ok=lambda b, i, s: (b, i) not in ge)
        n = sum(1 for _ in fn.events(da))
        ctx.ob("C02.flags.acquire", f["qn"], n >= 1 and not bad and not ex,
               "doAcquire not tied to shouldLock(m)", fn.loc(), "doAcquire", fnkey=f["key"])
    for f in one(ctx, fx, "galois::runtime::doAcquire"):
        fn = ctx.fn(f)
        ca = is_call(fn=CTX + "::acquire")
        ctxlit = lambda t: S(t) == "ctx" or (t.get("k") == "call" and t.get("fn") == "galois::runtime::getThreadContext")
        ge = fn.guard_edges(ctxlit, False)
        ex = fn.exit_reachable_without(ca, edge_ok=lambda b, i, s: (b, i) not in ge)
        n = sum(1 for _ in fn.events(ca))
        # the context must come from getThreadContext
        src = any(True for _ in fn.events(lambda e: e.get("k") == "decl" and "getThreadContext" in (e.get("ip") or "")))
        ctx.ob("C02.flags.acquire", f["qn"], n >= 1 and not ex and src,
               "a path with an installed thread context skips ctx->acquire", fn.loc(), "ctx->acquire",
               fnkey=f["key"])

    # ------------------------------------------------------- executor pairing
    ctx.rule("C02.exec.start-op-commit",
             "doProcess: (conflict detection on) startIteration precedes the operator call; the operator "
             "call is followed on every path by commitIteration")
    ctx.rule("C02.exec.commit-releases",
             "executor commitIteration: (conflict detection on) ctx.commitIteration() on every path; "
             "per-iteration allocator reset when requested")
    ctx.rule("C02.exec.abort-cancels",
             "abortIteration: ctx.cancelIteration(), push-buffer reset (if pushes) and allocator reset "
             "(if per_iter_alloc) on every path")
    ctx.rule("C02.exec.conflict-path",
             "runQueueDispatch: the conflict arm (setjmp != 0 / catch) reaches abortIteration on every path")
    ctx.rule("C02.exec.no-early-publication",
             "an attempt that may still abort publishes nothing: in go<couldAbort=true> setFastPushBack is unreachable, the only "
             "calls that push to the worklist are commitIteration (after the operator returned) and fastPushBack, and "
             "UserContext::push flushes early only through the installed fastPushBack hook")
    ctx.rule("C02.exec.thread-context",
             "go<couldAbort>: setThreadContext(&tld.ctx) precedes the first runQueue; setThreadContext(0) on every exit")
    inst = executor_instances(fx)
    ctx.floor("ForEachExecutor instantiations", len(inst), 60)
    n_abort_inst = 0
    for clsk, d in sorted(inst.items()):
        c = d["consts"]
        if "needsAborts" not in c:
            ctx.broken("no needsAborts constant for " + short(clsk))
            continue
        na, npush, npia = bool(c["needsAborts"]), bool(c.get("needsPush")), bool(c.get("needsPia"))
        n_abort_inst += na
        for f in d["fns"].get("doProcess", []):
            fn = ctx.fn(f)
            opcall = lambda e: e.get("k") == "call" and (e.get("rp") or "").endswith(".function")
            ops = list(fn.events(opcall))
            if len(ops) != 1:
                ctx.ob("C02.exec.start-op-commit", FE + "::doProcess", False,
                       "expected exactly one operator call, found %d" % len(ops), fn.loc(), "operator",
                       fnkey=f["key"])
                continue
            commit = is_call(fn=FE + "::commitIteration")
            ok = fn.must_follow(ops[0][0], commit)
            if na:
                start = is_call(fn=CTX + "::startIteration", recv=r"\.ctx$")
                ok = ok and not fn.reaches_without(opcall, start)
            ctx.ob("C02.exec.start-op-commit", FE + "::doProcess", ok,
                   "operator call not bracketed by startIteration/commitIteration", fn.loc(ops[0][0]),
                   "operator", fnkey=f["key"])
        for f in d["fns"].get("commitIteration", []):
            fn = ctx.fn(f)
            ok = True
            det = []
            if na:
                p = is_call(fn=CTX + "::commitIteration", recv=r"\.ctx$")
                if fn.exit_reachable_without(p):
                    ok = False
                    det.append("path without ctx.commitIteration()")
            if npia:
                p = is_call(name="resetAlloc")
                if fn.exit_reachable_without(p):
                    ok = False
                    det.append("path without resetAlloc()")
            ctx.ob("C02.exec.commit-releases", FE + "::commitIteration", ok, "; ".join(det), fn.loc(),
                   "ctx", nontrivial=na or npia, fnkey=f["key"])
        for f in d["fns"].get("abortIteration", []):
            if not na:
                continue
            fn = ctx.fn(f)
            det = []
            if fn.exit_reachable_without(is_call(fn=CTX + "::cancelIteration", recv=r"\.ctx$")):
                det.append("path without ctx.cancelIteration()")
            if npush and fn.exit_reachable_without(is_call(name="resetPushBuffer")):
                det.append("path without resetPushBuffer()")
            if npia and fn.exit_reachable_without(is_call(name="resetAlloc")):
                det.append("path without resetAlloc()")
            ctx.ob("C02.exec.abort-cancels", FE + "::abortIteration", not det, "; ".join(det), fn.loc(),
                   "abort", fnkey=f["key"])
        for f in d["fns"].get("runQueueDispatch", []):
            if not na:
                continue
            fn = ctx.fn(f)
            sj = lambda t: t.get("k") == "call" and "setjmp" in (t.get("fn") or t.get("name") or "")
            ge_ok = fn.guard_edges(sj, False)     # edges where setjmp(...) == 0 holds
            ge_conf = fn.guard_edges(sj, True)    # edges where setjmp(...) != 0
            ab = is_call(fn=FE + "::abortIteration")
            if not ge_conf:
                ctx.ob("C02.exec.conflict-path", FE + "::runQueueDispatch", False,
                       "no setjmp branch found", fn.loc(), "setjmp", fnkey=f["key"])
                continue
            ok = True
            for (b, i) in ge_conf:
                s = fn.blocks[b]["succ"][i]
                if s is None:
                    continue
                _, ex = fn.search([(s, 0)], stop=ab)
                if ex:
                    ok = False
            # and the item aborted is the in-flight item held in the state object
            args_ok = all(("item" in S(e["a"][0])) for _, e in fn.events(ab) if e.get("a"))
            ctx.ob("C02.exec.conflict-path", FE + "::runQueueDispatch", ok and args_ok,
                   "conflict arm can return without abortIteration(in-flight item)", fn.loc(), "setjmp",
                   fnkey=f["key"])
        # worklist pushes only from commitIteration / fastPushBack / initThread (push_initial)
        for nm, lst in d["fns"].items():
            if nm in ("commitIteration", "fastPushBack", "initThread"):
                continue
            for f in lst:
                fn = ctx.fn(f)
                bad = [fn.loc(p) for p, e in fn.events(lambda e: e.get("k") == "call" and e.get("name") in ("push", "push_initial")
                                                      and (e.get("rp") or "").endswith("wl"))]
                if bad:
                    ctx.ob("C02.exec.no-early-publication", FE + "::" + nm, False,
                           "worklist push outside commitIteration/fastPushBack at %s" % bad, fn.loc(), "wl.push", fnkey=f["key"])
        for f in d["fns"].get("go", []):
            fn = ctx.fn(f)
            ta0 = f.get("targs", "")
            tail0 = ta0.split("||")[-1].strip() if "||" in ta0 else ""
            if tail0.startswith("true"):
                nfp = sum(1 for _ in fn.events(is_call(name="setFastPushBack")))
                ctx.ob("C02.exec.no-early-publication", FE + "::go", nfp == 0,
                       "fast push-back is armed in an instantiation whose iterations can abort: pushes of an aborted attempt "
                       "escape to the worklist", fn.loc(), "setFastPushBack", fnkey=f["key"])
        for f in d["fns"].get("go", []):
            fn = ctx.fn(f)
            could_abort = "go<true" in f["key"] or "|| true" in f.get("targs", "")
            ta = f.get("targs", "")
            tail = ta.split("||")[-1].strip() if "||" in ta else ""
            could_abort = tail.startswith("true")
            if not could_abort:
                continue
            setc = is_call(fn="galois::runtime::setThreadContext")
            sets = list(fn.events(setc))
            inst_p = lambda e: setc(e) and "ctx" in S(e["a"][0])
            clear_p = lambda e: setc(e) and S(e["a"][0]) in ("0", "nullptr")
            rq = is_call(fn=FE + "::runQueue")
            ok1 = not fn.reaches_without(rq, inst_p) and any(True for _ in fn.events(rq))
            ok2 = not fn.exit_reachable_without(clear_p)
            ctx.ob("C02.exec.thread-context", FE + "::go", ok1 and ok2,
                   "thread context not installed before the first runQueue / not cleared on an exit",
                   fn.loc(), "setThreadContext", fnkey=f["key"])
    ctx.floor("ForEachExecutor instantiations with conflict detection", n_abort_inst, 30)

    ups = [f for f in fx.functions if f["qn"] == "galois::UserContext::push" and f["kind"] == "inst"]
    ctx.floor("UserContext::push instantiations", len(ups), 1)
    for f in ups[:4]:
        fn = ctx.fn(f)
        fp = lambda e: e.get("k") == "call" and (e.get("rp") or "").endswith("fastPushBack") and e.get("op") == "()"
        hook = lambda t: S(t).endswith("fastPushBack") or (t.get("k") == "call" and "fastPushBack" in S(t))
        det = []
        if fn.guarded_positions(fp, hook, True):
            det.append("early flush not guarded by the installed hook")
        emp = lambda e: e.get("k") == "call" and e.get("name") in ("emplace_back", "push_back") and (e.get("rp") or "").endswith("pushBuffer")
        if fn.exit_reachable_without(emp):
            det.append("push does not buffer the item")
        other = [fn.loc(p) for p, e in fn.events(lambda e: e.get("k") == "call" and e.get("name") == "push" and "wl" in (e.get("rp") or ""))]
        if other:
            det.append("UserContext::push publishes directly")
        ctx.ob("C02.exec.no-early-publication", "galois::UserContext::push", not det, "; ".join(det), fn.loc(), "push",
               fnkey=f["key"])

    # ---------------------------------------------------------- access control
    ctx.rule("C02.access", "the lock word and neighbourhood link of Lockable, the lock-manager primitives and the "
             "UserContext reset hooks are not accessible from user code (private/protected + fixed friend list)")
    r = fx.record("galois::runtime::Lockable")
    if r is None:
        ctx.broken("record Lockable not found")
    else:
        for fld in ("owner", "next"):
            ff = [x for x in r["fields"] if x["n"] == fld]
            ctx.ob("C02.access", r["qn"], bool(ff) and ff[0]["access"] == "private",
                   "Lockable::%s is not private" % fld, "%s:%s" % (r["file"], r["line"]), fld)
        extra = {x.replace("class ", "").replace("struct ", "") for x in r.get("friends", [])} - {"galois::runtime::LockManagerBase", "galois::runtime::SimpleRuntimeContext",
                                             "LockManagerBase", "SimpleRuntimeContext"}
        ctx.ob("C02.access", r["qn"], not extra, "unexpected friend(s) of Lockable: %s" % sorted(extra),
               "%s:%s" % (r["file"], r["line"]), "friends")
    r = fx.record(LMB)
    if r is None:
        ctx.broken("record LockManagerBase not found")
    else:
        for m in ("tryAcquire", "stealByCAS", "CASowner", "setOwner", "release", "tryLock"):
            mm = [x for x in r["methods"] if x["n"] == m]
            ctx.ob("C02.access", r["qn"], bool(mm) and all(x["access"] != "public" for x in mm),
                   "LockManagerBase::%s is public or missing" % m, "%s:%s" % (r["file"], r["line"]), m)
    ucs = [r for r in fx.records if r["qn"] == "galois::UserContext"]
    ctx.floor("UserContext instantiations", len(ucs), 1)
    for r in ucs[:3]:
        for m in ("__resetAlloc", "__getPushBuffer", "__resetPushBuffer", "__setFastPushBack"):
            mm = [x for x in r["methods"] if x["n"] == m]
            ctx.ob("C02.access", r["qn"], bool(mm) and all(x["access"] != "public" for x in mm),
                   "UserContext::%s is public or missing" % m, "%s:%s" % (r["file"], r["line"]), m)
        ff = [x for x in r["fields"] if x["n"] == "pushBuffer"]
        ctx.ob("C02.access", r["qn"], bool(ff) and ff[0]["access"] != "public",
               "UserContext::pushBuffer is public", "%s:%s" % (r["file"], r["line"]), "pushBuffer")

    # memory orders on the owner word (shared table with C06)
    try:
        from . import mo
        mo.check_rows(ctx, fx, prefix="C02", rows=mo.PTRLOCK_ROWS)
    except ImportError:
        pass
