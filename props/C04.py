"""C04 - termination detection (structural clauses), ring and tree detectors."""
import re
from gsa.cfg import Fn, S, is_call, is_assign, walk, lit
from gsa import rules as R
from . import mo
from .common import executor_instances, FE

EXPL = ("Ring detector (LocalTerminationDetection) and tree detector (TreeTerminationDetection), every CFG path: the "
        "announcement is guarded by token-held, master, previous-round-clean and not-tainted, where the taint is the "
        "disjunction of the token colour and the process colour read before they are cleared; reported work is "
        "or-ed into the process colour before any token handling; the own token flag is cleared before the token is "
        "forwarded, and the colour is stored before the flag; globalTerm is written only by propGlobalTerm (true) and "
        "initializeThread (false); re-arming gives the token to the master only and blackens every process; executors "
        "re-arm, then wait on a barrier, then report; token fields are atomic with release/acquire orders. The "
        "two-pass argument itself (Dijkstra) and the bounded-delay liveness claim are not mechanised.")

LTD = mo.LTD
TTD = "galois::substrate::internal::TreeTerminationDetection"


def inst(fx, qn):
    return [f for f in fx.fns(qn=qn) if f["kind"] == "inst"]


def run(ctx):
    ctx.explanation = EXPL
    fx = ctx.load("src", "drv_foreach", "drv_term")
    ring(ctx, fx)
    tree(ctx, fx)
    who(ctx, fx)
    executors(ctx, fx)
    counted(ctx, fx)
    mo.check_rows(ctx, fx, "C04", mo.TERMINATION_ROWS, floor=8)
    mo.check_atomic_fields(ctx, fx, "C04", [r for r in mo.MUST_BE_ATOMIC if "TokenHolder" in r[0]] +
                           mo.MUST_BE_ATOMIC_TERMINATION)


def counted(ctx, fx):
    ctx.rule("C04.exec.work-counted-before-abortable-call",
             "runQueueDispatch: every item popped is counted (++s.num) before doProcess is called - doProcess does not return "
             "when the iteration aborts, and an attempt that parked its item in an abort queue must still report the thread as "
             "having worked, otherwise all threads report idle while the only remaining work sits in abort queues and the "
             "detector announces termination; runQueue returns s.num > 0")
    n = 0
    for f in [g for g in fx.functions if g["qn"] == FE + "::runQueueDispatch" and g["kind"] == "inst"]:
        fn = ctx.fn(f)
        al = fn.aliases()
        dp = is_call(name="doProcess")
        cnt = lambda e: e.get("k") == "assign" and S(e.get("lhs"), al).endswith(".num") and e.get("op") in ("++", "+=")
        det = []
        if not any(True for _ in fn.events(dp)):
            continue
        n += 1
        if not any(True for _ in fn.events(cnt)):
            det.append("popped items are never counted")
        # from every pop, doProcess is not reachable without the count
        for p, e in fn.events(lambda e: e.get("k") == "call" and e.get("name") == "pop"):
            if fn.reaches_without(dp, cnt, starts=[fn.after(p)]):
                det.append("doProcess is reachable from the pop at line %s before the item is counted: an aborted attempt is "
                           "not reported as work" % e.get("l"))
        ctx.ob("C04.exec.work-counted-before-abortable-call", FE + "::runQueueDispatch", not det, "; ".join(sorted(set(det))),
               fn.loc(), f.get("targs", "")[-60:], fnkey=f["key"])
    for f in [g for g in fx.functions if g["qn"] == FE + "::runQueue" and g["kind"] == "inst"][:40]:
        fn = ctx.fn(f)
        rets = {S(e.get("e")) for _, e in fn.events(lambda e: e["k"] == "ret")}
        ctx.ob("C04.exec.work-counted-before-abortable-call", FE + "::runQueue", rets == {"(s.num > 0)"},
               "returns %s" % sorted(rets), fn.loc(), f.get("targs", "")[-60:], fnkey=f["key"])
    ctx.floor("runQueueDispatch instantiations", n, 20)


def ring(ctx, fx):
    ctx.rule("C04.ring.announce-guard",
             "localTermination: propGlobalTerm() only when this thread holds the token, is the master, the previous "
             "round was clean and this round is not tainted; the taint is tokenIsBlack || processIsBlack")
    ctx.rule("C04.ring.work-taints", "localTermination: workHappened is or-ed into processIsBlack on every path before the "
             "token is examined; the forwarded colour is processIsBlack || tokenIsBlack, read before they are cleared")
    ctx.rule("C04.ring.order", "the own hasToken is cleared before propToken; propToken stores the colour before the flag and "
             "targets the next thread in the ring; the consumer reads the flag before the colour")
    ctx.rule("C04.ring.rearm", "initializeThread: processIsBlack = true, lastWasWhite re-armed, token colour white, and the "
             "token is given to the master only")
    fs = inst(fx, LTD + "::localTermination")
    ctx.floor("LocalTerminationDetection::localTermination", len(fs), 1)
    for f in fs[:1]:
        fn = ctx.fn(f)
        al = fn.aliases()
        defs = fn.defs()
        site = f["qn"]
        pg = is_call(name="propGlobalTerm")
        n = sum(1 for _ in fn.events(pg))
        det = []
        if n != 1:
            det.append("propGlobalTerm call sites: %d" % n)
        has_tok = lambda t: S(t, al).endswith("hasToken")
        master = lambda t: t.get("k") == "call" and t.get("name") == "isSysMaster"
        lww = lambda t: S(t, al).endswith("lastWasWhite")
        failed = lambda t: S(t) == "failed"
        for nm, p, want in (("hasToken", has_tok, True), ("isSysMaster()", master, True),
                            ("lastWasWhite", lww, True), ("!failed", failed, False)):
            if fn.guarded_positions(pg, p, want):
                det.append("announcement not guarded by " + nm)
        fd = defs.get("failed")
        fs_ = S(fd, al) if fd is not None else ""
        if not (isinstance(fd, dict) and fd.get("k") == "bin" and fd.get("op") == "||" and
                "tokenIsBlack" in fs_ and "processIsBlack" in fs_ and "&&" not in fs_ and "!" not in fs_):
            det.append("`failed` is not tokenIsBlack || processIsBlack: %s" % fs_)
        # after the announcement the function returns (the token is not forwarded)
        for p, _ in fn.events(pg):
            h, _ = fn.search([fn.after(p)], stop=is_call(name="propToken"))
            if h:
                det.append("token forwarded after announcing termination")
        # lastWasWhite is updated to !failed on the non-announcing master path
        lw = [e for _, e in fn.events(lambda e: e.get("k") == "assign" and S(e.get("lhs"), al).endswith("lastWasWhite"))]
        if len(lw) != 1 or S(lw[0].get("rhs")) != "!failed":
            det.append("lastWasWhite not set to !failed")
        ctx.ob("C04.ring.announce-guard", site, not det, "; ".join(det), fn.loc(), "propGlobalTerm", fnkey=f["key"])

        det = []
        wh = f["params"][0]["n"]
        taint_in = lambda e: e.get("k") == "assign" and S(e.get("lhs"), al).endswith("processIsBlack") and \
            e.get("op") in ("|=", "=") and wh in S(e.get("rhs")) and \
            (e.get("op") == "|=" or ("processIsBlack" in S(e.get("rhs"), al) and "||" in S(e.get("rhs")) or "|" in S(e.get("rhs"))))
        tok_read = lambda e: e.get("k") == "atomic" and e["kind"] == "load" and e["p"].endswith("hasToken")
        if not any(True for _ in fn.events(taint_in)):
            det.append("workHappened is not or-ed into processIsBlack")
        if fn.reaches_without(tok_read, taint_in):
            det.append("token examined on a path that did not record workHappened")
        pt = is_call(name="propToken")
        args = [e["a"][0] for _, e in fn.events(pt) if e.get("a")]
        if len(args) != 1:
            det.append("propToken call sites: %d" % len(args))
        else:
            a = args[0]
            name = S(a)
            td = defs.get(name) if a.get("k") == "ref" else a
            ts = S(td, al) if td is not None else ""
            if not (isinstance(td, dict) and td.get("k") == "bin" and td.get("op") == "||" and
                    "processIsBlack" in ts and "tokenIsBlack" in ts and "&&" not in ts and "!" not in ts):
                det.append("forwarded colour is %s, not processIsBlack || tokenIsBlack" % (ts or name))
            # read before cleared, on the non-master path
            clear = lambda e: (e.get("k") == "assign" and S(e.get("lhs"), al).endswith("processIsBlack") and
                               S(e.get("rhs"), al).endswith("false") or
                               (e.get("k") == "atomic" and e["kind"] == "store" and e["p"].endswith("tokenIsBlack")))
            tdecl = lambda e: e.get("k") == "decl" and e.get("n") == name
            master = lambda t: t.get("k") == "call" and t.get("name") == "isSysMaster"
            ge_m = fn.guard_edges(master, True)
            if fn.reaches_without(clear, tdecl, edge_ok=lambda b, i, s: (b, i) not in ge_m):
                det.append("colours cleared before the forwarded colour is computed (non-master path)")
            fdecl = lambda e: e.get("k") == "decl" and e.get("n") == "failed"
            if fn.reaches_without(clear, lambda e: fdecl(e) or tdecl(e)):
                det.append("colours cleared before `failed` is computed")
            # every token-holding, non-announcing path forwards the token
            ge_tok = fn.guard_edges(lambda t: S(t, al).endswith("hasToken"), False)
            if fn.exit_reachable_without(lambda e: pt(e) or is_call(name="propGlobalTerm")(e),
                                         edge_ok=lambda b, i, s: (b, i) not in ge_tok):
                det.append("a path holding the token neither forwards it nor announces")
            if fn.guarded_positions(pt, lambda t: S(t, al).endswith("hasToken"), True):
                det.append("token forwarded by a thread that does not hold it")
        ctx.ob("C04.ring.work-taints", site, not det, "; ".join(det), fn.loc(), "taint", fnkey=f["key"])

        det = []
        own_clear = lambda e: e.get("k") == "atomic" and e["kind"] == "store" and e["p"].endswith("hasToken") and \
            S(e["a"][0]) in ("false", "0")
        if fn.reaches_without(pt, own_clear):
            det.append("propToken reached before clearing the own hasToken")
        ld_flag = tok_read
        ld_col = lambda e: e.get("k") == "atomic" and e["kind"] == "load" and e["p"].endswith("tokenIsBlack")
        if fn.reaches_without(ld_col, ld_flag):
            det.append("token colour read before the token flag")
        ctx.ob("C04.ring.order", site, not det, "; ".join(det), fn.loc(), "order", fnkey=f["key"])
    fs = inst(fx, LTD + "::propToken")
    ctx.floor("LocalTerminationDetection::propToken", len(fs), 1)
    for f in fs[:1]:
        fn = ctx.fn(f)
        al = fn.aliases()
        col = lambda e: e.get("k") == "atomic" and e["kind"] == "store" and e["p"].endswith("tokenIsBlack")
        flg = lambda e: e.get("k") == "atomic" and e["kind"] == "store" and e["p"].endswith("hasToken")
        det = []
        if fn.reaches_without(flg, col) or fn.exit_reachable_without(flg) or fn.exit_reachable_without(col):
            det.append("flag stored before (or without) the colour")
        cv = {S(e["a"][0]) for _, e in fn.events(col)}
        if cv != {f["params"][0]["n"]}:
            det.append("colour stored is %s" % sorted(cv))
        fv = {S(e["a"][0]) for _, e in fn.events(flg)}
        if fv != {"true"}:
            det.append("flag stored is %s" % sorted(fv))
        tgt = {e["p"] for _, e in fn.events(flg)}
        # the successor is (own thread id + 1) % activeThreads: locals are expanded through their definitions, so the names of
        # the id / holder locals do not matter
        al2 = dict(al)
        al2.update(fn.defs())
        objs = [S(e["obj"], al2) for _, e in fn.events(flg)] + [S(e["obj"], al2) for _, e in fn.events(col)]
        succ_rx = re.compile(r"getRemote\(\(\((\w+::)*getTID\(\) \+ 1\) % this->activeThreads\)\)|"
                             r"getRemote\(\(\(1 \+ (\w+::)*getTID\(\)\) % this->activeThreads\)\)")
        if not objs or not all(succ_rx.search(o) for o in objs):
            det.append("token is not sent to (own thread id + 1) %% activeThreads: %s" % sorted(set(objs)))
        ctx.ob("C04.ring.order", f["qn"], not det, "; ".join(det), fn.loc(), "propToken", fnkey=f["key"])
    fs = inst(fx, LTD + "::initializeThread")
    ctx.floor("LocalTerminationDetection::initializeThread", len(fs), 1)
    for f in fs[:1]:
        fn = ctx.fn(f)
        al = fn.aliases()
        det = []
        pib = [S(e.get("rhs")) for _, e in fn.events(lambda e: e.get("k") == "assign" and S(e.get("lhs"), al).endswith("processIsBlack"))]
        if pib != ["true"] or fn.exit_reachable_without(lambda e: e.get("k") == "assign" and S(e.get("lhs"), al).endswith("processIsBlack")):
            det.append("processIsBlack not set to true on every path: %s" % pib)
        master = lambda t: t.get("k") == "call" and t.get("name") == "isSysMaster"
        give = lambda e: e.get("k") == "atomic" and e["kind"] == "store" and e["p"].endswith("hasToken") and S(e["a"][0]) in ("true", "1")
        take = lambda e: e.get("k") == "atomic" and e["kind"] == "store" and e["p"].endswith("hasToken") and S(e["a"][0]) in ("false", "0")
        if fn.guarded_positions(give, master, True) or not any(True for _ in fn.events(give)):
            det.append("token given to a non-master thread (or to nobody)")
        ge_m = fn.guard_edges(master, True)
        if fn.exit_reachable_without(take, edge_ok=lambda b, i, s: (b, i) not in ge_m):
            det.append("a non-master thread keeps a stale token")
        ge_nm = fn.guard_edges(master, False)
        if fn.exit_reachable_without(give, edge_ok=lambda b, i, s: (b, i) not in ge_nm):
            det.append("the master does not get the token")
        col = [S(e["a"][0]) for _, e in fn.events(lambda e: e.get("k") == "atomic" and e["kind"] == "store" and e["p"].endswith("tokenIsBlack"))]
        if col != ["false"]:
            det.append("token colour not whitened: %s" % col)
        gt = [e for _, e in fn.events(lambda e: e.get("k") == "call" and e.get("op") == "=" and "globalTerm" in (e.get("rp") or ""))]
        if len(gt) != 1 or S(gt[0]["a"][0]) != "false":
            det.append("globalTerm not reset")
        ctx.ob("C04.ring.rearm", f["qn"], not det, "; ".join(det), fn.loc(), "initializeThread", fnkey=f["key"])


def tree(ctx, fx):
    ctx.rule("C04.tree.announce-guard",
             "processToken: announcement only when all child tokens are present, by the master, after a clean previous "
             "round and with no black child or own work; the colour accumulates every child's up token and the own process colour")
    ctx.rule("C04.tree.rearm", "TreeTerminationDetection::initializeThread blackens the process and resets globalTerm")
    fs = inst(fx, TTD + "::processToken")
    ctx.floor("TreeTerminationDetection::processToken (driver)", len(fs), 1)
    for f in fs[:1]:
        fn = ctx.fn(f)
        al = fn.aliases()
        pg = is_call(name="propGlobalTerm")
        det = []
        for nm, p, want in (("haveAll", lambda t: S(t) == "haveAll", True),
                            ("isSysMaster()", lambda t: t.get("k") == "call" and t.get("name") == "isSysMaster", True),
                            ("lastWasWhite", lambda t: S(t, al).endswith("lastWasWhite"), True),
                            ("!black", lambda t: S(t) == "black", False)):
            if fn.guarded_positions(pg, p, want):
                det.append("announcement not guarded by " + nm)
        if sum(1 for _ in fn.events(pg)) != 1:
            det.append("propGlobalTerm call sites != 1")
        # black starts from processIsBlack and or-accumulates up_token[i]
        bd = [e for _, e in fn.events(lambda e: e.get("k") == "decl" and e.get("n") == "black")]
        if len(bd) != 1 or not S(bd[0].get("init"), al).endswith("processIsBlack"):
            det.append("black is not initialised from processIsBlack")
        acc = [e for _, e in fn.events(lambda e: e.get("k") == "assign" and e.get("lp") == "black")]
        if not acc or not all(e.get("op") == "|=" and "up_token" in S(e.get("rhs"), al) for e in acc):
            det.append("black does not or-accumulate the children's tokens")
        # haveAll starts from hasToken and is cleared when a child token is missing (-1)
        hd = [e for _, e in fn.events(lambda e: e.get("k") == "decl" and e.get("n") == "haveAll")]
        if len(hd) != 1 or not S(hd[0].get("init"), al).endswith("hasToken"):
            det.append("haveAll is not initialised from hasToken")
        ha = [e for _, e in fn.events(lambda e: e.get("k") == "assign" and e.get("lp") == "haveAll")]
        if not ha or not all(S(e.get("rhs")) == "false" for e in ha):
            det.append("haveAll is assigned something other than false")
        # non-master forwards the colour to its parent slot
        up = [e for _, e in fn.events(lambda e: e.get("k") in ("assign", "atomic") and "up_token[th.parent_offset]" in
                                      (e.get("lp") or e.get("p") or "").replace("this->data.getLocal()", "th"))]
        up2 = [e for _, e in fn.events(lambda e: (e.get("k") == "atomic" and e["kind"] == "store" and "parent_offset" in e["p"]) or
                                       (e.get("k") == "assign" and "parent_offset" in e.get("lp", "")))]
        vals = {S(e["a"][0]) if e["k"] == "atomic" else S(e.get("rhs")) for e in up2}
        if vals != {"black"}:
            det.append("colour sent to the parent is %s" % sorted(vals))
        ctx.ob("C04.tree.announce-guard", f["qn"], not det, "; ".join(det), fn.loc(), "propGlobalTerm", fnkey=f["key"])
        # work a thread has reported (processIsBlack) may only be forgotten at the moment it has been folded into a token
        # that travels up: the colour is cleared only under `haveAll` (the one branch in which `black`, which was read from
        # processIsBlack in this very call, is forwarded), and a forwarding of `black` follows on every path
        det = []
        clr = lambda e: (e.get("k") == "assign" and S(e.get("lhs"), al).endswith("processIsBlack") and S(e.get("rhs")) in ("false", "0")) or \
            (e.get("k") == "atomic" and e.get("kind") == "store" and e.get("p", "").endswith("processIsBlack"))
        fwd = lambda e: (e.get("k") == "atomic" and e["kind"] == "store" and "parent_offset" in e["p"]) or \
            (e.get("k") == "assign" and ("parent_offset" in e.get("lp", "") or S(e.get("lhs"), al).endswith("lastWasWhite"))) or pg(e)
        clrs = list(fn.events(clr))
        if not clrs:
            det.append("the process colour is never cleared")
        if fn.guarded_positions(clr, lambda t: S(t) == "haveAll", True):
            det.append("processIsBlack is cleared on a path where not all tokens were present: the colour read into `black` is "
                       "not forwarded there, so work reported since the last up-token is forgotten and termination can be "
                       "announced while that thread is busy")
        for p, _ in clrs:
            if fn.exit_reachable_without(fwd, starts=[fn.after(p)]):
                det.append("processIsBlack cleared without the accumulated colour being sent up / used by the master afterwards")
        # the colour that is forwarded was read before the clearing (black is declared before every clear)
        bdp = [p for p, e in fn.events(lambda e: e.get("k") == "decl" and e.get("n") == "black")]
        if bdp and fn.reaches_without(clr, lambda e: e.get("k") == "decl" and e.get("n") == "black"):
            det.append("processIsBlack cleared before it was read into the colour to forward")
        ctx.rule("C04.tree.colour-cleared-only-when-forwarded",
                 "TreeTerminationDetection::processToken: the thread's own colour (processIsBlack, set by localTermination(true)) "
                 "is cleared only on the `haveAll` branch -- the only one in which `black`, read from processIsBlack in the same "
                 "call, is sent to the parent or evaluated by the master -- after it was read and with the forwarding following "
                 "on every path")
        ctx.ob("C04.tree.colour-cleared-only-when-forwarded", f["qn"], not det, "; ".join(det), fn.loc(), "processIsBlack", fnkey=f["key"])
    fs = inst(fx, TTD + "::initializeThread")
    for f in fs[:1]:
        fn = ctx.fn(f)
        al = fn.aliases()
        det = []
        pib = [S(e.get("rhs")) for _, e in fn.events(lambda e: e.get("k") == "assign" and S(e.get("lhs"), al).endswith("processIsBlack"))]
        if pib != ["true"]:
            det.append("processIsBlack: %s" % pib)
        gt = [e for _, e in fn.events(lambda e: e.get("k") == "call" and e.get("op") == "=" and "globalTerm" in (e.get("rp") or ""))]
        if len(gt) != 1 or S(gt[0]["a"][0]) != "false":
            det.append("globalTerm not reset")
        ctx.ob("C04.tree.rearm", f["qn"], not det, "; ".join(det), fn.loc(), "initializeThread", fnkey=f["key"])
    fs = inst(fx, TTD + "::localTermination")
    for f in fs[:1]:
        fn = ctx.fn(f)
        al = fn.aliases()
        wh = f["params"][0]["n"]
        taint_in = lambda e: e.get("k") == "assign" and S(e.get("lhs"), al).endswith("processIsBlack") and \
            e.get("op") == "|=" and wh in S(e.get("rhs"))
        pt = is_call(name="processToken")
        ok = any(True for _ in fn.events(taint_in)) and not fn.reaches_without(pt, taint_in) and \
            not fn.exit_reachable_without(pt)
        ctx.ob("C04.tree.announce-guard", f["qn"], ok, "workHappened not recorded before processToken", fn.loc(),
               "taint", fnkey=f["key"])


def who(ctx, fx):
    ctx.rule("C04.who.globalTerm", "globalTerm is stored true only in propGlobalTerm and false only in initializeThread; "
             "propGlobalTerm is called only from localTermination/processToken")
    n = 0
    for f in fx.functions:
        if f["kind"] == "pattern":
            continue
        for b in f["blocks"]:
            for e in b["ev"]:
                if e.get("k") == "call" and e.get("op") == "=" and (e.get("rp") or "").endswith("globalTerm"):
                    n += 1
                    v = S(e["a"][0]) if e.get("a") else "?"
                    ok = (f["name"] == "propGlobalTerm" and v in ("true", "1")) or \
                        (f["name"] == "initializeThread" and v in ("false", "0"))
                    ctx.ob("C04.who.globalTerm", f["qn"], ok, "globalTerm = %s in %s" % (v, f["name"]),
                           "%s:%s" % (f["file"], e.get("l")), "globalTerm", fnkey=f["key"])
                if e.get("k") == "call" and e.get("name") == "propGlobalTerm":
                    ok = f["name"] in ("localTermination", "processToken")
                    ctx.ob("C04.who.globalTerm", f["qn"], ok, "propGlobalTerm called from " + f["name"],
                           "%s:%s" % (f["file"], e.get("l")), "propGlobalTerm", fnkey=f["key"])
    ctx.floor("stores to globalTerm", n, 3)
    # getSystemTermination initialises the detector for the given count before returning it
    for f in fx.fns(qn="galois::substrate::getSystemTermination"):
        fn = ctx.fn(f)
        p = lambda e: is_call(name="init")(e) and [S(a) for a in e.get("a", [])] == [f["params"][0]["n"]]
        ctx.ob("C04.who.globalTerm", f["qn"], not fn.exit_reachable_without(p),
               "getSystemTermination returns without init(activeThreads)", fn.loc(), "init", fnkey=f["key"])


def executors(ctx, fx):
    ctx.rule("C04.exec.rearm-barrier-report",
             "for_each / do_all: every thread calls term.initializeThread() in the init phase, a barrier separates the "
             "init phase from the loop body (argument order of ThreadPool::run), and only then localTermination is reported")
    inst_ = executor_instances(fx)
    n = 0
    for clsk, d in sorted(inst_.items()):
        for f in d["fns"].get("initThread", []):
            fn = ctx.fn(f)
            init = is_call(name="initializeThread", recv=r"term$")
            pi = is_call(name="push_initial")
            ok = not fn.exit_reachable_without(init)
            n += 1
            ctx.ob("C04.exec.rearm-barrier-report", FE + "::initThread", ok, "initThread does not re-arm the detector",
                   fn.loc(), "initializeThread", fnkey=f["key"])
    ctx.floor("ForEachExecutor::initThread instantiations", n, 60)
    m = 0
    for f in fx.functions:
        if f["kind"] != "inst" or f["qn"] not in ("galois::runtime::for_each_impl",
                                                   "galois::runtime::internal::ChooseDoAllImpl::call"):
            continue
        fn = ctx.fn(f)
        runs = [e for _, e in fn.events(is_call(name="run"))]
        if f["qn"].endswith("::call") and not runs:
            continue
        m += 1
        det = []
        if len(runs) != 1:
            det.append("ThreadPool::run call sites: %d" % len(runs))
        else:
            a = runs[0].get("a", [])
            kinds = []
            for x in a:
                s = S(x)
                if isinstance(x, dict) and (x.get("k") == "lambda" or "lambda@" in s):
                    kinds.append("init")
                elif "barrier" in s:
                    kinds.append("barrier")
                elif "ref(" in s:
                    kinds.append("body")
                else:
                    kinds.append("n")
            if kinds != ["n", "init", "barrier", "body"]:
                det.append("run(...) phases are %s, expected [count, init, barrier, body]" % kinds)
            # the init lambda calls initThread
            lam = [x for x in a if isinstance(x, dict) and (x.get("k") == "lambda")]
            lamfs = [g for g in fx.functions if lam and g["qn"].endswith(lam[0]["id"]) and g.get("parent", "") and
                     f["key"].startswith(g["parent"][:60])]
            if lam and lamfs:
                if not any(True for _ in Fn(lamfs[0]).events(is_call(name="initThread"))):
                    det.append("init lambda does not call initThread")
        ctx.ob("C04.exec.rearm-barrier-report", f["qn"], not det, "; ".join(det), fn.loc(), "run", fnkey=f["key"])
    ctx.floor("for_each_impl / do_all launch sites", m, 20)
    # do_all stealing executor re-arms in initThread
    k = 0
    for f in fx.functions:
        if f["kind"] == "inst" and f["qn"] == "galois::runtime::internal::DoAllStealingExec::initThread":
            fn = ctx.fn(f)
            k += 1
            ctx.ob("C04.exec.rearm-barrier-report", f["qn"],
                   not fn.exit_reachable_without(is_call(name="initializeThread", recv=r"term$")),
                   "do_all initThread does not re-arm the detector", fn.loc(), "initializeThread", fnkey=f["key"])
    ctx.floor("DoAllStealingExec::initThread instantiations", k, 1)
