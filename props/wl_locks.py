"""LOCK tables for the worklists (C01 item 8; the pairing half is shared with C06)."""
from gsa.cfg import Fn, S, walk
from gsa import lock as L

W = "galois::worklists::"

# class, lock field ('' = the object itself is the lock), guarded fields,
# whether the pointer value stored in the lock word is guarded too,
# exemptions: {function name: reason}
TABLE = [
    dict(cls=W + "ConExtLinkedQueue", lock="head", guarded=["tail"], lockvalue=True,
         exempt={"empty": "lock-free emptiness hint, re-validated by the null test under the lock",
                 "begin": "documented unsynchronised iteration", "end": "documented unsynchronised iteration"}),
    dict(cls=W + "ConExtLinkedStack", lock="head", guarded=[], lockvalue=True,
         exempt={"empty": "lock-free emptiness hint, re-validated under the lock",
                 "push": "lock-free push: the value read is only the CAS expected value (CAS fails while locked)",
                 "begin": "documented unsynchronised iteration", "end": "documented unsynchronised iteration"}),
    dict(cls=W + "PerThreadChunkQueue", lock="head", guarded=["tail"], lockvalue=True,
         exempt={"empty": "lock-free emptiness hint, re-validated under the lock"}),
    dict(cls=W + "PerThreadChunkStack", lock="head", guarded=[], lockvalue=True,
         exempt={"empty": "lock-free emptiness hint, re-validated under the lock",
                 "push": "lock-free push: the value read is only the CAS expected value"}),
    dict(cls=W + "Wrapper", lock="lock", guarded=["wl"], lockvalue=False, exempt={}),
    dict(cls=W + "OrderedList", lock="", guarded=["map"], lockvalue=False, exempt={}),
    dict(cls=W + "StableIterator::shared_state", lock="stealLock", guarded=["stealBegin", "stealEnd"],
         guarded_writes=["stealAvail"], lockvalue=False, exempt={}),
    dict(cls=W + "OrderedByIntegerMetric", lock="masterLock", guarded=["masterLog"], lockvalue=False,
         exempt={}),
    dict(cls=W + "AdaptiveOrderedByIntegerMetric", lock="masterLock", guarded=["masterLog"], lockvalue=False,
         exempt={}),
    dict(cls=W + "AdaptiveOrderedByIntegerMetric::ThreadData", lock="lock",
         guarded=["minPrio", "maxPrio", "pushesLastPeriod", "popsLastFix", "slowPopsLastPeriod",
                  "popsFromSameQ", "current"],
         lockvalue=False,
         exempt={"cleanup": "called with the lock of its object held (checked at the call sites)",
                 "isSlowPopFreq": "called with the lock of its object held"}),
]

AOBIM = W + "AdaptiveOrderedByIntegerMetric"


def _slowpop_lock(e, fn):
    a = e.get("a", [])
    return (S(a[0], fn.aliases()) + ".lock") if a else None


# function qn -> analysis options
FN_OPTS = {
    AOBIM + "::slowPop": dict(assume_param_lock=".lock"),
    AOBIM + "::ThreadData::cleanup": dict(skip_guard=True),
}
CALLEE_RELEASES = {AOBIM + "::slowPop": _slowpop_lock}


def fields_index(fx):
    idx = getattr(fx, "_field_index", None)
    if idx is not None:
        return idx
    idx = {}
    for f in fx.functions:
        if f["kind"] == "pattern":
            continue
        s = set()
        for b in f["blocks"]:
            for e in b["ev"]:
                for n in walk(e):
                    if n.get("k") == "mem" and "fq" in n:
                        s.add(n["fq"])
        for q in s:
            idx.setdefault(q, []).append(f)
    fx._field_index = idx
    return idx


def check(ctx, fx, prefix="C01", table=TABLE, fn_opts=FN_OPTS, callee_releases=CALLEE_RELEASES,
          family="worklist", floor_fns=10):
    R_PAIR = prefix + ".lock.pairing"
    R_GUARD = prefix + ".lock.guarded-by"
    ctx.rule(R_PAIR, "every lock acquisition (lock(), successful try_lock(), RAII guard) is released exactly once on "
             "every path to a normal exit; no re-acquisition while held; no release of a lock not held")
    ctx.rule(R_GUARD, "every access to a lock-protected field happens while the protecting lock of the same object "
             "is held (exemptions are single named functions with a reason)")
    idx = fields_index(fx)
    total_fns = 0
    for row in table:
        cls = row["cls"]
        lockfq = cls + "::" + row["lock"] if row["lock"] else None
        fqs = [cls + "::" + g for g in row["guarded"] + row.get("guarded_writes", [])]
        fns = {}
        for q in ([lockfq] if lockfq else []) + fqs:
            for f in idx.get(q, []):
                fns[f["key"]] = f
        if not row["lock"]:
            for f in fx.functions:
                if f.get("cls") == cls and f["kind"] == "inst":
                    fns[f["key"]] = f
        ctx.floor("functions touching lock-protected state of " + cls, len(fns), 2)
        helper_fns = set()
        results = {}
        for key, f in sorted(fns.items()):
            if f.get("ctor") or f.get("dtor"):
                continue
            fn = ctx.fn(f)
            opts = fn_opts.get(f["qn"], {})
            assume = []
            is_helper = False
            if "assume_param_lock" in opts:
                assume = [f["params"][0]["n"] + opts["assume_param_lock"]]
            if f["name"] in row.get("helpers", {}) and row["lock"]:
                # private helper documented to run under the lock of its own object: analysed with the lock
                # assumed held; every call site is checked below
                assume = [row["lock"]]
                is_helper = True
                helper_fns.add(f["qn"])
            res = L.analyse(fn, assume_held=assume, callee_releases=callee_releases,
                            returns_holding=assume if is_helper else ())
            results[key] = (fn, res)
            total_fns += 1
            site = f["qn"]
            # pairing
            probs = [(k, p, lk) for (k, p, lk) in res.problems
                     if not (k == "held-at-exit" and lk in [L.norm(a) for a in assume])]
            if is_helper:
                # runs entirely under the caller's lock and returns holding it
                probs = [(k, p, lk) for (k, p, lk) in probs if not (k == "held-at-exit" and lk == L.norm(assume[0]))]
                for st in res.exit_states:
                    if L.norm(assume[0]) not in st:
                        probs.append(("helper-releases-callers-lock", None, L.norm(assume[0])))
            elif assume:
                # the assumed lock must be released at every exit
                for st in res.exit_states:
                    for a in assume:
                        if L.norm(a) in st:
                            probs.append(("held-at-exit", None, L.norm(a)))
            if res.locks_seen or probs:
                det = "; ".join("%s %s%s" % (k, lk, (" at " + fn.loc(p)) if p and p[1] < len(fn.blocks[p[0]]["ev"]) else "")
                                for k, p, lk in probs[:4])
                ctx.ob(R_PAIR, site, not probs, det, fn.loc(), row["lock"] or "this", fnkey=f["key"],
                       nontrivial=bool(res.locks_seen))
            # guarded-by
            if opts.get("skip_guard") or f["name"] in row["exempt"]:
                continue
            lock_field = row["lock"] if row["lock"] else "this"
            for g in row["guarded"]:
                bad = L.check_guarded(fn, res, cls + "::" + g, lock_field)
                if not row["lock"]:
                    bad = [(p, need, k) for (p, need, k) in bad if not any(
                        "this" in st for st in [s for s in res.states_at.get(p, set())])]
                acc = L.field_accesses(fn, cls + "::" + g)
                if acc:
                    ctx.ob(R_GUARD, site, not bad,
                           "; ".join("%s of %s without %s at %s" % (k, g, need, fn.loc(p)) for p, need, k in bad[:4]),
                           fn.loc(), g, fnkey=f["key"])
            for g in row.get("guarded_writes", []):
                bad = L.check_guarded(fn, res, cls + "::" + g, lock_field, exempt_kinds=("read", "call"))
                acc = [a for a in L.field_accesses(fn, cls + "::" + g) if a[2] == "write"]
                if acc:
                    ctx.ob(R_GUARD, site, not bad,
                           "; ".join("write of %s without %s at %s" % (g, need, fn.loc(p)) for p, need, k in bad[:4]),
                           fn.loc(), g, fnkey=f["key"])
            if row["lockvalue"] and lockfq:
                # value stored in the lock word: getValue/setValue on the lock need the lock
                bad = []
                n = 0
                for pos, base, kind, e in L.field_accesses(fn, lockfq):
                    if kind != "call" or e.get("name") not in ("getValue", "setValue"):
                        continue
                    n += 1
                    need = L.norm((base + "." if base else "") + row["lock"])
                    if any(need not in st for st in res.states_at.get(pos, set())):
                        bad.append((pos, need))
                if n:
                    ctx.ob(R_GUARD, site, not bad,
                           "; ".join("%s value accessed without the lock at %s" % (need, fn.loc(p)) for p, need in bad[:4]),
                           fn.loc(), row["lock"] + ".value", fnkey=f["key"])
        # helpers that assume the lock: every call site inside the class's functions holds it
        for key, (fn, res) in results.items():
            for pos, e in fn.events(lambda e: e.get("k") == "call" and e.get("fn") in helper_fns):
                recv = e.get("recv")
                base = L.norm(S(recv, fn.aliases())) if recv is not None else ""
                if base in ("this", "*this", None):
                    base = ""
                need = L.norm((base + "." if base else "") + row["lock"])
                sts = res.states_at.get(pos, set())
                ok = bool(sts) and all(need in st for st in sts)
                ctx.ob(R_GUARD, fn.qn, ok, "helper %s called without %s held at %s" % (e.get("name"), need, fn.loc(pos)),
                       fn.loc(pos), "call:" + e.get("name", ""), fnkey=fn.key)
    ctx.floor(family + " functions analysed by the LOCK rules", total_fns, floor_fns)
