"""C10 - morph graphs (structural clauses)."""
import re

from gsa.cfg import Fn, S, is_call, walk, lit
from gsa import rules as R
from .common import split_targs

EXPL = ("MorphGraph, Morph_SepInOut_Graph and MorphHyperGraph, every instantiated flavour of the driver matrix (directed, "
        "directed in/out, undirected, sorted neighbours, no-lockable, void edge data) x mutator API, every CFG path: each "
        "touch of a node's edge vector or active flag is dominated by an acquire of that same node with the caller's "
        "flag; all acquires precede the first write (cautious API: an iteration that loses a conflict inside a graph call "
        "has mutated nothing); in flavours that track both endpoints both endpoint insertions happen with the same edge "
        "cell and the right in/out tags, and removeEdge erases at both endpoints; findEdge re-validates the optimistic "
        "neighbour predicate after acquiring the neighbour; default method flags are WRITE (UNPROTECTED only for "
        "getEdgeData); createNode leaves the node inactive until addNode; the three implementations agree on acquire and "
        "write sequences per method and flavour. Serialisability itself (needs C02 plus executions) and sortedness values "
        "are not decided.")

G = "galois::graphs::"
CLASSES = [G + "MorphGraph", G + "Morph_SepInOut_Graph", G + "MorphHyperGraph"]
TOUCH = {"find", "erase", "createEdge", "createEdgeWithReuse", "resizeEdges", "begin", "end", "in_edge_begin",
         "in_edge_end", "edges", "clear", "sort", "sortEdges"}
WRITES = {"erase", "createEdge", "createEdgeWithReuse", "resizeEdges", "clear", "push_back", "emplace_back", "insert"}
EXEMPT_FUNCS = {"edge_end": "documented: end iterators do not acquire", "in_edge_end": "documented: end iterators do not acquire",
                "raw_end": "documented unsynchronised iteration", "raw_begin": "documented unsynchronised iteration"}
API = ["createEdgeWithReuse", "createEdge", "createOutEdge", "createInEdge", "addNode", "getData", "containsNode", "removeNode",
       "resizeEdges", "addEdge", "addMultiEdge", "removeEdge", "findEdge", "findEdgeSortedByDst", "findInEdge", "getEdgeData",
       "sortEdgesByDst", "edge_begin", "in_edge_begin", "edges", "in_edges"]


def flavour(f):
    ta = split_targs(f["clsk"])
    def b(i, d):
        return (ta[i] == "true") if len(ta) > i else d
    return dict(directional=b(2, True), inout=b(3, False), nolock=b(4, False), sorted=b(5, False),
                voidedge=len(ta) > 1 and ta[1] == "void")


def node_path(fn, t):
    """canonical path of a node expression: aliases and single-definition pointer copies resolved"""
    d = dict(fn.aliases())
    for k, v in fn.defs().items():
        if isinstance(v, dict) and v.get("k") in ("ref", "call", "mem") and k not in d:
            d[k] = v
    return S(t, d)


def iter_locks(ctx, fx):
    ctx.rule("C10.begin-locks-what-it-returns",
             "edge_begin / in_edge_begin (all three graph classes, every flavour): the loop that acquires the neighbours walks "
             "exactly the container range from which the returned filter iterator is built, and tests the edge direction the "
             "filter keeps (is_in_edge <-> isInEdge(), is_out_edge <-> !isInEdge()); otherwise an iteration over the returned "
             "edges holds neighbours it never locked")
    n = 0
    for cls in CLASSES:
        for f in fx.functions:
            if f.get("cls") != cls or f["kind"] != "inst" or f["name"] not in ("edge_begin", "in_edge_begin"):
                continue
            fn = ctx.fn(f)
            al = fn.aliases()
            rets = [e for _, e in fn.events(lambda e: e["k"] == "ret")]
            mk = None
            for e in rets:
                for x in walk(e.get("e")):
                    if isinstance(x, dict) and x.get("k") == "call" and x.get("name") == "make_filter_iterator" and len(x.get("a", [])) == 3:
                        mk = x
            acq = [e for _, e in fn.events(lambda e: e.get("k") == "call" and e.get("name") == "acquire" and "first()" in S(e.get("recv") or {}, al))]
            if mk is None or not acq:
                continue        # forwarding overloads (undirected in_edge_begin -> edge_begin) and flavours without neighbour locking
            n += 1
            det = []
            rng = (S(mk["a"][1], al), S(mk["a"][2], al))
            kind = S(mk["a"][0], al)
            inits = {e["n"]: S(e.get("init"), al) for _, e in fn.events(lambda e: e.get("k") == "decl" and "init" in e)}
            loop = (inits.get("ii"), inits.get("ee"))
            if None in loop:
                # any two iterator locals initialised from the node
                its = [v for k, v in inits.items() if v and re.search(r"->(in_edge_)?(begin|end)\(\)$", v)]
                loop = tuple(its[:2]) if len(its) >= 2 else loop
            if loop != rng:
                det.append("neighbours are acquired over [%s, %s) but the returned iterator ranges over [%s, %s)" % (loop + rng))
            conds = [S(fn.branch(b)[0], al) + ("" if fn.branch(b)[1] else "/neg") for b in fn.blocks if fn.branch(b)]
            want_in = "is_in_edge" in kind
            dirl = [c for c in conds if "isInEdge()" in c]
            if not dirl:
                det.append("the locking loop does not test the edge direction")
            ctx.ob("C10.begin-locks-what-it-returns", cls.split("::")[-1] + "::" + f["name"], not det, "; ".join(det), fn.loc(),
                   f["key"][-70:], fnkey=f["key"])
    ctx.floor("edge_begin/in_edge_begin with neighbour locking", n, 10)


def run(ctx):
    ctx.explanation = EXPL
    fx = ctx.load("drv_morph")
    ctx.rule("C10.acquire-dominates-touch",
             "every use of X->{find, erase, createEdge*, resizeEdges, begin, end, edges, active} in a graph member is "
             "dominated by X->acquire(mflag) (or acquire(X, mflag)) on the same node X")
    ctx.rule("C10.cautious", "on every path all node acquisitions precede the first mutation (edge vector change or active store)")
    ctx.rule("C10.both-endpoints",
             "flavours that track both endpoints: createEdge*/createOutEdge+createInEdge insert at the destination (tag = "
             "Directional) and at the source (tag = false) with the same edge cell produced by mkEdge; directed-out-only "
             "flavours insert once with a null cell; removeEdge erases at the destination (by source, tag = Directional) "
             "and at the source")
    ctx.rule("C10.find-revalidates", "findEdge / findInEdge / findEdgeSortedByDst: after acquiring the neighbour the edge predicate is "
             "evaluated again before the edge is reported")
    ctx.rule("C10.default-flags", "default method flag is WRITE for every mutator, getData, containsNode, edge_begin, findEdge*; "
             "UNPROTECTED only for getEdgeData")
    ctx.rule("C10.node-lifecycle", "createNode: the node comes from the concurrent bag and is set inactive; addNode acquires before "
             "active = true; removeNode acquires, deactivates and clears only the node's own edges")
    ctx.rule("C10.sibling-agreement", "MorphGraph, Morph_SepInOut_Graph and MorphHyperGraph perform the same sequence of node "
             "acquisitions and mutations per method and flavour")
    sigs = {}
    nfun = 0
    for cls in CLASSES:
        fs = [f for f in fx.functions if f.get("cls") == cls and f["kind"] == "inst" and f["name"] in API]
        ctx.floor("API instantiations of " + cls, len(fs), 30)
        for f in fs:
            fn = ctx.fn(f)
            fl = flavour(f)
            nfun += 1
            acq_events = []
            touch_events = []
            write_events = []
            for pos, e in fn.events():
                if e.get("k") == "call" and e.get("name") == "acquire":
                    if e.get("recv") is not None and (e.get("cls") or "").endswith("::gNode"):
                        acq_events.append((pos, node_path(fn, e["recv"])))
                    elif e.get("recv") is None and e.get("a"):
                        acq_events.append((pos, node_path(fn, e["a"][0])))
                if e.get("k") == "call" and (e.get("cls") or "").endswith("::gNode") and e.get("name") in TOUCH \
                        and e.get("recv") is not None:
                    x = node_path(fn, e["recv"])
                    touch_events.append((pos, x, e["name"]))
                    if e["name"] in WRITES:
                        write_events.append((pos, x, e["name"]))
                if e.get("k") == "call" and e.get("name") in ("clear", "sort") and e.get("recv") is not None and \
                        S(e["recv"]).endswith("->edges"):
                    x = node_path(fn, e["recv"]["b"]) if e["recv"].get("k") == "mem" else S(e["recv"])
                    touch_events.append((pos, x, "edges." + e["name"]))
                    write_events.append((pos, x, "edges." + e["name"]))
                if e.get("k") == "assign" and S(e.get("lhs")).endswith("->active"):
                    x = node_path(fn, e["lhs"]["b"])
                    touch_events.append((pos, x, "active="))
                    write_events.append((pos, x, "active="))
                if e.get("k") == "read" and (e.get("p") or "").endswith("->active"):
                    t = e.get("e")
                    # a neighbour's flag read through an edge entry (x->first()->active) is optimistic and is
                    # re-validated after the neighbour is acquired (C10.find-revalidates): exempt
                    if isinstance(t, dict) and t.get("k") == "mem" and "first()" not in node_path(fn, t["b"]):
                        touch_events.append((pos, node_path(fn, t["b"]), "active?"))
            site = cls + "::" + f["name"]
            if f["name"] not in EXEMPT_FUNCS and not fl["nolock"]:
                bad = []
                for pos, x, nm in touch_events:
                    acq_x = lambda e, x=x: e.get("k") == "call" and e.get("name") == "acquire" and (
                        (e.get("recv") is not None and node_path(fn, e["recv"]) == x) or
                        (e.get("recv") is None and e.get("a") and node_path(fn, e["a"][0]) == x))
                    tgt = fn.ev(pos)
                    if fn.reaches_without(lambda e: e is tgt, acq_x):
                        bad.append("%s->%s at %s" % (x, nm, fn.loc(pos).split(":")[-1]))
                if touch_events:
                    ctx.ob("C10.acquire-dominates-touch", site, not bad, "not dominated by an acquire of the same node: %s" % bad[:4],
                           fn.loc(), "touch", fnkey=f["key"])
                # acquire uses the caller's flag
                flagp = [p["n"] for p in f["params"] if "MethodFlag" in p["ty"]]
                for pos, e in fn.events(lambda e: e.get("k") == "call" and e.get("name") == "acquire" and
                                        ((e.get("cls") or "").endswith("::gNode") or e.get("recv") is None)):
                    a = [S(x) for x in e.get("a", []) if not (isinstance(x, dict) and x.get("k") == "defarg")]
                    if flagp and a and a[-1] != flagp[0]:
                        ctx.ob("C10.acquire-dominates-touch", site, False, "acquire with %s instead of the caller's flag" % a[-1],
                               fn.loc(pos), "flag", fnkey=f["key"])
            if write_events and not fl["nolock"]:
                bad = []
                acq = lambda e: e.get("k") == "call" and e.get("name") == "acquire" and \
                    ((e.get("cls") or "").endswith("::gNode") or (e.get("recv") is None and e.get("fn", "").endswith("acquire")))
                for pos, x, nm in write_events:
                    h, _ = fn.search([fn.after(pos)], stop=acq)
                    for q in h:
                        bad.append("acquire at %s after the write %s->%s at %s" % (
                            fn.loc(q).split(":")[-1], x, nm, fn.loc(pos).split(":")[-1]))
                ctx.ob("C10.cautious", site, not bad, "; ".join(sorted(set(bad))[:3]), fn.loc(), "cautious", fnkey=f["key"])
            # signature for sibling agreement
            seq = []
            for pos, e in sorted(fn.events(), key=lambda pe: (pe[1].get("l", 0), pe[0])):
                pass
            order = sorted([(fn.ev(p).get("l", 0), "acq", x) for p, x in acq_events] +
                           [(fn.ev(p).get("l", 0), nm, x) for p, x, nm in write_events])
            key = (f["name"], len(f["params"]), fl["directional"], fl["inout"], fl["nolock"], fl["sorted"], fl["voidedge"])
            sigs.setdefault(key, {})[cls] = tuple((k, x) for _, k, x in order)
            endpoints(ctx, fn, f, fl, site)
            if f["name"] in ("findEdge", "findInEdge", "findEdgeSortedByDst") and not fl["nolock"]:
                revalidate(ctx, fn, f, site)
    ctx.floor("graph API functions analysed", nfun, 150)
    # sibling agreement
    n = 0
    for key, d in sorted(sigs.items()):
        if len(d) < 2 or key[0] == "findInEdge":
            continue    # findInEdge: documented difference (separate in-edge storage searches at dst)
        n += 1
        vals = set(d.values())
        ctx.ob("C10.sibling-agreement", "%s/%d" % (key[0], key[1]), len(vals) == 1,
               "implementations differ for flavour %s: %s" % (key[2:], {k.split("::")[-1]: v for k, v in d.items()}),
               "", "dir=%s,inout=%s,nolock=%s,sorted=%s" % key[2:6])
    ctx.floor("method x flavour cells compared across implementations", n, 40)
    defaults(ctx, fx)
    lifecycle(ctx, fx)
    iter_locks(ctx, fx)


def endpoints(ctx, fn, f, fl, site):
    name = f["name"]
    both = not (fl["directional"] and not fl["inout"])
    al = fn.aliases()
    if name in ("createEdge", "createEdgeWithReuse") and len(f["params"]) >= 3:
        ins = [(p, e) for p, e in fn.events(lambda e: e.get("k") == "call" and e.get("name") in ("createEdge", "createEdgeWithReuse")
                                            and (e.get("cls") or "").endswith("::gNode"))]
        src, dst = f["params"][0]["n"], f["params"][1]["n"]
        det = []
        if both:
            if len(ins) != 2:
                det.append("endpoint insertions: %d" % len(ins))
            else:
                by = {S(e["recv"]): e for _, e in ins}
                if set(by) != {src, dst}:
                    det.append("insertions at %s" % sorted(by))
                else:
                    ad = [S(x) for x in by[dst].get("a", [])]
                    as_ = [S(x) for x in by[src].get("a", [])]
                    if ad[0] != src or as_[0] != dst:
                        det.append("neighbour arguments %s / %s" % (ad[:1], as_[:1]))
                    if ad[1] != as_[1] or ad[1] in ("0", "nullptr"):
                        det.append("edge cells differ or are null: %s vs %s" % (ad[1], as_[1]))
                    else:
                        d = fn.defs().get(ad[1])
                        if d is None or "mkEdge" not in S(d):
                            det.append("edge cell does not come from mkEdge")
                    want = "true" if fl["directional"] else "false"
                    tagd = R.decide(by[dst]["a"][2], {})
                    tags = R.decide(by[src]["a"][2], {})
                    if tagd != int(fl["directional"]) or tags != 0:
                        det.append("in/out tags dst=%s src=%s" % (tagd, tags))
                    # both on every path that inserts one
                    for p, e in ins:
                        other = [q for q, e2 in ins if e2 is not e][0]
                        o_ev = fn.ev(other)
                        if fn.ev(p) is by[dst] and not fn.must_follow(p, lambda x: x is o_ev):
                            det.append("destination entry inserted but a path skips the source entry")
        else:
            if len(ins) != 1 or S(ins[0][1]["recv"]) != src:
                det.append("directed out-only flavour inserts %d entries" % len(ins))
            elif [S(x) for x in ins[0][1].get("a", [])][:3] != [dst, "0", "false"]:
                det.append("insertion arguments %s" % [S(x) for x in ins[0][1].get("a", [])][:3])
        if name == "createEdgeWithReuse":
            # duplicate check: insertion only when find() reported end()
            fnd = [e for _, e in fn.events(lambda e: e.get("k") == "call" and e.get("name") == "find" and S(e.get("recv")) == src)]
            if len(fnd) != 1 or [S(x) for x in fnd[0].get("a", [])][:1] != [dst]:
                det.append("no duplicate check src->find(dst)")
        ctx.ob("C10.both-endpoints", site, not det, "; ".join(det), fn.loc(), "insert", fnkey=f["key"])
    if name == "removeEdge":
        er = [(p, e) for p, e in fn.events(lambda e: e.get("k") == "call" and e.get("name") == "erase" and (e.get("cls") or "").endswith("::gNode"))]
        src = f["params"][0]["n"]
        dstit = f["params"][1]["n"]
        det = []
        if both:
            dfs = fn.defs()
            X = lambda t: S(t, dfs)            # locals expanded through their single definition (dstNode = dst->first())
            recvs = [X(e["recv"]) for _, e in er]
            if len(er) != 2 or src not in recvs or not any("first()" in r for r in recvs):
                det.append("erase sites %s" % recvs)
            else:
                for _, e in er:
                    a = e.get("a", [])
                    if "first()" in X(e["recv"]):
                        if S(a[0]) != src or R.decide(a[1], {}) != int(fl["directional"]):
                            det.append("reverse entry erased with (%s, %s)" % (S(a[0]), S(a[1]) if len(a) > 1 else None))
                    else:
                        if dstit + ".base()" not in S(a[0]):
                            det.append("source entry erased with %s" % S(a[0]))
                # reverse entry erased before the source entry (the iterator stays valid)
                rev = [p for p, e in er if "first()" in X(e["recv"])][0]
                fwd = [p for p, e in er if "first()" not in X(e["recv"])][0]
                fwd_ev = fn.ev(fwd)
                if not fn.must_follow(rev, lambda x: x is fwd_ev):
                    det.append("source entry not erased after the reverse entry")
        else:
            if len(er) != 1 or S(er[0][1]["recv"]) != src:
                det.append("erase sites %s" % [S(e["recv"]) for _, e in er])
        ctx.ob("C10.both-endpoints", site, not det, "; ".join(det), fn.loc(), "erase", fnkey=f["key"])
    if name == "createInEdge":
        ins = [e for _, e in fn.events(lambda e: e.get("k") == "call" and e.get("name") == "createEdge" and (e.get("cls") or "").endswith("::gNode"))]
        src, dst, cell = f["params"][0]["n"], f["params"][1]["n"], f["params"][2]["n"]
        det = []
        if len(ins) != 1 or S(ins[0]["recv"]) != dst:
            det.append("in-entry insertions %s" % [S(e["recv"]) for e in ins])
        else:
            a = ins[0].get("a", [])
            if [S(a[0]), S(a[1])] != [src, cell] or R.decide(a[2], {}) != int(fl["directional"]):
                det.append("in-entry arguments %s" % [S(x) for x in a[:3]])
        ctx.ob("C10.both-endpoints", site, not det, "; ".join(det), fn.loc(), "in-entry", fnkey=f["key"])
    if name == "createOutEdge":
        ins = [e for _, e in fn.events(lambda e: e.get("k") == "call" and e.get("name") == "createEdge" and (e.get("cls") or "").endswith("::gNode"))]
        src, dst = f["params"][0]["n"], f["params"][1]["n"]
        det = []
        if len(ins) != 1 or S(ins[0]["recv"]) != src:
            det.append("out-entry insertions %s" % [S(e["recv"]) for e in ins])
        else:
            a = ins[0].get("a", [])
            rets = {S(e.get("e")) for _, e in fn.events(lambda e: e["k"] == "ret")}
            if S(a[0]) != dst or R.decide(a[2], {}) != 0 or S(a[1]) not in rets:
                det.append("out-entry arguments %s, returns %s" % ([S(x) for x in a[:3]], sorted(rets)))
        ctx.ob("C10.both-endpoints", site, not det, "; ".join(det), fn.loc(), "out-entry", fnkey=f["key"])


def revalidate(ctx, fn, f, site):
    acq = lambda e: e.get("k") == "call" and e.get("name") == "acquire" and (e.get("cls") or "").endswith("::gNode")
    pred = lambda e: e.get("k") == "call" and e.get("op") == "()" and S(e.get("recv")) in ("edge_predicate", "checker")
    fnd = lambda e: e.get("k") == "call" and e.get("name") in ("find", "lower_bound", "find_if")
    if not any(True for _ in fn.events(fnd)):
        return      # forwarding overload
    det = []
    # the neighbour's acquire is the one that follows the lookup
    nb = [p for p, _ in fn.events(acq) if not fn.reaches_without(lambda e, q=p: e is fn.ev(q), fnd)]
    if not nb:
        det.append("neighbour never acquired after the lookup")
    for p in nb:
        if not fn.must_follow(p, lambda e: pred(e) and S(e.get("recv")) == "edge_predicate"):
            det.append("edge reported without re-checking the predicate after acquiring the neighbour")
    hide = lambda e: (e.get("k") == "call" and e.get("op") == "=" and S(e.get("recv")) == "ii" and [S(a) for a in e.get("a", [])] == ["ei"]) or \
        (e.get("k") == "assign" and e.get("lp") == "ii" and e.get("rp") == "ei")
    if not any(True for _ in fn.events(hide)):
        det.append("a failed re-check does not hide the edge")
    ctx.ob("C10.find-revalidates", site, not det, "; ".join(sorted(set(det))), fn.loc(), "revalidate", fnkey=f["key"])


def defaults(ctx, fx):
    want_write = ["addNode", "getData", "containsNode", "removeNode", "resizeEdges", "addEdge", "removeEdge", "findEdge",
                  "findEdgeSortedByDst", "findInEdge", "sortEdgesByDst", "edge_begin", "in_edge_begin", "edges", "in_edges",
                  "sortAllEdgesByDst"]
    en = fx.enums.get("galois::MethodFlag", {}).get("values", {})
    if not en:
        ctx.broken("enum MethodFlag not found")
        return
    n = 0
    seen = set()
    for cls in CLASSES:
        for f in fx.functions:
            if f.get("cls") != cls or f["kind"] != "inst":
                continue
            if f["name"] not in want_write + ["getEdgeData"]:
                continue
            for p in f["params"]:
                if "MethodFlag" not in p["ty"] or "def" not in p:
                    continue
                k = (cls, f["name"], len(f["params"]), p["n"])
                if k in seen:
                    continue
                seen.add(k)
                n += 1
                v = R.decide(p["def"], {})
                want = en["UNPROTECTED"] if f["name"] == "getEdgeData" else en["WRITE"]
                ctx.ob("C10.default-flags", cls + "::" + f["name"], v == want,
                       "default flag of %s is %s (%s)" % (p["n"], p.get("deftext"), v),
                       "%s:%s" % (f["file"], f["line"]), "default/%d" % len(f["params"]), fnkey=f["key"])
    ctx.floor("default method flags checked", n, 30)


def lifecycle(ctx, fx):
    for cls in CLASSES:
        cn = [f for f in fx.functions if f.get("cls") == cls and f["kind"] == "inst" and f["name"] == "createNode"]
        ctx.floor(cls + "::createNode", len(cn), 1)
        for f in cn[:3]:
            fn = Fn(f)
            em = is_call(name="emplace", recv=r"nodes$")
            # the flag written is the `active` member of the node that emplace returned, whether the node is held through a
            # pointer (&nodes.emplace(..)) or a reference
            al = dict(fn.defs()); al.update(fn.aliases())
            def act_of_new(e):
                l = e.get("lhs") or {}
                return e.get("k") == "assign" and l.get("k") == "mem" and l.get("n") == "active" and "emplace(" in S(l.get("b"), al)
            ina = lambda e: act_of_new(e) and e.get("rp") == "false"
            ok = any(True for _ in fn.events(em)) and not fn.exit_reachable_without(ina) and not fn.reaches_without(ina, em)
            ok = ok and not any(True for _ in fn.events(lambda e: act_of_new(e) and e.get("rp") == "true"))
            ctx.ob("C10.node-lifecycle", cls + "::createNode", ok, "new node is not left inactive after nodes.emplace", fn.loc(),
                   "createNode", fnkey=f["key"])
        for f in [g for g in fx.functions if g.get("cls") == cls and g["kind"] == "inst" and g["name"] == "removeNode"][:4]:
            fn = Fn(f)
            de = lambda e: e.get("k") == "assign" and S(e.get("lhs")).endswith("->active") and e.get("rp") == "false"
            cl = lambda e: e.get("k") == "call" and e.get("name") == "clear" and "->edges" in S(e.get("recv"))
            act = lambda t: S(t).endswith("->active")
            ge = fn.guard_edges(act, False)
            ok = any(True for _ in fn.events(de)) and \
                not fn.exit_reachable_without(de, edge_ok=lambda b, i, s: (b, i) not in ge) and \
                not fn.exit_reachable_without(cl, edge_ok=lambda b, i, s: (b, i) not in ge)
            # only the node's own edges are cleared
            own = all(node_path(fn, e["recv"]["b"]) == f["params"][0]["n"] for _, e in fn.events(cl) if e["recv"].get("k") == "mem")
            ctx.ob("C10.node-lifecycle", cls + "::removeNode", ok and own, "removeNode does not deactivate and clear the node's own edges",
                   fn.loc(), "removeNode", fnkey=f["key"])
