#pragma once
// Common part of the for_each instantiation drivers (parsed by the extractor, never compiled to code, never
// run): for_each over every shipped worklist x {conflict detection on/off}
// x {plain, no_pushes+per_iter_alloc+parallel_break}.
#include "galois/Galois.h"
#include "galois/Bag.h"
#include "galois/worklists/WorkList.h"

#include <vector>

namespace gsa_driver {

struct Indexer {
  unsigned operator()(int x) const { return (unsigned)x; }
};

struct Op {
  void operator()(int& x, galois::UserContext<int>& ctx) const {
    if (x > 0)
      ctx.push(x - 1);
  }
};
struct OpNoPush {
  void operator()(int& x, galois::UserContext<int>& ctx) const {
    (void)ctx.getPerIterAlloc();
    if (x == 7)
      ctx.breakLoop();
  }
};

template <typename WL>
void drive(std::vector<int>& v) {
  galois::for_each(galois::iterate(v), Op{}, galois::wl<WL>(),
                   galois::loopname("a"));
  galois::for_each(galois::iterate(v), Op{}, galois::wl<WL>(),
                   galois::disable_conflict_detection());
  galois::for_each(galois::iterate(v), OpNoPush{}, galois::wl<WL>(),
                   galois::no_pushes(), galois::per_iter_alloc(),
                   galois::parallel_break());
  galois::for_each(galois::iterate(v), Op{}, galois::wl<WL>(),
                   galois::disable_conflict_detection(),
                   galois::parallel_break(), galois::loopname("b"));
}

template <typename WL>
void driveOBIM(std::vector<int>& v) {
  galois::for_each(galois::iterate(v), Op{}, galois::wl<WL>(Indexer{}));
  galois::for_each(galois::iterate(v), Op{}, galois::wl<WL>(Indexer{}),
                   galois::disable_conflict_detection());
  galois::for_each(galois::iterate(v), OpNoPush{}, galois::wl<WL>(Indexer{}),
                   galois::no_pushes(), galois::per_iter_alloc(),
                   galois::parallel_break());
}

} // namespace gsa_driver
