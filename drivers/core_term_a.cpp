// Instantiation driver (parsed only, never run): the tree termination detector
// (never instantiated by the runtime itself), do_all x {steal, no steal} x
// {random access, forward, local-iterator container}, on_each.
#include "galois/Galois.h"
#include "galois/Bag.h"
#include "galois/substrate/Termination.h"

#include <list>
#include <vector>

namespace gsa_driver {

struct Tree : galois::substrate::internal::TreeTerminationDetection<> {
  void arm(unsigned n) { init(n); }
};

void tree() {
  Tree t;
  t.arm(4);
  t.initializeThread();
  t.localTermination(true);
  (void)t.globalTermination();
}

struct Body {
  void operator()(int& x) const { x += 1; }
};

void doall() {
  std::vector<int> v(100);
  std::list<int> l(100);
  galois::InsertBag<int> bag;
  galois::do_all(galois::iterate(v), Body{}, galois::steal(), galois::chunk_size<16>(), galois::loopname("a"));
  galois::do_all(galois::iterate(v), Body{}, galois::no_stats());
  galois::do_all(galois::iterate(l), Body{}, galois::steal());
  galois::do_all(galois::iterate(l), Body{});
  galois::do_all(galois::iterate(bag), Body{}, galois::steal());
  galois::do_all(galois::iterate(bag), Body{});
  galois::do_all(galois::iterate(0, 100), [](int) {}, galois::steal());
  galois::do_all(galois::iterate(0u, 100u), [](unsigned) {});
  galois::on_each([](unsigned, unsigned) {});
  galois::on_each([](unsigned, unsigned) {}, galois::loopname("x"));
}

} // namespace gsa_driver
