// Instantiation driver (parsed only, never run): for_each worklist matrix, part e
#include "foreach_common.h"
namespace gsa_driver {
void all_e() {
  using namespace galois::worklists;
  std::vector<int> v;
  typedef OrderedByIntegerMetric<Indexer, PerSocketChunkFIFO<16>> OBIM;
  driveOBIM<OBIM::with_block_period<4>::type>(v);
  driveOBIM<OBIM::with_back_scan_prevention<false>::type>(v);
  typedef OBIM::with_barrier<true>::type OBIMB;
  driveOBIM<OBIMB::with_descending<true>::type>(v);
  typedef AdaptiveOrderedByIntegerMetric<Indexer, PerSocketChunkFIFO<16>> AOBIM;
  driveOBIM<AOBIM>(v);
}
}
