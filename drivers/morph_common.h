#pragma once
// shared templates of the morph-graph drivers (parsed only)
#include "galois/Galois.h"
namespace gsa_driver {

template <typename G>
void common(G& g) {
  auto a = g.createNode(1);
  auto b = g.createNode(2);
  g.addNode(a);
  g.addNode(b);
  (void)g.getData(a);
  (void)g.containsNode(a);
  auto e = g.addEdge(a, b);
  (void)g.getEdgeData(e);
  (void)g.getEdgeDst(e);
  auto m = g.addMultiEdge(a, b, galois::MethodFlag::WRITE, 3);
  (void)m;
  auto f = g.findEdge(a, b);
  (void)f;
  auto fs = g.findEdgeSortedByDst(a, b);
  (void)fs;
  for (auto ii = g.edge_begin(a), ee = g.edge_end(a); ii != ee; ++ii)
    (void)g.getEdgeDst(ii);
  for (auto ed : g.edges(a))
    (void)ed;
  g.removeEdge(a, e);
  g.removeNode(b);
  for (auto n : g)
    (void)n;
  (void)g.size();
}

template <typename G>
void sorting(G& g) {
  auto a = g.createNode(1);
  g.addNode(a);
  g.sortEdgesByDst(a);
  g.sortAllEdgesByDst();
}

template <typename G>
void inout(G& g) {
  auto a = g.createNode(1);
  auto b = g.createNode(2);
  g.addNode(a);
  g.addNode(b);
  auto f = g.findInEdge(a, b);
  (void)f;
  for (auto ii = g.in_edge_begin(a), ee = g.in_edge_end(a); ii != ee; ++ii) {
    (void)g.getEdgeDst(ii);
    (void)g.getEdgeData(ii);
  }
  for (auto ed : g.in_edges(a))
    (void)ed;
}

} // namespace gsa_driver
