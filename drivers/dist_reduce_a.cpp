// Instantiation driver (parsed only, never run): distributed reducibles.
#include "galois/DistGalois.h"
#include "galois/DReducible.h"

namespace gsa_driver {
void dreduce() {
  galois::DGAccumulator<int32_t> a;
  a += 1;
  a = 2;
  a.set(3);
  (void)a.read_local();
  (void)a.read();
  (void)a.reset();
  (void)a.reduce();
  galois::DGAccumulator<double> ad;
  (void)ad.reduce();
  galois::DGReduceMax<uint64_t> mx;
  mx.update(1);
  (void)mx.read_local();
  (void)mx.reset();
  (void)mx.reduce();
  galois::DGReduceMin<float> mn;
  mn.update(1);
  (void)mn.read_local();
  (void)mn.reset();
  (void)mn.reduce();
}
} // namespace gsa_driver
