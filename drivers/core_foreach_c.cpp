// Instantiation driver (parsed only, never run): for_each worklist matrix, part c
#include "foreach_common.h"
namespace gsa_driver {
void all_c() {
  using namespace galois::worklists;
  std::vector<int> v;
  drive<BulkSynchronous<>>(v);
  drive<LocalQueue<>>(v);
  drive<LocalQueue<PerSocketChunkFIFO<16>, GFIFO<>>>(v);
  drive<OwnerComputes<>>(v);
  drive<StableIterator<true>>(v);
  drive<StableIterator<false>>(v);
  drive<OrderedList<>>(v);
}
}
