// Instantiation driver (parsed only, never run): work-division routines.
#include "galois/Galois.h"
#include "galois/ParallelSTL.h"
#include "galois/graphs/FileGraph.h"
#include "galois/graphs/Graph.h"
#include "galois/graphs/GraphHelpers.h"
#include "galois/gstl.h"

#include <boost/iterator/counting_iterator.hpp>
#include <list>
#include <vector>

namespace gsa_driver {

void divide() {
  std::vector<int> v(10);
  std::list<int> l(10);
  (void)galois::block_range(v.begin(), v.end(), 1u, 4u);
  (void)galois::block_range(l.begin(), l.end(), 1u, 4u);
  (void)galois::block_range(0u, 100u, 1u, 4u);
  (void)galois::block_range(uint64_t(0), uint64_t(100), 1u, 4u);
  auto r = galois::runtime::makeStandardRange(v.begin(), v.end());
  (void)r.local_begin();
  (void)r.local_end();

  // SpecificRange is only used by libcusp (not built): instantiate it the way DistGraph does, over node ids
  std::vector<uint32_t> tr(5);
  auto sr = galois::runtime::makeSpecificRange(boost::counting_iterator<uint32_t>(0), boost::counting_iterator<uint32_t>(40), tr.data());
  (void)sr.block_pair();
  (void)sr.local_begin();
  (void)sr.local_end();
  galois::do_all(sr, [](uint32_t) {});

  std::vector<uint64_t> ps(10);
  std::vector<unsigned> sf;
  (void)galois::graphs::divideNodesBinarySearch(uint64_t(10), uint64_t(20), size_t(1), size_t(1), size_t(0), size_t(2), ps, sf);
  (void)galois::graphs::determineUnitRangesFromPrefixSum(4u, ps);
  (void)galois::graphs::determineUnitRangesFromPrefixSum(4u, ps, 2u, 8u);
  galois::graphs::LC_CSR_Graph<int, int> g;
  (void)galois::graphs::determineUnitRangesFromGraph(g, 4u);
  (void)galois::graphs::determineUnitRangesFromGraph(g, 4u, 2u, 8u);
  galois::graphs::LC_Linear_Graph<int, int>::with_numa_alloc<false>::type lg;
  (void)lg.local_begin();
  (void)lg.local_end();

  std::vector<uint64_t> out(10);
  (void)galois::ParallelSTL::partial_sum(ps.begin(), ps.end(), out.begin());
  galois::graphs::internal::LocalIteratorFeature<false> lf;
  (void)lf.localBegin(10);
  (void)lf.localEnd(10);
}

} // namespace gsa_driver
