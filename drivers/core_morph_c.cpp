// Instantiation driver (parsed only, never run): morph graph flavours x mutator API (galois/graphs/MorphHyperGraph.h)
#include "galois/Galois.h"
#include "galois/graphs/MorphHyperGraph.h"
#include "morph_common.h"
namespace gsa_driver {
void all_c() {
  using namespace galois::graphs;
  MorphHyperGraph<int, int, true, false> hd;
  common(hd);
  sorting(hd);
  MorphHyperGraph<int, int, true, true> hio;
  common(hio);
  sorting(hio);
  MorphHyperGraph<int, int, false> hu;
  common(hu);
  sorting(hu);
}
}
