// Instantiation driver (parsed only, never run): every serialisable type family of Serialize.h, both directions.
#include "galois/runtime/Serialize.h"

#include <deque>
#include <string>
#include <tuple>
#include <vector>

namespace gsa_driver {

struct Pod {
  int a;
  double b;
};

// a type with user-defined serialisation (not memory copyable: has a std::string)
struct WithSerialize {
  typedef int tt_has_serialize;
  int id;
  std::string name;
  std::vector<double> vals;
  void serialize(galois::runtime::SerializeBuffer& buf) const { galois::runtime::gSerialize(buf, id, name, vals); }
  void deserialize(galois::runtime::DeSerializeBuffer& buf) { galois::runtime::gDeserialize(buf, id, name, vals); }
};

// the per-type overloads are reached directly: gSerialize() also calls gSized(), which has no overload for several of these
// families (galois::Pair / TupleOfThree with a non-copyable member, CopyableAtomic, std::deque, pair<int, string>), so the
// top-level call does not compile for them; as sequence elements they are reached through gSerializeSeq all the same
template <typename T>
void both(galois::runtime::SerializeBuffer& sb, galois::runtime::DeSerializeBuffer& rb) {
  T x{};
  galois::runtime::internal::gSerializeObj(sb, x);
  galois::runtime::internal::gDeserializeObj(rb, x);
}

template <typename T>
void top(galois::runtime::SerializeBuffer& sb, galois::runtime::DeSerializeBuffer& rb) {
  T x{};
  galois::runtime::gSerialize(sb, x);
  galois::runtime::gDeserialize(rb, x);
}

template <typename T>
void sized() {
  T x{};
  (void)galois::runtime::gSized(x);
}

void serialize_all() {
  galois::runtime::SerializeBuffer sb;
  galois::runtime::DeSerializeBuffer rb;
  both<int>(sb, rb);
  both<uint64_t>(sb, rb);
  both<double>(sb, rb);
  both<Pod>(sb, rb);
  both<WithSerialize>(sb, rb);
  both<std::pair<int, double>>(sb, rb);
  both<std::pair<int, std::string>>(sb, rb);
  both<galois::Pair<int, double>>(sb, rb);
  both<galois::Pair<int, std::string>>(sb, rb);
  both<galois::TupleOfThree<int, double, char>>(sb, rb);
  both<galois::TupleOfThree<int, std::string, char>>(sb, rb);
  both<galois::CopyableAtomic<int>>(sb, rb);
  both<galois::CopyableAtomic<uint64_t>>(sb, rb);
  both<std::string>(sb, rb);
  both<std::vector<int>>(sb, rb);
  both<std::vector<Pod>>(sb, rb);
  both<std::vector<std::string>>(sb, rb);
  both<std::vector<std::vector<int>>>(sb, rb);
  both<std::vector<std::pair<int, std::string>>>(sb, rb);
  both<galois::PODResizeableArray<int>>(sb, rb);
  both<galois::PODResizeableArray<uint64_t>>(sb, rb);
  both<std::deque<int>>(sb, rb);
  both<std::deque<std::string>>(sb, rb);
  both<galois::gdeque<int>>(sb, rb);
  both<galois::gdeque<Pod, 16>>(sb, rb);
  both<std::vector<WithSerialize>>(sb, rb);
  top<int>(sb, rb);
  top<Pod>(sb, rb);
  top<WithSerialize>(sb, rb);
  top<std::pair<int, double>>(sb, rb);
  top<galois::Pair<int, double>>(sb, rb);
  top<std::string>(sb, rb);
  top<std::vector<int>>(sb, rb);
  top<std::vector<std::string>>(sb, rb);
  top<std::vector<galois::CopyableAtomic<int>>>(sb, rb);
  top<galois::PODResizeableArray<int>>(sb, rb);
  top<galois::gdeque<int>>(sb, rb);
  {
    galois::DynamicBitSet b;
    galois::runtime::gSerialize(sb, b);
    galois::runtime::gDeserialize(rb, b);
  }
  {
    // several values in one call
    int a = 0;
    std::string s;
    std::vector<int> v;
    galois::runtime::gSerialize(sb, a, s, v);
    galois::runtime::gDeserialize(rb, a, s, v);
  }
  {
    // nested buffers are append-only
    galois::runtime::SerializeBuffer inner;
    galois::runtime::gSerialize(sb, inner);
    galois::runtime::gSerialize(sb, rb);
  }
  {
    std::tuple<int, double> t;
    galois::runtime::gDeserialize(rb, t);
  }
  sized<int>();
  sized<Pod>();
  sized<std::pair<int, double>>();
  sized<std::vector<int>>();
  sized<std::vector<std::string>>();
  sized<galois::PODResizeableArray<int>>();
  sized<galois::gdeque<int>>();
  sized<std::string>();
  (void)galois::runtime::gSized(sb);
  (void)galois::runtime::gSized(rb);
}

} // namespace gsa_driver
