// Instantiation driver (parsed only, never run): reducibles, atomic helpers, bitset, union-find, thread-safe queues.
#include "galois/Galois.h"
#include "galois/AtomicHelpers.h"
#include "galois/AtomicWrapper.h"
#include "galois/DynamicBitset.h"
#include "galois/PriorityQueue.h"
#include "galois/Reduction.h"
#include "galois/UnionFind.h"

#include <atomic>

namespace gsa_driver {

struct UF : galois::UnionFindNode<UF> {
  UF() : galois::UnionFindNode<UF>(this) {}
};

void reduce() {
  galois::GAccumulator<int> a;
  a += 1;
  a -= 1;
  a.update(3);
  (void)a.reduce();
  a.reset();
  (void)a.getLocal();
  galois::GAccumulator<double> ad;
  ad += 1.0;
  ad -= 1.0;
  (void)ad.reduce();
  galois::GReduceMax<float> mx;
  mx.update(1.0f);
  (void)mx.reduce();
  mx.reset();
  galois::GReduceMin<int> mn;
  mn.update(1);
  (void)mn.reduce();
  mn.reset();
  galois::GReduceLogicalAnd la;
  la.update(true);
  (void)la.reduce();
  galois::GReduceLogicalOr lo;
  lo.update(true);
  (void)lo.reduce();
  auto r = galois::make_reducible([](int x, int y) { return x + y; }, []() { return 0; });
  r.update(1);
  (void)r.reduce();
  r.reset();

  std::atomic<int> x{0};
  std::atomic<unsigned long> y{0};
  std::atomic<float> z{0};
  (void)galois::atomicMin(x, 1);
  (void)galois::atomicMax(x, 1);
  (void)galois::atomicAdd(x, 1);
  (void)galois::atomicSubtract(x, 1);
  (void)galois::atomicMin(y, 1ul);
  (void)galois::atomicMax(y, 1ul);
  (void)galois::atomicAdd(y, 1ul);
  (void)galois::atomicAdd(z, 1.0f);
  (void)galois::atomicMin(z, 1.0f);

  galois::DynamicBitSet bs;
  bs.resize(100);
  (void)bs.set(3);
  (void)bs.reset(3);
  (void)bs.test(3);
  bs.reset(1, 50);
  bs.reset();
  galois::DynamicBitSet o;
  bs.bitwise_or(o);
  bs.bitwise_and(o);
  bs.bitwise_and(o, o);
  bs.bitwise_xor(o);
  bs.bitwise_xor(o, o);
  (void)bs.count();
  (void)bs.getOffsets();

  UF u1, u2;
  (void)u1.merge(&u2);
  (void)u1.find();
  (void)u1.findAndCompress();
  u1.compress();
  (void)u1.isRep();
}

} // namespace gsa_driver
