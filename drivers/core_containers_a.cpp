// Instantiation driver (parsed only, never run): sequential and concurrent
// containers with a non-trivial element type, so that construct/destroy calls
// are visible.
#include "galois/Galois.h"
#include "galois/Bag.h"
#include "galois/FixedSizeRing.h"
#include "galois/FlatMap.h"
#include "galois/LargeArray.h"
#include "galois/LazyArray.h"
#include "galois/LazyObject.h"
#include "galois/PODResizeableArray.h"
#include "galois/PriorityQueue.h"
#include "galois/gdeque.h"
#include "galois/gslist.h"
#include "galois/optional.h"
#include "galois/runtime/Mem.h"

#include <string>

namespace gsa_driver {

struct Elem {
  int v;
  std::string s;
  Elem(int x = 0) : v(x) {}
  bool operator<(const Elem& o) const { return v < o.v; }
};

template <typename Bag>
void bag(Bag& b) {
  Elem e(1);
  b.push_front(e);
  b.push_back(e);
  (void)b.front();
  (void)b.back();
  (void)b.size();
  (void)b.empty();
  (void)b.full();
  b.pop_front();
  b.pop_back();
  for (auto& x : b)
    (void)x;
  b.clear();
}

void fixed() {
  galois::FixedSizeBag<Elem, 4> b1;
  bag(b1);
  b1.emplace_front(3);
  b1.emplace_back(3);
  (void)b1.extract_front();
  (void)b1.extract_back();
  galois::ConcurrentFixedSizeBag<Elem, 4> b2;
  bag(b2);
  const galois::FixedSizeBag<Elem, 4>& cb1 = b1;
  (void)cb1.front();
  (void)cb1.begin();
  (void)cb1.end();

  galois::FixedSizeRing<Elem, 4> r;
  Elem e(2);
  r.push_front(e);
  r.push_back(e);
  r.emplace_front(1);
  r.emplace_back(1);
  r.emplace(r.begin(), 5);
  (void)r.front();
  (void)r.back();
  (void)r.extract_front();
  (void)r.extract_back();
  r.pop_front();
  r.pop_back();
  (void)r.size();
  (void)r.empty();
  (void)r.full();
  for (auto ii = r.begin(), ee = r.end(); ii != ee; ++ii)
    (void)*ii;
  for (auto ii = r.rbegin(), ee = r.rend(); ii != ee; ++ii)
    (void)*ii;
  auto it = r.begin();
  it += 2;
  --it;
  (void)(r.end() - it);
  r.clear();
  const galois::FixedSizeRing<Elem, 4>& cr = r;
  (void)cr.front();
  (void)cr.back();
  (void)cr.begin();
  (void)cr.end();
}

void deque() {
  galois::gdeque<Elem, 4> d;
  Elem e(1);
  d.push_back(e);
  d.push_front(e);
  d.emplace_back(2);
  d.emplace_front(2);
  d.emplace(d.begin(), 3);
  (void)d.front();
  (void)d.back();
  (void)d.size();
  (void)d.empty();
  d.pop_back();
  d.pop_front();
  for (auto ii = d.begin(), ee = d.end(); ii != ee; ++ii)
    (void)*ii;
  for (auto ii = d.rbegin(), ee = d.rend(); ii != ee; ++ii)
    (void)*ii;
  auto it = d.end();
  --it;
  galois::gdeque<Elem, 4> d2(std::move(d));
  d = std::move(d2);
  d.clear();
  const galois::gdeque<Elem, 4>& cd = d;
  (void)cd.begin();
  (void)cd.end();
  (void)cd.front();
  (void)cd.back();
}

void slist() {
  galois::runtime::FixedSizeHeap heap(128);
  galois::gslist<Elem, 4> l;
  Elem e(1);
  l.push_front(heap, e);
  l.emplace_front(heap, 2);
  (void)l.front();
  (void)l.empty();
  for (auto& x : l)
    (void)x;
  l.pop_front(heap);
  l.pop_front(galois::gslist<Elem, 4>::promise_to_dealloc());
  l.clear(heap);
  galois::gslist<Elem, 4> l2(std::move(l));
  l = std::move(l2);

  galois::concurrent_gslist<Elem, 4> c;
  c.push_front(heap, e);
  (void)c.front();
  (void)c.empty();
  for (auto& x : c)
    (void)x;
  c.pop_front(heap);
  c.pop_front(galois::concurrent_gslist<Elem, 4>::promise_to_dealloc());
  c.clear(heap);
}

} // namespace gsa_driver
