// Instantiation driver (parsed, never run): every .gr reader / writer template of libgalois that C12's LAYOUT rules look at.
#include <deque>
#include "galois/Galois.h"
#include "galois/graphs/BufferedGraph.h"
#include "galois/graphs/OfflineGraph.h"
#include "galois/graphs/LC_CSR_Graph.h"
#include "galois/graphs/OCGraph.h"
#include "galois/graphs/FileGraph.h"

namespace gsa_driver {

void buffered() {
  galois::graphs::BufferedGraph<int> bi;
  bi.loadGraph("x.gr");
  bi.loadPartialGraph("x.gr", 0, 1, 0, 1, 2, 2);
  (void)bi.edgeBegin(0);
  (void)bi.edgeEnd(0);
  (void)bi.edgeDestination(0);
  (void)bi.edgeData(0);
  galois::graphs::BufferedGraph<void> bv;
  bv.loadGraph("x.gr");
  bv.loadPartialGraph("x.gr", 0, 1, 0, 1, 2, 2);
  (void)bv.edgeDestination(0);
  galois::graphs::BufferedGraph<double> bd;
  bd.loadGraph("x.gr");
  (void)bd.edgeData(0);
}

void offline() {
  galois::graphs::OfflineGraph g("x.gr");
  (void)g.size();
  (void)g.sizeEdges();
  (void)g.edge_begin(0);
  (void)g.edge_end(0);
  (void)g.getEdgeDst(g.edge_begin(0));
  (void)g.getEdgeData<int>(g.edge_begin(0));
  (void)g.getEdgeData<double>(g.edge_begin(0));
  galois::graphs::OfflineGraphWriter w("y.gr", false, 16);
  w.setCounts(std::deque<uint64_t>{1, 2});
  w.setEdge(0, 0, 1, 7);
  w.setEdgeSorted(1);
  w.seekEdgesDstStart();
}

void lccsr() {
  galois::graphs::LC_CSR_Graph<int, int> g;
  g.readGraphFromGRFile("x.gr");
  galois::graphs::LC_CSR_Graph<int, void> gv;
  gv.readGraphFromGRFile("x.gr");
  galois::graphs::LC_CSR_Graph<int, double> gd;
  gd.readGraphFromGRFile("x.gr");
}

void filegraph() {
  galois::graphs::FileGraph fg;
  fg.fromFile("x.gr");
  (void)fg.getEdgeData<int>(fg.edge_begin(0));
  (void)fg.getEdgeDst(fg.edge_begin(0));
  galois::graphs::FileGraphWriter w;
  w.setNumNodes(1);
  w.setNumEdges<int>(1);
  w.setNumEdges<void>(1);
  w.phase1();
  w.incrementDegree(0);
  w.phase2();
  (void)w.addNeighbor(0, 0);
  (void)w.finish<int>();
  (void)w.finish<void>();
}

} // namespace gsa_driver
