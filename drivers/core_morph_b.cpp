// Instantiation driver (parsed only, never run): morph graph flavours x mutator API (galois/graphs/Morph_SepInOut_Graph.h)
#include "galois/Galois.h"
#include "galois/graphs/Morph_SepInOut_Graph.h"
#include "morph_common.h"
namespace gsa_driver {
void all_b() {
  using namespace galois::graphs;
  Morph_SepInOut_Graph<int, int, true, false> sd;
  common(sd);
  sorting(sd);
  Morph_SepInOut_Graph<int, int, true, true> sio;
  common(sio);
  sorting(sio);
  inout(sio);
  Morph_SepInOut_Graph<int, int, false> su;
  common(su);
  sorting(su);
}
}
