// Instantiation driver (parsed only, never run): for_each worklist matrix, part b
#include "foreach_common.h"
namespace gsa_driver {
void all_b() {
  using namespace galois::worklists;
  std::vector<int> v;
  drive<PerThreadChunkFIFO<32>>(v);
  drive<PerThreadChunkLIFO<32>>(v);
  drive<FIFO<>>(v);
  drive<LIFO<>>(v);
  drive<GFIFO<>>(v);
  drive<GLIFO<>>(v);
}
}
