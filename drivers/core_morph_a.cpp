// Instantiation driver (parsed only, never run): morph graph flavours x mutator API (galois/graphs/MorphGraph.h)
#include "galois/Galois.h"
#include "galois/graphs/MorphGraph.h"
#include "morph_common.h"
namespace gsa_driver {
void all_a() {
  using namespace galois::graphs;
  MorphGraph<int, int, true, false> d;
  common(d);
  sorting(d);
  MorphGraph<int, int, true, true> dio;
  common(dio);
  sorting(dio);
  inout(dio);
  MorphGraph<int, int, false> u;
  common(u);
  sorting(u);
  inout(u);
  MorphGraph<int, int, true, false, false, true> ds;
  common(ds);
  sorting(ds);
  MorphGraph<int, int, false, false, false, true> us;
  common(us);
  sorting(us);
  MorphGraph<int, int, true, true, true> nl;
  common(nl);
  inout(nl);
  MorphGraph<int, void, true, true> dv;
  {
    auto a = dv.createNode(1);
    auto b = dv.createNode(2);
    dv.addNode(a);
    dv.addNode(b);
    auto e = dv.addEdge(a, b);
    dv.removeEdge(a, e);
  }
}
}
