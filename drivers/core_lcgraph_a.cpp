// Instantiation driver (parsed only, never run): local-computation graphs -- parallel builders, transpose, sorting.
#include "galois/Galois.h"
#include "galois/graphs/Graph.h"
#include "galois/graphs/LC_CSR_CSC_Graph.h"
#include "galois/graphs/LC_CSR_Graph.h"
#include "galois/graphs/LC_InOut_Graph.h"
#include "galois/graphs/LC_InlineEdge_Graph.h"
#include "galois/graphs/LC_Linear_Graph.h"
#include "galois/graphs/LC_Morph_Graph.h"

#include <string>
#include <vector>

namespace gsa_driver {

template <typename G>
void build(G& g) {
  galois::graphs::readGraph(g, std::string("x.gr"));
  for (auto n : g)
    for (auto e : g.edges(n))
      (void)g.getEdgeDst(e);
}

void all() {
  using namespace galois::graphs;
  typedef LC_CSR_Graph<int, int> CSR;
  CSR g;
  build(g);
  g.transpose("t");
  g.sortAllEdgesByDst();
  g.constructNodes();
  g.initializeLocalRanges();
  std::vector<uint64_t> ps;
  std::vector<std::vector<uint32_t>> ids;
  std::vector<std::vector<int>> data;
  g.constructFrom(10u, uint64_t(20), ps, ids, data);
  galois::gstl::Vector<galois::PODResizeableArray<uint32_t>> ids2;
  g.constructFrom(10u, uint64_t(20), ps, ids2, data);
  g.readGraphFromGRFile("x.gr");
  (void)g.findEdge(0, 1);
  (void)g.findEdgeSortedByDst(0, 1);

  LC_CSR_Graph<int, void> gv;
  build(gv);
  gv.transpose("t");
  gv.readGraphFromGRFile("x.gr");

  LC_CSR_Graph<int, int>::with_numa_alloc<true>::type gn;
  build(gn);
  gn.transpose("t");

  LC_CSR_CSC_Graph<int, int> cc;
  build(cc);
  cc.constructIncomingEdges();
  cc.sortAllInEdgesByDst();
  LC_CSR_CSC_Graph<int, void> ccv;
  build(ccv);
  ccv.constructIncomingEdges();

  LC_InOut_Graph<LC_CSR_Graph<int, int>> io;
  readGraph(io, std::string("x.gr"), std::string("xt.gr"));
  io.sortAllInEdgesByDst();

  LC_Linear_Graph<int, int> lin;
  build(lin);
  LC_InlineEdge_Graph<int, int> inl;
  (void)inl.size();
  LC_Morph_Graph<int, int> lm;
  build(lm);

  // file edge type different from the in-memory edge type (with_file_edge_data): every layout must read the file as the
  // FILE's type and convert
  LC_CSR_Graph<int, double>::with_file_edge_data<uint32_t>::type fcsr;
  build(fcsr);
  LC_Linear_Graph<int, double>::with_file_edge_data<uint32_t>::type flin;
  build(flin);
  LC_Morph_Graph<int, double>::with_file_edge_data<uint32_t>::type flm;
  build(flm);
  LC_CSR_CSC_Graph<int, double>::with_file_edge_data<uint32_t>::type fcc;
  build(fcc);
}

} // namespace gsa_driver
