// Instantiation driver (parsed only, never run): ParallelSTL algorithms.
#include "galois/Galois.h"
#include "galois/ParallelSTL.h"

#include <vector>

namespace gsa_driver {
void pstl() {
  std::vector<int> v(5000);
  auto even = [](int x) { return (x & 1) == 0; };
  (void)galois::ParallelSTL::count_if(v.begin(), v.end(), even);
  (void)galois::ParallelSTL::find_if(v.begin(), v.end(), even);
  galois::ParallelSTL::sort(v.begin(), v.end());
  galois::ParallelSTL::sort(v.begin(), v.end(), std::greater<int>());
  (void)galois::ParallelSTL::partition(v.begin(), v.end(), even);
  (void)galois::ParallelSTL::accumulate(v.begin(), v.end(), 0, std::plus<int>());
  (void)galois::ParallelSTL::map_reduce(v.begin(), v.end(), [](int x) { return x * 2; }, std::plus<int>(), 0);
  std::vector<int> out(5000);
  (void)galois::ParallelSTL::partial_sum(v.begin(), v.end(), out.begin());
  // element types wider than int and floating point: a fold whose accumulator is narrower than these must be visible
  std::vector<uint64_t> v64(10), out64(10);
  (void)galois::ParallelSTL::partial_sum(v64.begin(), v64.end(), out64.begin());
  std::vector<double> vd(10), outd(10);
  (void)galois::ParallelSTL::partial_sum(vd.begin(), vd.end(), outd.begin());
  std::vector<std::vector<int>> vv(10);
  galois::ParallelSTL::destroy(vv.data(), vv.data() + 10);
  galois::ParallelSTL::destroy(v.data(), v.data() + 10);
}
} // namespace gsa_driver
