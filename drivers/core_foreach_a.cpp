// Instantiation driver (parsed only, never run): for_each worklist matrix, part a
#include "foreach_common.h"
namespace gsa_driver {
void all_a() {
  using namespace galois::worklists;
  std::vector<int> v;
  drive<PerSocketChunkFIFO<32>>(v);
  drive<PerSocketChunkLIFO<32>>(v);
  drive<PerSocketChunkBag<32>>(v);
  drive<ChunkFIFO<32>>(v);
  drive<ChunkLIFO<32>>(v);
}
}
