// Instantiation driver (parsed only, never run): remaining sequential containers.
#include <utility>
#include "galois/Galois.h"
#include "galois/TwoLevelIteratorA.h"
#include <iterator>
#include <vector>
#include "galois/Bag.h"
#include "galois/FlatMap.h"
#include "galois/LazyArray.h"
#include "galois/LazyObject.h"
#include "galois/PriorityQueue.h"
#include "galois/optional.h"

#include <string>

namespace gsa_driver {

// InsertBag carves its blocks out of raw pages: the first element slot must lie behind the block header for EVERY element
// size, not only those that divide the header's size. One instantiation per element size 1..40 (the header is 32 bytes).
template <size_t N>
struct SizedElem {
  char bytes[N];
};
template <size_t N>
void bag_of_size() {
  galois::InsertBag<SizedElem<N>> b;
  b.push(SizedElem<N>());
}
template <size_t... Ns>
void bags_of_sizes(std::index_sequence<Ns...>) {
  (bag_of_size<Ns + 1>(), ...);
}
void bag_sizes() { bags_of_sizes(std::make_index_sequence<40>()); }


struct ElemB {
  int v;
  std::string s;
  ElemB(int x = 0) : v(x) {}
  bool operator<(const ElemB& o) const { return v < o.v; }
};

void others() {
  galois::optional<ElemB> o1;
  galois::optional<ElemB> o2(ElemB(1));
  galois::optional<ElemB> o3(o2);
  o1 = o2;
  o1 = ElemB(3);
  o1 = galois::optional<ElemB>();
  (void)*o1;
  (void)o1->v;
  (void)o1.get();
  (void)o1.is_initialized();
  if (o1) {
  }

  galois::InsertBag<ElemB> bag;
  bag.push(ElemB(1));
  bag.push_back(ElemB(2));
  bag.emplace(3);
  bag.pop();
  for (auto& x : bag)
    (void)x;
  (void)bag.empty();
  for (auto ii = bag.local_begin(), ee = bag.local_end(); ii != ee; ++ii)
    (void)*ii;
  bag.clear();
  bag.clear_serial();
  galois::InsertBag<ElemB> bag2(std::move(bag));
  bag = std::move(bag2);

  galois::flat_map<int, ElemB> fm;
  fm[1] = ElemB(1);
  fm.insert(std::make_pair(2, ElemB(2)));
  (void)fm.find(1);
  (void)fm.lower_bound(1);
  (void)fm.count(1);
  (void)fm.at(1);
  fm.erase(1);
  fm.erase(fm.begin());
  for (auto& kv : fm)
    (void)kv;
  fm.clear();

  galois::LazyArray<ElemB, 4> la;
  la.construct(0, ElemB(1));
  la.emplace(1, 2);
  (void)la[0];
  la.destroy(0);
  galois::LazyObject<ElemB> lo;
  lo.construct(ElemB(1));
  (void)lo.get();
  lo.destroy();

  galois::ThreadSafeOrderedSet<int> ts;
  ts.push(1);
  (void)ts.pop();
  (void)ts.find(1);
  (void)ts.remove(1);
  (void)ts.empty();
  (void)ts.size();
  ts.clear();
  galois::MinHeap<int> mh;
  mh.push(1);
  (void)mh.pop();
  (void)mh.top();
  galois::ThreadSafeMinHeap<int> tmh;
  tmh.push(1);
  (void)tmh.pop();
  (void)tmh.top();
  (void)tmh.empty();

  // two-level iterators in all three traversal categories (random access reaches jump_forward / jump_backward)
  std::vector<std::vector<int>> vv;
  auto rf = galois::make_two_level_iterator<std::forward_iterator_tag>(vv.begin(), vv.end());
  for (auto it = rf.first; it != rf.second; ++it)
    (void)*it;
  auto rb = galois::make_two_level_iterator<std::bidirectional_iterator_tag>(vv.begin(), vv.end());
  auto ib = rb.second;
  --ib;
  ++ib;
  auto rr = galois::make_two_level_iterator<std::random_access_iterator_tag>(vv.begin(), vv.end());
  auto ir = rr.first;
  ir += 3;
  ir -= 2;
  --ir;
  (void)(rr.second - rr.first);
  (void)std::distance(rf.first, rf.second);
}

} // namespace gsa_driver
