// Instantiation driver (parsed only, never run): GluonSubstrate::sync for all nine (write, read) location pairs, bulk-synchronous
// and asynchronous, with add / min / max / set reductions, with and without an update bitset.
#include "DistBench/Start.h"
#include "galois/DistGalois.h"
#include "galois/gstl.h"
#include "galois/graphs/GluonSubstrate.h"
#include "galois/graphs/GluonEdgeSubstrate.h"
#include "galois/graphs/DistributedGraph.h"
#include "galois/runtime/SyncStructures.h"

#include <atomic>

struct NodeData {
  std::atomic<uint32_t> level;
  uint32_t dist;
  float rank;
  uint32_t flag;
};

galois::DynamicBitSet bitset_level;
galois::DynamicBitSet bitset_dist;
galois::DynamicBitSet bitset_rank;

GALOIS_SYNC_STRUCTURE_REDUCE_MIN(level, uint32_t);
GALOIS_SYNC_STRUCTURE_BITSET(level);
GALOIS_SYNC_STRUCTURE_REDUCE_MAX(dist, uint32_t);
GALOIS_SYNC_STRUCTURE_REDUCE_SET(dist, uint32_t);
GALOIS_SYNC_STRUCTURE_BITSET(dist);
GALOIS_SYNC_STRUCTURE_REDUCE_ADD(rank, float);
GALOIS_SYNC_STRUCTURE_BITSET(rank);
GALOIS_SYNC_STRUCTURE_REDUCE_SET(flag, uint32_t);

namespace gsa_driver {

typedef galois::graphs::DistGraph<NodeData, void> Graph;
typedef galois::graphs::GluonSubstrate<Graph> Substrate;

template <WriteLocation W, ReadLocation R>
void cell(Substrate* s) {
  s->sync<W, R, Reduce_min_level, Bitset_level>("a");
  s->sync<W, R, Reduce_min_level, Bitset_level, true>("a");
  s->sync<W, R, Reduce_add_rank, Bitset_rank>("b");
  s->sync<W, R, Reduce_max_dist, Bitset_dist>("c");
  s->sync<W, R, Reduce_set_flag>("d");
}

void gluon_all(Substrate* s) {
  cell<writeSource, readSource>(s);
  cell<writeSource, readDestination>(s);
  cell<writeSource, readAny>(s);
  cell<writeDestination, readSource>(s);
  cell<writeDestination, readDestination>(s);
  cell<writeDestination, readAny>(s);
  cell<writeAny, readSource>(s);
  cell<writeAny, readDestination>(s);
  cell<writeAny, readAny>(s);
}

} // namespace gsa_driver
