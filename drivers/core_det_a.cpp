// Instantiation driver (parsed only, never run): for_each with the
// deterministic scheduler x {plain, det_id, det_parallel_break, no_pushes,
// per_iter_alloc + local_state, fixed_neighborhood, intent_to_read,
// neighborhood_visitor}.
#include "galois/Galois.h"
#include "galois/worklists/WorkList.h"

#include <vector>

namespace gsa_driver {

struct DetOp {
  void operator()(int& x, galois::UserContext<int>& ctx) const {
    if (x > 0)
      ctx.push(x - 1);
  }
};
struct DetOpNoPush {
  void operator()(int&, galois::UserContext<int>&) const {}
};
struct LocalState {
  int v;
  LocalState(DetOp&, galois::PerIterAllocTy&) : v(0) {}
};
struct LocalStateNV {
  int v;
  LocalStateNV(DetOpNoPush&, galois::PerIterAllocTy&) : v(0) {}
};

void det() {
  typedef galois::worklists::Deterministic<> DWL;
  std::vector<int> v(10);
  auto idfn  = [](const int& x) { return (uintptr_t)x; };
  auto brkfn = []() { return false; };
  DetOpNoPush nv;
  galois::for_each(galois::iterate(v), DetOp{}, galois::wl<DWL>());
  galois::for_each(galois::iterate(v), DetOp{}, galois::wl<DWL>(), galois::loopname("d"),
                   galois::det_id<decltype(idfn)>(idfn));
  galois::for_each(galois::iterate(v), DetOp{}, galois::wl<DWL>(), galois::per_iter_alloc(),
                   galois::det_id<decltype(idfn)>(idfn), galois::det_parallel_break<decltype(brkfn)>(brkfn));
  galois::for_each(galois::iterate(v), DetOpNoPush{}, galois::wl<DWL>(), galois::no_pushes());
  galois::for_each(galois::iterate(v), DetOp{}, galois::wl<DWL>(), galois::per_iter_alloc(),
                   galois::local_state<LocalState>());
  galois::for_each(galois::iterate(v), DetOp{}, galois::wl<DWL>(), galois::fixed_neighborhood(),
                   galois::det_id<decltype(idfn)>(idfn));
  galois::for_each(galois::iterate(v), DetOp{}, galois::wl<DWL>(), galois::intent_to_read(),
                   galois::det_id<decltype(idfn)>(idfn));
  galois::for_each(galois::iterate(v), DetOp{}, galois::wl<DWL>(),
                   galois::neighborhood_visitor<DetOpNoPush>(nv));
}

} // namespace gsa_driver
