// Instantiation driver (parsed, never run): Endian.h alone, so that it can also be parsed with the byte-order macro flipped.
#include "galois/Endian.h"

namespace gsa_driver {
uint64_t endian_all(uint64_t x, uint32_t y) {
  return galois::convert_le64toh(x) + galois::convert_htole64(x) + galois::convert_htobe64(x) + galois::convert_le32toh(y) +
         galois::convert_htole32(y) + galois::convert_htobe32(y);
}
} // namespace gsa_driver
