// Instantiation driver (parsed only, never run): for_each worklist matrix, part d
#include "foreach_common.h"
namespace gsa_driver {
void all_d() {
  using namespace galois::worklists;
  std::vector<int> v;
  typedef OrderedByIntegerMetric<Indexer, PerSocketChunkFIFO<16>> OBIM;
  driveOBIM<OBIM>(v);
  driveOBIM<OBIM::with_barrier<true>::type>(v);
  driveOBIM<OBIM::with_monotonic<true>::type>(v);
  driveOBIM<OBIM::with_descending<true>::type>(v);
}
}
