// Instantiation driver (parsed only, never run): heaps, allocators and storage.
#include "galois/Galois.h"
#include "galois/LargeArray.h"
#include "galois/Mem.h"
#include "galois/PODResizeableArray.h"
#include "galois/gstl.h"
#include "galois/runtime/Mem.h"
#include "galois/substrate/PerThreadStorage.h"

#include <vector>

namespace gsa_driver {
using namespace galois::runtime;

struct Elem {
  int a;
  double b;
  Elem() : a(0), b(0) {}
};

void heaps() {
  size_t got;
  VariableSizeHeap v;
  (void)v.allocate(10);
  (void)v.allocate(10, got);
  v.deallocate(nullptr);
  v.clear();

  BumpHeap<SystemHeap> bh;
  (void)bh.allocate(8);
  (void)bh.allocate(8, got);
  bh.clear();

  galois::IterAllocBaseTy ia;
  (void)ia.allocate(24);
  ia.deallocate(nullptr);
  ia.clear();
  galois::PerIterAllocTy pia(&ia);
  char* c = pia.allocate(16);
  pia.deallocate(c, 16);

  FreeListHeap<BumpHeap<SystemHeap>> fl;
  void* p = fl.allocate(32);
  fl.deallocate(p);
  fl.clear();

  SelfLockFreeListHeap<SystemHeap> sl;
  p = sl.allocate(64);
  sl.deallocate(p);
  sl.clear();

  BlockHeap<48, SystemHeap> blk;
  (void)blk.allocate(48);
  blk.clear();

  LockedHeap<MallocHeap> lh;
  p = lh.allocate(10);
  lh.deallocate(p);

  ZeroOut<MallocHeap> zo;
  p = zo.allocate(10);
  zo.deallocate(p);

  AddHeader<long, MallocHeap> ah;
  p = ah.allocate(10);
  (void)AddHeader<long, MallocHeap>::getHeader(p);
  ah.deallocate(p);

  ThreadPrivateHeap<FreeListHeap<BumpHeap<SystemHeap>>> tp;
  p = tp.allocate(16);
  tp.deallocate(p);
  tp.clear();

  FixedSizeHeap fs(sizeof(Elem));
  p = fs.allocate(sizeof(Elem));
  fs.deallocate(p);

  PageHeap* ph = PageHeap::getInstance();
  p = ph->allocate(100);
  ph->deallocate(p);

  SerialNumaHeap sn;
  p = sn.allocate(100);
  sn.deallocate(p);

  (void)SizedHeapFactory::getHeapForSize(24);
  Pow_2_BlockHeap* p2 = Pow_2_BlockHeap::getInstance();
  p = p2->allocateBlock(100);
  p2->deallocateBlock(p, 100);
  (void)pagePoolAlloc();
}

void allocators() {
  FixedSizeAllocator<Elem> fa;
  Elem* e = fa.allocate(1);
  fa.construct(e);
  fa.destroy(e);
  fa.deallocate(e, 1);

  Pow_2_BlockAllocator<Elem> pa;
  e = pa.allocate(3);
  pa.construct(e);
  pa.destroy(e);
  pa.deallocate(e, 3);

  VariableSizeHeap h;
  ExternalHeapAllocator<Elem, VariableSizeHeap> ea(&h);
  e = ea.allocate(2);
  ea.construct(e);
  ea.destroy(e);
  ea.deallocate(e, 2);

  SerialNumaAllocator<Elem> na;
  e = na.allocate(2);
  na.deallocate(e, 2);

  galois::gstl::Vector<Elem> gv;
  gv.push_back(Elem());
  galois::gstl::Pow2Alloc<int> p2;
  (void)p2;
}

void storage() {
  galois::substrate::PerThreadStorage<Elem> a;
  galois::substrate::PerThreadStorage<Elem> b(std::move(a));
  a = std::move(b);
  (void)a.getLocal();
  (void)a.getRemote(1);
  galois::substrate::PerSocketStorage<Elem> c;
  galois::substrate::PerSocketStorage<Elem> d(std::move(c));
  c = std::move(d);
  (void)c.getLocal();
  (void)c.getRemote(1);
  (void)c.getRemoteByPkg(0);
}

void arrays() {
  galois::LargeArray<Elem> la;
  la.allocateInterleaved(10);
  la.construct();
  la.destroy();
  la.deallocate();
  la.allocateBlocked(10);
  la.deallocate();
  la.allocateLocal(10);
  la.deallocate();
  la.allocateFloating(10);
  la.deallocate();
  std::vector<uint32_t> r;
  la.allocateSpecified(10, r);
  la.create(5);
  galois::LargeArray<Elem> lb(std::move(la));
  la = std::move(lb);

  galois::PODResizeableArray<int> pa;
  pa.reserve(10);
  pa.resize(20);
  pa.push_back(1);
  int x[2] = {1, 2};
  pa.insert(pa.end(), &x[0], &x[2]);
  pa.assign(&x[0], &x[2]);
  galois::PODResizeableArray<int> pb(std::move(pa));
  pa = std::move(pb);
  pa.clear();
}

} // namespace gsa_driver
