#!/bin/sh
# Build the fact extractor (offline; clang 14 + llvm-14 libraries on disk).
set -e
cd "$(dirname "$0")"
mkdir -p bin .cache
if [ ! -x bin/gsa-extract ] || [ tool/gsa-extract.cc -nt bin/gsa-extract ]; then
  clang++ $(llvm-config-14 --cxxflags) -std=c++17 -fno-rtti -O1 \
    tool/gsa-extract.cc -o bin/gsa-extract.tmp \
    /usr/lib/llvm-14/lib/libclang-cpp.so.14 /usr/lib/llvm-14/lib/libLLVM-14.so
  mv bin/gsa-extract.tmp bin/gsa-extract
fi
echo "gsa-extract ready"
