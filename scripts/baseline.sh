#!/bin/sh
# Build /repo (no verification guard exists; nothing is defined) and run the
# stable baseline tests listed in /root/.vp/BASELINE.json.
set -e
# unit-logging does not compile on the pinned tree (fmt version), so keep going past it
cmake --build /repo/_build -j16 -- -k 0 > /tmp/galois-build.log 2>&1 || true
RX=$(python3 -c "
import json
b=json.load(open('/root/.vp/BASELINE.json'))
print('^(' + '|'.join(sorted({t.split('::')[0].replace('.','\\\\.').replace('+','\\\\+') for t in b['stable_pass']})) + ')\$')")
ctest --test-dir /repo/_build -j8 --timeout 900 -R "$RX" "$@"
