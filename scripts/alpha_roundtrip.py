#!/usr/bin/env python3
"""self-test of gsa/alpha.py on facts only (no re-parse): rename EVERY parameter and local of every function under /repo to a
fresh name (what a rename refactoring would produce, applied to the facts), run the normalisation, and require the facts to be
identical to the original again. usage: alpha_roundtrip.py [group ...]"""
import copy, json, os, sys
sys.path.insert(0, os.path.dirname(os.path.dirname(os.path.abspath(__file__))))
from gsa import alpha
from gsa.engine import Ctx
groups = sys.argv[1:] or ["src"]
c = Ctx("alpha", "quick", "/repo")
saved = alpha._table
alpha._table = {}
fx = c.load(*groups)
alpha._table = None if saved == {} else saved
orig = {f["key"]: json.dumps(f, sort_keys=True) for f in fx.functions}
n = 0
for f in fx.functions:
    if alpha.rel(f["file"], "/repo") == f["file"]:
        continue
    names = [x for x in dict.fromkeys(alpha.names_of(f)) if x]
    mp = {x: x + "_rn" for x in names}
    if mp:
        alpha.rename(f, mp)
        n += 1
# nested lambdas see the outer renames as captured names
for g in fx.functions:
    par, depth = g.get("parent"), 0
    while par and depth < 4:
        pf = fx.by_key.get(par)
        if pf is None:
            break
        own = set(alpha.names_of(g))
        m2 = {x + "": x + "_rn" for x in dict.fromkeys(json.loads(orig[pf["key"]]) and alpha.names_of(json.loads(orig[pf["key"]]))) if x and x + "_rn" not in own and x not in own}
        alpha.rename(g, m2, own=False)
        par, depth = pf.get("parent"), depth + 1
fx._alpha_done = False
notes = []
t = alpha.normalise(fx, "/repo", notes)
bad = []
for f in fx.functions:
    if json.dumps(f, sort_keys=True) != orig[f["key"]]:
        bad.append(f)
print("renamed %d functions, normalise touched %d, %d not restored" % (n, t, len(bad)))
for f in bad[:15]:
    a, b = json.loads(orig[f["key"]]), f
    sa, sb = json.dumps(a, sort_keys=True), json.dumps(b, sort_keys=True)
    i = next((i for i in range(min(len(sa), len(sb))) if sa[i] != sb[i]), 0)
    print("  ", f["qn"][:90], "|", sa[max(0, i - 60):i + 40].replace("\n", " "), "||", sb[max(0, i - 60):i + 40])
sys.exit(1 if bad else 0)
