#!/usr/bin/env python3
"""development helper: make a behaviour-preserving 'rename a local' variant as a unified diff.
usage: mk_rename_variant.py <id> <props,comma> <file relative to /repo> <first line> <last line> <old> <new>
Whole-word replacement of <old> (not preceded by . -> or ::) inside the line range; the diff goes to
selftest/refactors/<id>.diff and an entry (expect silent) is appended to selftest/mutants.json."""
import json
import os
import re
import subprocess
import sys
import tempfile

V = os.path.join(os.path.dirname(os.path.abspath(__file__)), "..")
vid, props, rel, a, b, old, new = sys.argv[1:8]
a, b = int(a), int(b)
src = open(os.path.join("/repo", rel)).read().split("\n")
if re.search(r"\b%s\b" % re.escape(new), "\n".join(src[a - 1:b])):
    sys.exit("new name already used in the range")
rx = re.compile(r"(?<![\w>.:])%s\b" % re.escape(old))
out = list(src)
n = 0
for i in range(a - 1, b):
    out[i], k = rx.subn(new, out[i])
    n += k
if not n:
    sys.exit("old name not found")
with tempfile.TemporaryDirectory() as d:
    os.makedirs(os.path.join(d, "a", os.path.dirname(rel)))
    os.makedirs(os.path.join(d, "b", os.path.dirname(rel)))
    open(os.path.join(d, "a", rel), "w").write("\n".join(src))
    open(os.path.join(d, "b", rel), "w").write("\n".join(out))
    p = subprocess.run(["diff", "-u", os.path.join("a", rel), os.path.join("b", rel)], cwd=d, stdout=subprocess.PIPE, text=True)
    diff = p.stdout
pf = os.path.join("selftest", "refactors", vid.replace("RF.", "") + ".diff")
open(os.path.join(V, pf), "w").write(diff)
mp = os.path.join(V, "selftest", "mutants.json")
m = json.load(open(mp))
m = [x for x in m if x["id"] != vid]
m.append({"id": vid, "prop": props.split(","), "patch": pf, "expect": "silent",
          "note": "local %s renamed to %s in %s:%d-%d (%d occurrences)" % (old, new, rel, a, b, n)})
json.dump(m, open(mp, "w"), indent=1)
print(vid, n, "occurrences ->", pf)
