#!/usr/bin/env python3
"""Rebuilds Part II of DESIGN.md from docs/part2_prose.md + the generated tables."""
import os
import subprocess
V = os.path.dirname(os.path.dirname(os.path.abspath(__file__)))
tables = subprocess.check_output(["python3", os.path.join(V, "scripts", "gen_design_tables.py")], text=True)
prose = open(os.path.join(V, "docs", "part2_prose.md")).read().replace("@@TABLES@@", tables)
p = os.path.join(V, "DESIGN.md")
s = open(p).read()
marker = "\n---------------------------------------------------------------------------\n\n# Part II - as built"
i = s.find(marker)
if i >= 0:
    s = s[:i]
s = s.rstrip("\n") + "\n" + prose
open(p, "w").write(s)
print("DESIGN.md: %d lines" % s.count("\n"))
