#!/usr/bin/env python3
"""dev helper: apply a unified diff on a private scratch root (never /repo) and run the given checks, printing their reports:
try_patch.py <patch file> <Cxx> [Cxx..]   (scratch root index: $GSA_DEV=1)"""
import os, subprocess, sys
sys.path.insert(0, os.path.dirname(os.path.dirname(os.path.abspath(__file__))))
from gsa import selftest
pf, props = os.path.abspath(sys.argv[1]), sys.argv[2:]
root = os.path.join(os.environ.get("TMPDIR", "/tmp"), "gsa-dev-%s" % os.environ.get("GSA_DEV", "1"))
selftest.make_scratch(root)
ap = subprocess.run(["patch", "-p1", "-s", "-f", "-d", root, "-i", pf])
if ap.returncode:
    sys.exit("patch does not apply")
try:
    for pr in props:
        p = subprocess.run([os.path.join(selftest.VERIF, "check"), pr, "--root", root, "--tier", "quick"],
                           stdout=subprocess.PIPE, stderr=subprocess.STDOUT, text=True)
        lines = [l for l in p.stdout.splitlines() if not l.startswith("WARN")]
        print("== %s exit %d" % (pr, p.returncode))
        print("\n".join(l[:700] for l in lines[-12:]))
finally:
    subprocess.run(["patch", "-p1", "-s", "-f", "-R", "-d", root, "-i", pf])
