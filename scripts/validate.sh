#!/bin/sh
# validates MANIFEST.json and every evidence file against the task's schemas (needs the tooling venv's jsonschema)
python3-vt - <<'PY'
import json, glob, jsonschema
m = json.load(open('/verif/MANIFEST.json'))
jsonschema.validate(m, json.load(open('/root/.vp/MANIFEST.schema.json')))
es = json.load(open('/root/.vp/EVIDENCE.schema.json'))
n = 0
for p in sorted(glob.glob('/verif/evidence/*.json')):
    jsonschema.validate(json.load(open(p)), es)
    n += 1
claimed = {c['property_id'] for c in m['checks']}
na = {x['property_id'] for x in m['not_applicable']}
allp = {json.loads(l)['id'] for l in open('/verif/properties.jsonl')}
assert claimed | na == allp and not (claimed & na), (claimed, na)
print("manifest ok (%d checks, %d n/a); %d evidence files ok" % (len(claimed), len(na), n))
PY
