#!/usr/bin/env python3
"""dev helper: apply one self-test variant on a private scratch root and run the given checks: try_variant.py <id> <Cxx> [Cxx..]"""
import json, os, subprocess, sys
sys.path.insert(0, os.path.dirname(os.path.dirname(os.path.abspath(__file__))))
from gsa import selftest
vid, props = sys.argv[1], sys.argv[2:]
m = [x for x in json.load(open(os.path.join(selftest.VERIF, "selftest", "mutants.json"))) if x["id"] == vid][0]
m = dict(m, prop=props or m["prop"])
root = os.path.join(os.environ.get("TMPDIR", "/tmp"), "gsa-dev-%s" % os.environ.get("GSA_DEV", "0"))
selftest.make_scratch(root)
r = selftest.run_mutant(m, root)
print(r[1], r[2][:3000])
