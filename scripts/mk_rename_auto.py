#!/usr/bin/env python3
"""development helper: like mk_rename_variant.py but the line range is taken from the facts:
mk_rename_auto.py <id> <props,comma> <qn substring> <old> <new> <group> [group..]"""
import os, subprocess, sys
sys.path.insert(0, os.path.dirname(os.path.dirname(os.path.abspath(__file__))))
from gsa import alpha
from gsa.engine import Ctx
vid, props, sub, old, new = sys.argv[1:6]
groups = sys.argv[6:] or ["src"]
c = Ctx("alpha", "quick", "/repo")
kw = {"files_extra": "lonestar/analytics/distributed"} if "distapps" in groups else {}
fx = c.load(*groups, **kw)
cands = {}
for f in fx.functions:
    if os.environ.get("ARITY") and len(f["params"]) != int(os.environ["ARITY"]):
        continue
    if (f["qn"].endswith(sub) if os.environ.get("EXACT") else sub in f["qn"]) and f["file"].startswith("/repo/") and old in alpha.names_of(f) and "lambda" not in f["qn"].split(sub)[-1]:
        cands[(f["file"], f["line"], f.get("end") or f["line"])] = f["qn"]
if len(cands) != 1:
    sys.exit("expected one function, found %s" % sorted(cands.items())[:6])
(file, a, b), qn = list(cands.items())[0]
print(qn, file, a, b)
here = os.path.dirname(os.path.abspath(__file__))
sys.exit(subprocess.run([sys.executable, os.path.join(here, "mk_rename_variant.py"), vid, props, file[len("/repo/"):], str(a), str(b), old, new]).returncode)
