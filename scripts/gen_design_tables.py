#!/usr/bin/env python3
"""Regenerates the generated tables of DESIGN.md part II (rules per property with today's obligation counts, mutant corpus,
seeded faults, findings) from evidence/, selftest/mutants.json, seeded/*/meta.json and known_findings.json."""
import ast
import glob
import json
import os
import collections

V = os.path.dirname(os.path.dirname(os.path.abspath(__file__)))
out = []
out.append("### 9.1 Rules armed per property (obligation counts of the last quick run on the unchanged tree)\n")
out.append("| property | rule | obligations today | what the rule requires |")
out.append("|---|---|---|---|")
for p in sorted(glob.glob(V + "/evidence/C*.json")):
    e = json.load(open(p))
    rules = e["coverage"].get("rules")
    if isinstance(rules, str):
        rules = ast.literal_eval(rules)
    for rid, r in sorted(rules.items()):
        txt = " ".join(r["text"].split())
        out.append("| %s | `%s` | %d | %s |" % (e["property_id"], rid, r["obligations"], txt.replace("|", "\\|")))
out.append("")
mu = json.load(open(V + "/selftest/mutants.json"))
out.append("### 9.2 Self-test corpus (`python3 -m gsa.selftest`)\n")
out.append("| property | mutants that must be caught | behaviour-preserving variants that must stay silent | rules exercised |")
out.append("|---|---|---|---|")
by = collections.defaultdict(list)
for m in mu:
    for pr in (m["prop"] if isinstance(m["prop"], list) else [m["prop"]]):
        by[pr].append(m)
for p in sorted(by):
    ms = by[p]
    out.append("| %s | %d | %d | %s |" % (p, sum(1 for m in ms if m.get("expect") != "silent"), sum(1 for m in ms if m.get("expect") == "silent"),
                                      ", ".join(sorted({"`%s`" % m["rule"] for m in ms if m.get("rule")}))))
out.append("")
out.append("### 9.3 Faults seeded by independent sub-agents\n")
out.append("| id | what was broken (one line) | caught out of the box? | rule that reports it now |")
out.append("|---|---|---|---|")
for p in sorted(glob.glob(V + "/seeded/*/meta.json")):
    m = json.load(open(p))
    prop = m["property"]
    before = m["checks"]["before"].get(prop, "")
    after = m["checks"].get("after", {}).get(prop, "")
    missed = before.upper().startswith("MISSED")
    out.append("| %s | %s | %s | %s |" % (m["id"], " ".join(m["breaks"].split())[:260].replace("|", "\\|"),
                                       "no - check strengthened" if missed else "yes",
                                       " ".join((after or before).split())[:330].replace("|", "\\|")))
out.append("")
kf = json.load(open(V + "/known_findings.json"))["findings"]
out.append("### 9.4 Findings on the tree as given (genuine defects)\n")
out.append("| id | property | disposition | what fails |")
out.append("|---|---|---|---|")
seen = set()
for f in kf:
    key = (f["id"], f.get("site"))
    disp = ("fixed by /repo commit `%s`" % f["commit"]) if f["status"] == "fixed" else "known finding (`%s` at `%s`)" % (f.get("rule"), f.get("site"))
    out.append("| %s | %s | %s | %s |" % (f["id"], f["property"], disp, " ".join(f["what"].split())[:420].replace("|", "\\|")))
print("\n".join(out))
