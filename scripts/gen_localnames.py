#!/usr/bin/env python3
"""regenerate gsa/localnames.json (reference names of parameters and locals, see gsa/alpha.py) from /repo.
Run after every legitimate change of /repo that the checks have accepted."""
import json
import os
import sys

sys.path.insert(0, os.path.join(os.path.dirname(os.path.abspath(__file__)), ".."))
from gsa import alpha                      # noqa: E402
from gsa.engine import Ctx, unit_groups    # noqa: E402

alpha._table = {}                          # do not normalise while building the reference
root = "/repo"
t = {}
c = Ctx("alpha", "thorough", root)
groups = unit_groups(root, "thorough")
# what the property modules load (non-pattern and pattern facts), on the whole `core` group
plan = [(("core",), False, {}), (("src",), True, {}), (("drv_containers", "drv_foreach"), True, {}),
        (("dist",), False, {}), (("disttools",), False, {"dist": True}), (("drv_distserialize",), False, {}),
        (("drv_distserialize",), True, {}), (("drv_distreduce",), False, {}), (("drv_distgluon",), True, {}),
        (("distapps", "drv_distgluon"), False, {"files_extra": "lonestar/analytics/distributed"}),
        (("pthreadbarrier",), False, {"extra_flags": ["-DGALOIS_HAVE_PTHREAD"]})]
plan += [((g,), False, {}) for g in sorted(groups) if g.startswith("tool_")]
for gs, pat, kw in plan:
    try:
        fx = c.load(*gs, patterns=pat, **kw)
    except Exception as e:
        print("skip", gs, pat, str(e)[:100])
        continue
    for k, ent in alpha.build(fx.functions, root).items():
        cur = t.setdefault(k, [])
        for e in ent:
            hit = [x for x in cur if x["n"] == e["n"]]
            if not hit:
                cur.append(e)
            else:
                for ty in e["t"]:
                    if ty not in hit[0]["t"] and len(hit[0]["t"]) < 8:
                        hit[0]["t"].append(ty)
    print(gs, pat, len(fx.functions), "functions ->", len(t), "entries")
tmp = alpha.TABLE + ".tmp"
with open(tmp, "w") as fh:
    json.dump(t, fh, sort_keys=True, separators=(",", ":"))
os.replace(tmp, alpha.TABLE)
print("wrote", alpha.TABLE, os.path.getsize(alpha.TABLE), "bytes")
