#!/usr/bin/env python3
"""development helper: does a patch-type variant still compile? Applies the diff on a scratch root and runs
clang++ -fsyntax-only on every file it touches (headers through a one-line including unit), with the extractor's flags.
usage: syntax_check_variant.py <variant id>...   (scratch root /tmp/gsa-dev-$GSA_DEV, default 2)"""
import json, os, re, subprocess, sys, tempfile
sys.path.insert(0, os.path.dirname(os.path.dirname(os.path.abspath(__file__))))
from gsa import selftest, facts
root = os.path.join(os.environ.get("TMPDIR", "/tmp"), "gsa-dev-%s" % os.environ.get("GSA_DEV", "2"))
selftest.make_scratch(root)
muts = {x["id"]: x for x in json.load(open(os.path.join(selftest.VERIF, "selftest", "mutants.json")))}
bad = 0
for vid in sys.argv[1:]:
    pf = os.path.join(selftest.VERIF, muts[vid]["patch"])
    files = sorted(set(re.findall(r"^\+\+\+ b/(\S+)", open(pf).read(), re.M)))
    if subprocess.run(["patch", "-p1", "-s", "-f", "-d", root, "-i", pf]).returncode:
        print(vid, "PATCH DOES NOT APPLY"); bad += 1
        continue
    try:
        for rel in files:
            dist = rel.startswith(("libdist", "libgluon", "libcusp", "lonestar", "tools/dist"))
            fl = facts.base_flags(root, dist=dist, ndebug=False)
            with tempfile.NamedTemporaryFile("w", suffix=".cpp", delete=False) as t:
                if rel.endswith((".h", ".hh", ".hpp")):
                    t.write('#include "%s"\n' % os.path.join(root, rel))
                else:
                    t.write('#include "%s"\n' % os.path.join(root, rel))
            p = subprocess.run(["clang++", "-fsyntax-only", "-ferror-limit=5", "-w"] + fl + [t.name],
                               stdout=subprocess.PIPE, stderr=subprocess.STDOUT, text=True)
            os.unlink(t.name)
            errs = [l for l in p.stdout.splitlines() if "error:" in l]
            print(vid, rel, "ok" if p.returncode == 0 else "COMPILE ERROR: " + "; ".join(e[-160:] for e in errs[:3]))
            bad += p.returncode != 0
    finally:
        subprocess.run(["patch", "-p1", "-s", "-f", "-R", "-d", root, "-i", pf])
sys.exit(1 if bad else 0)
