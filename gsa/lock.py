"""LOCK family: lock typestate and guarded-by over the instantiated CFG.

State = set of held lock paths (+ which RAII guard variables currently own).
Propagated path-sensitively up to the held set (the set of distinct held sets
per position is small). try_lock acquires on the branch edge where its value is
true, so `if (x.try_lock())`, `if (!x.try_lock()) return`, `while
(!x.try_lock());` and `do..while(!x.try_lock())` are all the same shape.
"""
import re
from collections import deque

from .cfg import Fn, S, walk, lit, effective_cond

LOCK_CLASSES = {
    "galois::substrate::SimpleLock", "galois::substrate::PaddedLock",
    "galois::substrate::PtrLock", "galois::substrate::DummyLock",
    "galois::substrate::DummyPtrLock",
    "std::mutex", "std::recursive_mutex", "std::timed_mutex", "std::shared_mutex",
}
ACQ = {"lock"}
TRY = {"try_lock"}
REL = {"unlock", "unlock_and_clear", "unlock_and_set"}
GUARD_CLASSES = {"std::lock_guard", "std::unique_lock", "std::scoped_lock"}


def norm(p):
    if p is None:
        return None
    p = p.replace("->", ".")
    p = re.sub(r"^\(?\*?this\)?\.", "", p)
    if p.startswith("this."):
        p = p[5:]
    return p


def lock_call(e):
    """(kind, lockpath tree) for a call event on a lock object"""
    if e.get("k") != "call":
        return None
    if e.get("cls") not in LOCK_CLASSES:
        return None
    n = e.get("name")
    if n in ACQ:
        return "acq"
    if n in TRY:
        return "try"
    if n in REL:
        return "rel"
    return None


class LockResult:
    def __init__(self):
        self.states_at = {}     # pos -> set of frozenset(held)
        self.exit_states = set()
        self.problems = []      # (kind, pos, lock)
        self.locks_seen = set()
        self.n_acq = 0


def analyse(fn, assume_held=(), returns_holding=(), callee_releases=None,
            callee_acquires=None, moved_out_ok=True):
    """callee_releases / callee_acquires: {callee qn: function(event, fn)->lock path}"""
    al = fn.aliases()
    defs = fn.defs()
    res = LockResult()
    callee_releases = callee_releases or {}
    callee_acquires = callee_acquires or {}

    # guard variables: var -> (lock path, initially owns)
    guards = {}
    for _, e in fn.events(reachable_only=False):
        if e["k"] == "decl" and e.get("t", {}).get("rec") in GUARD_CLASSES and "init" in e:
            init = e["init"]
            args = init.get("a", []) if isinstance(init, dict) and init.get("k") == "ctor" else []
            if not args:
                continue
            lk = norm(S(args[0], al))
            owns = True
            mode = "lock"
            if len(args) > 1:
                tag = S(args[1])
                if "adopt_lock" in tag:
                    mode = "adopt"
                elif "defer_lock" in tag:
                    mode = "defer"
                    owns = False
                elif "try_to_lock" in tag:
                    mode = "try"
                    owns = False
            guards[e["n"]] = (lk, mode)

    def lockpath(e):
        r = e.get("recv")
        return norm(S(r, al)) if r is not None else None

    # branch literals that are try_lock calls (possibly through a single-def local)
    try_edges = {}   # (bid, succ idx) -> lock path acquired on that edge
    for bid, b in fn.blocks.items():
        c = effective_cond(b)
        if c is None or len(b.get("succ", [])) != 2:
            continue
        t, pol = lit(c)
        if isinstance(t, dict) and t.get("k") == "ref" and t.get("n") in defs:
            t2, pol2 = lit(defs[t["n"]])
            t, pol = t2, (pol == pol2)
        if isinstance(t, dict) and t.get("k") == "call":
            k = lock_call(t)
            if k == "try":
                lk = norm(S(t.get("recv"), al))
                try_edges[(bid, 0 if pol else 1)] = lk
            elif t.get("fn") in callee_acquires and callee_acquires[t["fn"]].get("when") == "true":
                lk = callee_acquires[t["fn"]]["lock"](t, fn)
                try_edges[(bid, 0 if pol else 1)] = lk

    start = (fn.entry, frozenset(norm(x) for x in assume_held), frozenset())
    seen = set()
    dq = deque([start])
    while dq:
        bid, held, owns = dq.popleft()
        if (bid, held, owns) in seen:
            continue
        seen.add((bid, held, owns))
        b = fn.blocks.get(bid)
        if b is None:
            continue
        dead = False
        for i, e in enumerate(b["ev"]):
            pos = (bid, i)
            res.states_at.setdefault(pos, set()).add(held)
            k = e["k"]
            if k == "call":
                lc = lock_call(e)
                if lc is not None:
                    lk = lockpath(e)
                    res.locks_seen.add(lk)
                    # unique_lock member calls are on the guard, handled below
                    if lc == "acq":
                        res.n_acq += 1
                        if lk in held:
                            res.problems.append(("reacquire", pos, lk))
                        held = held | {lk}
                    elif lc == "rel":
                        if lk not in held:
                            res.problems.append(("release-unheld", pos, lk))
                        held = held - {lk}
                    continue
                # unique_lock .lock()/.unlock()
                if e.get("cls") in GUARD_CLASSES and e.get("name") in ("lock", "unlock", "try_lock"):
                    r = e.get("recv")
                    g = r.get("n") if isinstance(r, dict) and r.get("k") == "ref" else None
                    if g in guards:
                        lk = guards[g][0]
                        if e["name"] == "lock":
                            if lk in held:
                                res.problems.append(("reacquire", pos, lk))
                            held = held | {lk}
                            owns = owns | {g}
                        elif e["name"] == "unlock":
                            if lk not in held:
                                res.problems.append(("release-unheld", pos, lk))
                            held = held - {lk}
                            owns = owns - {g}
                    continue
                fnq = e.get("fn")
                if fnq in callee_releases:
                    lk = callee_releases[fnq](e, fn)
                    if lk is not None:
                        lk = norm(lk)
                        if lk not in held:
                            res.problems.append(("release-unheld", pos, lk))
                        held = held - {lk}
                if fnq in callee_acquires and callee_acquires[fnq].get("when") == "always":
                    lk = norm(callee_acquires[fnq]["lock"](e, fn))
                    held = held | {lk}
                # std::move(guard) passed away: ownership leaves
                if e.get("name") == "move" and e.get("a"):
                    a0 = e["a"][0]
                    if isinstance(a0, dict) and a0.get("k") == "ref" and a0.get("n") in guards and moved_out_ok:
                        g = a0["n"]
                        if g in owns:
                            held = held - {guards[g][0]}
                            owns = owns - {g}
            elif k == "decl":
                g = e.get("n")
                if g in guards and e.get("t", {}).get("rec") in GUARD_CLASSES:
                    lk, mode = guards[g]
                    res.locks_seen.add(lk)
                    if mode == "lock":
                        res.n_acq += 1
                        if lk in held:
                            res.problems.append(("reacquire", pos, lk))
                        held = held | {lk}
                        owns = owns | {g}
                    elif mode == "adopt":
                        if lk not in held:
                            # adopting a lock that this function did not take: it is held by contract
                            held = held | {lk}
                        owns = owns | {g}
            elif k == "dtor":
                g = e.get("n")
                if g in guards and g in owns:
                    lk = guards[g][0]
                    held = held - {lk}
                    owns = owns - {g}
        if bid == fn.exit:
            res.exit_states.add(held)
            continue
        if b.get("noreturn"):
            continue
        for i, s in fn.succs(bid):
            h2 = held
            lk = try_edges.get((bid, i))
            if lk is not None:
                res.locks_seen.add(lk)
                res.n_acq += 1
                if lk in h2:
                    res.problems.append(("reacquire", (bid, len(b["ev"])), lk))
                h2 = h2 | {lk}
            dq.append((s, h2, owns))
    # leaks
    rh = {norm(x) for x in returns_holding}
    for st in res.exit_states:
        for lk in st:
            if lk not in rh and lk not in {norm(x) for x in assume_held}:
                res.problems.append(("held-at-exit", None, lk))
        for lk in {norm(x) for x in assume_held}:
            pass
    return res


def field_accesses(fn, field_fq):
    """(pos, base path normalised, kind) for every event touching the member
    whose qualified (template-stripped) name is field_fq. kind: write / read"""
    al = fn.aliases()
    out = []
    for pos, e in fn.events():
        k = e["k"]
        tops = []
        if k == "assign":
            tops = [("write", e.get("lhs"))]
        elif k == "read":
            tops = [("read", e.get("e"))]
        elif k == "call":
            r = e.get("recv")
            if r is not None:
                tops = [("call", r)]
        for kind, t in tops:
            # only the *outermost* member designates the accessed object
            cur = t
            while isinstance(cur, dict) and cur.get("k") in ("cast",):
                cur = cur.get("e")
            if isinstance(cur, dict) and cur.get("k") == "mem" and cur.get("fq") == field_fq:
                base = norm(S(cur.get("b"), al))
                if base in ("this", "*this", "(*this)"):
                    base = ""
                out.append((pos, base, kind, e))
    return out


def check_guarded(fn, res, field_fq, lock_field, exempt_kinds=()):
    """every access to <base>.<field> happens while <base>.<lock_field> is held.
    Returns list of (pos, needed lock)"""
    bad = []
    for pos, base, kind, e in field_accesses(fn, field_fq):
        if kind in exempt_kinds:
            continue
        need = (base + "." if base else "") + lock_field
        need = norm(need)
        sts = res.states_at.get(pos, set())
        if not sts:
            continue
        if any(need not in st for st in sts):
            bad.append((pos, need, kind))
    return bad
