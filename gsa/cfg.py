"""CFG / event utilities over extracted facts.

A *position* is (block id, event index). Paths are paths in the instantiated
CFG (pruned edges are absent); a block that contains a call to a [[noreturn]]
function ends its path (it never reaches the normal exit).
"""
from collections import deque


# ----------------------------------------------------------------- trees
def walk(t):
    """yield every node of an expression tree (pre-order)"""
    if isinstance(t, dict):
        yield t
        for k, v in t.items():
            if k in ("t", "tt"):
                continue
            if isinstance(v, (dict, list)):
                yield from walk(v)
    elif isinstance(t, list):
        for x in t:
            yield from walk(x)


def S(t, al=None, depth=0):
    """canonical string of an expression tree; al = alias map name->tree"""
    if t is None:
        return ""
    if not isinstance(t, dict):
        return str(t)
    k = t.get("k")
    if depth > 40:
        return "..."
    d = depth + 1
    if k == "ref":
        n = t["n"]
        if al and n in al and t.get("vk") in ("local", "param") :
            return S(al[n], al, d + 4)
        return n
    if k == "this":
        return "this"
    if k == "mem":
        b = t["b"]
        if isinstance(b, dict) and b.get("k") == "mem" and b.get("n") == "":
            # member of an anonymous union/struct: the anonymous level is transparent
            return S(b["b"], al, d) + ("->" if b.get("arrow") else ".") + t["n"]
        if not t.get("arrow") and isinstance(b, dict):
            # (*p).m is p->m
            if b.get("k") == "un" and b.get("op") == "*":
                return S(b["e"], al, d) + "->" + t["n"]
            if b.get("k") == "call" and b.get("op") == "*" and b.get("recv") is not None and not b.get("a"):
                return S(b["recv"], al, d) + "->" + t["n"]
        return S(t["b"], al, d) + ("->" if t.get("arrow") else ".") + t["n"]
    if k == "call":
        name = t.get("name", t.get("fn", "?"))
        op = t.get("op")
        args = [S(a, al, d) for a in t.get("a", []) if not (isinstance(a, dict) and a.get("k") == "defarg")]
        recv = t.get("recv")
        if t.get("conv") and recv is not None:
            return S(recv, al, d)
        if op and recv is not None:
            r = S(recv, al, d)
            if op == "[]":
                return "%s[%s]" % (r, ",".join(args))
            if op == "->":
                return r
            if op == "*" and not args:
                return "*" + r
            if op == "()":
                return "%s(%s)" % (r, ",".join(args))
            if op in ("++", "--"):
                return "%s%s" % (op, r)
            if not args:
                return "%s%s" % (op, r)
            return "(%s %s %s)" % (r, op, ",".join(args))
        if op and recv is None:
            if len(args) == 2:
                return "(%s %s %s)" % (args[0], op, args[1])
            if len(args) == 1:
                return "%s%s" % (op, args[0])
        if recv is not None:
            sep = "->" if t.get("arrow") else "."
            return "%s%s%s(%s)" % (S(recv, al, d), sep, name, ",".join(args))
        return "%s(%s)" % (name, ",".join(args))
    if k == "ctor":
        if (t.get("copy") or t.get("move")) and len(t.get("a", [])) == 1:
            return S(t["a"][0], al, d)       # copy / move construction is transparent
        return "%s{%s}" % (t.get("fn", "?").split("::")[-1],
                           ",".join(S(a, al, d) for a in t.get("a", [])))
    if k == "bin":
        return "(%s %s %s)" % (S(t["l"], al, d), t["op"], S(t["r"], al, d))
    if k == "un":
        op = t["op"]
        if op.startswith("post"):
            return S(t["e"], al, d) + op[4:]
        if op.startswith("pre"):
            return op[3:] + S(t["e"], al, d)
        return op + S(t["e"], al, d)
    if k == "cond":
        return "(%s ? %s : %s)" % (S(t["c"], al, d), S(t["a"], al, d), S(t["b"], al, d))
    if k == "idx":
        return "%s[%s]" % (S(t["b"], al, d), S(t["i"], al, d))
    if k in ("int", "float"):
        return str(t["v"])
    if k == "bool":
        return "true" if t["v"] else "false"
    if k == "null":
        return "nullptr"
    if k == "str":
        return repr(t.get("v", ""))
    if k == "sizeof":
        return "sizeof(%s)" % t.get("ty")
    if k == "cast":
        return S(t["e"], al, d)
    if k == "defarg":
        return S(t["e"], al, d)
    if k == "lambda":
        return t["id"]
    if k == "new":
        return "new %s" % t.get("ty")
    if k == "delete":
        return "delete " + S(t["e"], al, d)
    if k == "initlist":
        return "{%s}" % ",".join(S(a, al, d) for a in t.get("a", []))
    if k == "dep":
        b = t.get("b")
        return (S(b, al, d) + "." if b else "") + t.get("n", "?")
    if k == "zero":
        return "0"
    return t.get("text", "?" + str(k))


def canon(t):
    """copy of an expression tree with the spelling of comparisons normalised: a > b -> b < a, a >= b -> b <= a, and the
    operands of == / != put in a fixed order (commutative arithmetic is left to the polynomial layer)"""
    if isinstance(t, list):
        return [canon(x) for x in t]
    if not isinstance(t, dict):
        return t
    r = {k: canon(v) for k, v in t.items()}
    if r.get("k") == "bin":
        op = r.get("op")
        if op in (">", ">="):
            r["l"], r["r"] = r["r"], r["l"]
            r["op"] = "<" if op == ">" else "<="
        elif op in ("==", "!="):
            if S(r["l"]) > S(r["r"]):
                r["l"], r["r"] = r["r"], r["l"]
    return r


def SN(t, al=None):
    """canonical string with comparison spelling normalised (see canon)"""
    return S(canon(t), al)


def canon_comm(t):
    """canon() plus a fixed operand order for the commutative operators + * & | ^ (strings only: used to compare two
    spellings of the same expression, never to evaluate)"""
    if isinstance(t, list):
        return [canon_comm(x) for x in t]
    if not isinstance(t, dict):
        return t
    r = {k: canon_comm(v) for k, v in t.items()}
    if r.get("k") == "bin":
        op = r.get("op")
        if op in (">", ">="):
            r["l"], r["r"] = r["r"], r["l"]
            r["op"] = "<" if op == ">" else "<="
        elif op in ("==", "!=", "+", "*", "&", "|", "^"):
            if S(r["l"]) > S(r["r"]):
                r["l"], r["r"] = r["r"], r["l"]
    return r


def SC(t, al=None):
    """canonical string with comparisons normalised and commutative operands ordered; aliases are expanded first so that the
    ordering sees the expanded operands"""
    def expand(x):
        if isinstance(x, list):
            return [expand(y) for y in x]
        if not isinstance(x, dict):
            return x
        if al and x.get("k") == "ref" and x.get("n") in al and x.get("vk") in ("local", "param"):
            return expand(al[x["n"]])
        return {k: expand(v) for k, v in x.items()}
    return S(canon_comm(expand(t) if al else t))


def cmp_pred(a, op, b, al=None):
    """guard predicate for the comparison `a op b` (operand strings as S() prints them) that recognises every spelling:
    a < b, b > a, and -- answering "neg" -- the complementary comparison b <= a / a >= b; likewise ==/!= in either operand
    order. To be used with Fn.guard_edges / guarded_positions."""
    if op in (">", ">="):
        a, b, op = b, a, ("<" if op == ">" else "<=")
    if op in ("==", "!="):
        x, y = sorted([a, b])
        pos, neg = "(%s %s %s)" % (x, op, y), "(%s %s %s)" % (x, "!=" if op == "==" else "==", y)
    else:
        pos = "(%s %s %s)" % (a, op, b)
        neg = "(%s %s %s)" % (b, "<=" if op == "<" else "<", a)

    def p(t):
        s = SN(t, al)
        return True if s == pos else ("neg" if s == neg else False)
    return p


def lit(cond):
    """normalise a branch condition to (tree, polarity)"""
    pol = True
    t = cond
    while isinstance(t, dict):
        k = t.get("k")
        if k == "un" and t["op"] == "!":
            pol = not pol
            t = t["e"]
            continue
        if k == "call" and t.get("op") == "!" and t.get("recv") is not None and not t.get("a"):
            pol = not pol
            t = t["recv"]
            continue
        if k == "bin" and t["op"] in ("==", "!="):
            l, r = t["l"], t["r"]
            def zero(x):
                return isinstance(x, dict) and (
                    (x.get("k") == "int" and x.get("v") == 0) or
                    x.get("k") == "null" or
                    (x.get("k") == "bool" and x.get("v") is False) or
                    (x.get("k") == "cast" and zero(x.get("e"))))
            def true_(x):
                return isinstance(x, dict) and x.get("k") == "bool" and x.get("v") is True
            if zero(r) or zero(l):
                other = l if zero(r) else r
                if t["op"] == "==":
                    pol = not pol
                t = other
                continue
            if true_(r) or true_(l):
                other = l if true_(r) else r
                if t["op"] == "!=":
                    pol = not pol
                t = other
                continue
        if k == "cast":
            t = t["e"]
            continue
        break
    return t, pol


def effective_cond(block):
    """the condition actually tested at the end of this block"""
    term = block.get("term")
    if not term or "cond" not in term:
        return None
    c = term["cond"]
    if term.get("cls") != "BinaryOperator":
        # logical operators are decomposed by the CFG: the last operand is
        # what this block tests
        while isinstance(c, dict) and c.get("k") == "bin" and c["op"] in ("&&", "||"):
            c = c["r"]
        while isinstance(c, dict) and c.get("k") == "call" and c.get("op") in ("&&", "||"):
            break
    return c


class Fn:
    """wrapper around one extracted function"""

    def __init__(self, f):
        self.f = f
        self.key = f["key"]
        self.qn = f["qn"]
        self.name = f["name"]
        self.blocks = {b["id"]: b for b in f["blocks"]}
        self.entry = f.get("entry")
        self.exit = f.get("exit")
        self.nocfg = bool(f.get("nocfg"))
        if self.nocfg:
            self.entry = 0
            self.exit = None
        self._reach = None
        self._aliases = None
        self._thread_shortcircuits()

    def _thread_shortcircuits(self):
        """clang emits a value-form logical operator (cond wrapped in
        ExprWithCleanups) as: P --short-circuit--> X(confluence) --> T/F. The
        short-circuit edge already determines X's branch; thread it so that the
        infeasible P->X->other path disappears."""
        for bid, P in self.blocks.items():
            t = P.get("term")
            if not t or t.get("cls") != "BinaryOperator" or t.get("op") not in ("&&", "||"):
                continue
            succ = P.get("succ", [])
            if len(succ) != 2 or "cond" not in t:
                continue
            sc = 1 if t["op"] == "&&" else 0
            tgt = succ[sc]
            expr_l = S(t["cond"])
            hops = 0
            while tgt is not None and hops < 8:
                X = self.blocks.get(tgt)
                if X is None or X["ev"] or len(X.get("succ", [])) != 2:
                    break
                xt = X.get("term") or {}
                c = xt.get("cond")
                if not (isinstance(c, dict) and c.get("k") == "bin" and c.get("op") == t["op"]
                        and S(c["l"]) == expr_l):
                    break
                tgt = X["succ"][sc]
                expr_l = S(c)
                hops += 1
            if hops:
                P["succ"] = list(succ)
                P["succ"][sc] = tgt

    # --- basic structure
    def succs(self, bid):
        b = self.blocks[bid]
        if b.get("noreturn"):
            return []
        if b.get("_throws") is None:
            b["_throws"] = any(e.get("k") == "throw" for e in b["ev"])
        if b["_throws"]:
            return []       # an exception leaves the function: not a normal exit
        return [(i, s) for i, s in enumerate(b.get("succ", [])) if s is not None]

    def reachable_blocks(self):
        if self._reach is None:
            seen = set()
            dq = deque([self.entry])
            while dq:
                b = dq.popleft()
                if b in seen or b not in self.blocks:
                    continue
                seen.add(b)
                for _, s in self.succs(b):
                    dq.append(s)
            self._reach = seen
        return self._reach

    def events(self, pred=None, reachable_only=True):
        """yield (pos, ev) for every event (in reachable blocks)"""
        rb = self.reachable_blocks() if reachable_only else self.blocks.keys()
        for bid in sorted(rb, reverse=True):
            b = self.blocks[bid]
            for i, e in enumerate(b["ev"]):
                if pred is None or pred(e):
                    yield (bid, i), e

    def ev(self, pos):
        return self.blocks[pos[0]]["ev"][pos[1]]

    def loc(self, pos=None):
        if pos is None:
            return "%s:%s" % (self.f["file"], self.f["line"])
        e = self.ev(pos)
        return "%s:%s" % (e.get("f", self.f["file"]), e.get("l", "?"))

    def aliases(self):
        """reference / pointer-copy aliases: local name -> init tree"""
        if self._aliases is None:
            al = {}
            for _, e in self.events(reachable_only=False):
                if e["k"] == "decl" and "init" in e and e.get("ref"):
                    al[e["n"]] = e["init"]
            self._aliases = al
        return self._aliases

    def path(self, tree):
        return S(tree, self.aliases())

    def defs(self):
        """single-definition locals: name -> init tree (declared once with an
        initialiser, never assigned, ++/-- or address-taken afterwards)"""
        if getattr(self, "_defs", None) is None:
            cand, killed = {}, set()
            for _, e in self.events(reachable_only=False):
                k = e["k"]
                if k == "decl" and "init" in e and not e.get("ref"):
                    if e["n"] in cand:
                        killed.add(e["n"])
                    cand[e["n"]] = e["init"]
                elif k == "assign":
                    t = e.get("lhs")
                    if isinstance(t, dict) and t.get("k") == "ref":
                        killed.add(t["n"])
                elif k == "call" and e.get("op") in ("=", "+=", "-=", "++", "--", "|=", "&="):
                    t = e.get("recv")
                    if isinstance(t, dict) and t.get("k") == "ref":
                        killed.add(t["n"])
            for _, e in self.events(reachable_only=False):
                for n in walk(e):
                    if n.get("k") == "un" and n.get("op") == "&":
                        t = n.get("e")
                        if isinstance(t, dict) and t.get("k") == "ref":
                            killed.add(t["n"])
            self._defs = {n: t for n, t in cand.items() if n not in killed}
        return self._defs

    # --- path search
    def search(self, starts, stop=None, edge_ok=None, through=None):
        """Forward search from start states. A state is (bid, idx) = about to
        execute event idx of block bid. Returns (hits, reached_exit) where hits
        is the list of positions at which stop(ev) was true (search does not
        continue past them). through: optional callback(pos, ev) for every
        event passed (not stopped)."""
        seen = set()
        hits = []
        hitset = set()
        reached_exit = False
        dq = deque(starts)
        while dq:
            bid, idx = dq.popleft()
            if (bid, idx) in seen:
                continue
            seen.add((bid, idx))
            b = self.blocks.get(bid)
            if b is None:
                continue
            evs = b["ev"]
            stopped = False
            i = idx
            while i < len(evs):
                if i != idx:
                    if (bid, i) in seen:
                        stopped = True
                        break
                    seen.add((bid, i))
                e = evs[i]
                if stop is not None and stop(e):
                    if (bid, i) not in hitset:
                        hitset.add((bid, i))
                        hits.append((bid, i))
                    stopped = True
                    break
                if through is not None:
                    through((bid, i), e)
                i += 1
            if stopped:
                continue
            if bid == self.exit:
                reached_exit = True
                continue
            if b.get("noreturn"):
                continue
            ss = self.succs(bid)
            if not ss and bid != self.exit and not self.nocfg:
                # dead end that is not exit (e.g. infinite loop pruned)
                continue
            for i, s in ss:
                if edge_ok is not None and not edge_ok(bid, i, s):
                    continue
                dq.append((s, 0))
        return hits, reached_exit

    def search_tracked(self, starts, stop=None, track=(), edge_ok=None, kills=None, init=None):
        """like search(), but remembers the truth value of the tracked literals
        (canonical strings, aliases resolved) along the path: a second test of
        the same literal follows only the consistent edge. An assignment to a
        tracked path forgets its value (kills(ev) may name more). Returns
        (hits, reached_exit); hits are (pos, known) pairs."""
        al = self.aliases()
        track = set(track)
        br = {}
        for bid in self.blocks:
            b = self.branch(bid)
            if b is None:
                continue
            s = S(b[0], al)
            if s in track:
                br[bid] = (s, b[1])
        seen = set()
        hits = []
        reached_exit = False
        dq = deque((b, i, frozenset((init or {}).items())) for (b, i) in starts)
        while dq:
            bid, idx, known = dq.popleft()
            if (bid, idx, known) in seen:
                continue
            seen.add((bid, idx, known))
            b = self.blocks.get(bid)
            if b is None:
                continue
            evs = b["ev"]
            stopped = False
            kd = dict(known)
            for i in range(idx, len(evs)):
                e = evs[i]
                if stop is not None and stop(e):
                    hits.append(((bid, i), dict(kd)))
                    stopped = True
                    break
                if e["k"] == "decl" and e.get("n") in track and isinstance(e.get("init"), dict) and \
                        e["init"].get("k") in ("bool", "int", "null"):
                    kd[e["n"]] = bool(e["init"].get("v", 0))
                if e["k"] == "decl" and e.get("n") in track and isinstance(e.get("init"), dict) and \
                        e["init"].get("k") == "cond":
                    ct, cpol = lit(e["init"]["c"])
                    cs = S(ct, al)
                    if cs in kd:
                        arm = e["init"]["a"] if kd[cs] == cpol else e["init"]["b"]
                        if isinstance(arm, dict) and arm.get("k") in ("bool", "int", "null"):
                            kd[e["n"]] = bool(arm.get("v", 0))
                if e["k"] == "assign":
                    lp = S(e.get("lhs"), al)
                    if lp in kd:
                        del kd[lp]
                    r = e.get("rhs")
                    if e.get("op") == "=" and lp in track and isinstance(r, dict) and r.get("k") in ("bool", "int", "null"):
                        kd[lp] = bool(r.get("v", 0))
                    # prefix kill: assigning x kills x->y
                    for k in [k for k in kd if k.startswith(lp + "->") or k.startswith(lp + ".")]:
                        del kd[k]
                elif e["k"] == "call" and e.get("op") in ("=",) and e.get("recv") is not None:
                    lp = S(e["recv"], al)
                    kd.pop(lp, None)
                if kills is not None:
                    for k in kills(e) or ():
                        kd.pop(k, None)
            if stopped:
                continue
            if bid == self.exit:
                reached_exit = True
                continue
            if b.get("noreturn"):
                continue
            for i, s2 in self.succs(bid):
                if edge_ok is not None and not edge_ok(bid, i, s2):
                    continue
                k2 = kd
                if bid in br:
                    name, pol = br[bid]
                    val = pol if i == 0 else (not pol)
                    if name in kd and kd[name] != val:
                        continue
                    k2 = dict(kd)
                    k2[name] = val
                dq.append((s2, 0, frozenset(k2.items())))
        return hits, reached_exit

    def after(self, pos):
        return (pos[0], pos[1] + 1)

    def entry_state(self):
        return (self.entry, 0)

    # --- derived queries
    def must_follow(self, a_pos, is_b, edge_ok=None):
        """every path from just after a_pos to the normal exit passes an event
        satisfying is_b. Returns True if holds."""
        _, ex = self.search([self.after(a_pos)], stop=is_b, edge_ok=edge_ok)
        return not ex

    def reaches_without(self, is_target, is_guard, edge_ok=None, starts=None):
        """positions of target events reachable from entry (or starts) on a
        path with no guard event before them"""
        def stop(e):
            return is_guard(e) or is_target(e)
        hits, _ = self.search(starts or [self.entry_state()], stop=stop, edge_ok=edge_ok)
        return [p for p in hits if is_target(self.ev(p)) and not is_guard(self.ev(p))]

    def reaches_without_t(self, is_target, is_guard, track, starts=None, edge_ok=None):
        """reaches_without with remembered truth values of the tracked literals"""
        def stop(e):
            return is_guard(e) or is_target(e)
        hits, _ = self.search_tracked(starts or [self.entry_state()], stop=stop, track=track, edge_ok=edge_ok)
        out = []
        for p, _k in hits:
            if is_target(self.ev(p)) and not is_guard(self.ev(p)) and p not in out:
                out.append(p)
        return out

    def exit_reachable_without_t(self, is_guard, track, starts=None, edge_ok=None):
        _, ex = self.search_tracked(starts or [self.entry_state()], stop=is_guard, track=track, edge_ok=edge_ok)
        return ex

    def exit_reachable_without(self, is_guard, starts=None, edge_ok=None):
        _, ex = self.search(starts or [self.entry_state()], stop=is_guard, edge_ok=edge_ok)
        return ex

    def branch(self, bid):
        """(lit tree, polarity on succ[0]) for a two-way branch block"""
        b = self.blocks[bid]
        c = effective_cond(b)
        if c is None or len(b.get("succ", [])) != 2:
            return None
        t, pol = lit(c)
        return t, pol

    def guard_edges(self, pred, want=True):
        """set of (bid, succ index) edges on which a literal satisfying pred
        is known to have truth value `want`. A branch on a conjunction that is true makes every conjunct true, one on a
        disjunction that is false makes every disjunct false, and a negation flips (so `!(a && b)` and `!a || !b` give the
        same edges)."""
        def implied(t, val):
            if isinstance(t, dict):
                if t.get("k") == "cast":
                    return implied(t.get("e"), val)
                if t.get("k") == "un" and t.get("op") == "!":
                    return implied(t.get("e"), not val)
                if t.get("k") == "bin" and t.get("op") == "&&" and val:
                    return implied(t["l"], True) + implied(t["r"], True)
                if t.get("k") == "bin" and t.get("op") == "||" and not val:
                    return implied(t["l"], False) + implied(t["r"], False)
            return [(t, val)]
        out = set()
        for bid, b in self.blocks.items():
            br = self.branch(bid)
            if br is None:
                continue
            t, pol = br
            # succ[0] taken when cond true => literal == pol
            for i, val in ((0, pol), (1, not pol)):
                for lt, v in implied(t, val):
                    if isinstance(lt, dict):
                        l2, p2 = lit(lt)
                        if p2 is False:
                            v2 = not v
                        else:
                            v2 = v
                    else:
                        l2, v2 = lt, v
                    if l2 is None:
                        continue
                    r = pred(l2)
                    # a predicate may answer "neg": the literal is the negation of what it looks for (see cmp_pred)
                    if r == "neg":
                        v2 = not v2
                    if r and v2 == want:
                        out.add((bid, i))
        return out

    def guarded_positions(self, is_target, pred, want=True, kill=None):
        """For each target event: is it only reachable through an edge on which
        literal(pred)==want?  Returns list of unguarded target positions.
        kill(ev): an event that invalidates the literal (search restarts as
        unguarded after it)."""
        ge = self.guard_edges(pred, want)

        def edge_ok(bid, i, s):
            return (bid, i) not in ge
        bad = []
        hits, _ = self.search([self.entry_state()], stop=is_target, edge_ok=edge_ok)
        bad.extend(hits)
        if kill is not None:
            for pos, e in self.events(kill):
                hits, _ = self.search([self.after(pos)], stop=is_target, edge_ok=edge_ok)
                for h in hits:
                    if h not in bad:
                        bad.append(h)
        return bad

    def flow(self, init, on_event=None, on_edge=None, limit=20000):
        """Forward may-dataflow over small hashable states. on_event(state, pos, ev) -> state (or None to stop the path);
        on_edge(state, bid, i, term_literal, polarity_on_this_edge) -> state (or None when the edge is infeasible).
        Returns {pos: set(states arriving just before the event)} plus key 'exit' -> states at exit."""
        seen = set()
        at = {}
        work = [(self.entry, 0, init)]
        n = 0
        while work:
            bid, idx, st = work.pop()
            if (bid, idx, st) in seen:
                continue
            seen.add((bid, idx, st))
            n += 1
            if n > limit:
                raise RuntimeError("flow: state limit in %s" % self.f.get("key"))
            b = self.blocks.get(bid)
            if b is None:
                continue
            evs = b["ev"]
            stop = False
            while idx < len(evs):
                at.setdefault((bid, idx), set()).add(st)
                if on_event is not None:
                    st = on_event(st, (bid, idx), evs[idx])
                    if st is None:
                        stop = True
                        break
                idx += 1
            if stop:
                continue
            if bid == self.exit:
                at.setdefault("exit", set()).add(st)
                continue
            br = self.branch(bid)
            for i, s2 in self.succs(bid):
                st2 = st
                if on_edge is not None and br is not None and len(self.succs(bid)) >= 2:
                    t, pol = br
                    st2 = on_edge(st, bid, i, t, pol if i == 0 else (not pol))
                    if st2 is None:
                        continue
                work.append((s2, 0, st2))
        return at

    def count_paths_ge2(self):
        """non-trivial: at least one two-way branch among reachable blocks"""
        for bid in self.reachable_blocks():
            if len(self.succs(bid)) >= 2:
                return True
        return False

    def n_events(self):
        return sum(len(self.blocks[b]["ev"]) for b in self.reachable_blocks())


# ------------------------------------------------------------- matchers
def is_call(name=None, fn=None, cls=None, recv=None, fn_in=None, name_in=None):
    """event predicate for calls. name: unqualified callee; fn: qualified
    (stripped) callee; cls: callee's class; recv: substring/regex on receiver
    path (rp)"""
    import re
    rx = re.compile(recv) if isinstance(recv, str) else None

    def p(e):
        if e.get("k") != "call":
            return False
        if name is not None and e.get("name") != name:
            return False
        if name_in is not None and e.get("name") not in name_in:
            return False
        if fn is not None and e.get("fn") != fn:
            return False
        if fn_in is not None and e.get("fn") not in fn_in:
            return False
        if cls is not None and e.get("cls") != cls:
            return False
        if rx is not None:
            r = e.get("rp")
            if r is None and e.get("recv") is not None:
                r = S(e["recv"])
            if r is None or not rx.search(r):
                return False
        return True
    return p


def is_assign(lp=None, op=None):
    import re
    rx = re.compile(lp) if isinstance(lp, str) else None

    def p(e):
        if e.get("k") != "assign":
            return False
        if op is not None and e.get("op") != op:
            return False
        if rx is not None and not rx.search(e.get("lp", "")):
            return False
        return True
    return p


def stores(fn, al=None):
    """(pos, target string, op, value string) for builtin assignments and class-type operator= / compound calls alike"""
    al = fn.aliases() if al is None else al
    for pos, e in fn.events():
        if e.get("k") == "assign":
            yield pos, S(e.get("lhs"), al), e.get("op"), (S(e.get("rhs"), al) if e.get("rhs") is not None else None)
        elif e.get("k") == "call" and e.get("op") in ("=", "+=", "-=", "|=", "&=", "++", "--") and e.get("recv") is not None:
            a = e.get("a", [])
            yield pos, S(e["recv"], al), e["op"], (S(a[0], al) if a else None)


def is_ret(e):
    return e.get("k") == "ret"


def any_of(*ps):
    def p(e):
        return any(q(e) for q in ps)
    return p


def calls_in(tree, name=None, fn=None):
    for n in walk(tree):
        if n.get("k") == "call":
            if name is not None and n.get("name") != name:
                continue
            if fn is not None and n.get("fn") != fn:
                continue
            yield n


def refs_in(tree):
    for n in walk(tree):
        if n.get("k") in ("ref", "mem"):
            yield n
