"""debug: python3 -m gsa.dump <group> <qn-substring> [key-substring] [--root R]"""
import sys

from .engine import Ctx
from .cfg import S


def show(f, out=sys.stdout):
    print("==", f["key"][:400], file=out)
    print("   qn", f["qn"], "kind", f["kind"], f["file"], f["line"], "entry", f.get("entry"),
          "exit", f.get("exit"), "unit", f.get("unit"), file=out)
    for b in f["blocks"]:
        t = b.get("term") or {}
        print("  B%s succ %s usucc %s %s%s%s" % (
            b["id"], b.get("succ"), [u for u in b.get("usucc", []) if u is not None] or "",
            ("term[%s %s] %s" % (t.get("cls"), t.get("op", ""), t.get("text")) if t else ""),
            (" const=%s" % t["const"]) if "const" in t else "",
            " NORETURN" if b.get("noreturn") else "") +
            (" label=%s" % b["label"] if b.get("label") else ""), file=out)
        for e in b["ev"]:
            k = e["k"]
            l = e.get("l")
            if k == "call":
                print("      %s call %s recv=%s args=%s%s" % (
                    l, e.get("fn"), e.get("rp"), [S(a) for a in e.get("a", [])],
                    " NR" if e.get("nr") else ""), file=out)
            elif k == "atomic":
                print("      %s atomic %s %s %s orders=%s" % (
                    l, e["kind"], e["aop"], e["p"], [o.get("v") for o in e["orders"]]), file=out)
            elif k == "assign":
                print("      %s assign %s %s %s" % (l, e["lp"], e["op"], e.get("rp")), file=out)
            elif k == "read":
                print("      %s read %s" % (l, e["p"]), file=out)
            elif k == "decl":
                print("      %s decl %s%s = %s" % (l, "&" if e.get("ref") else "", e["n"], e.get("ip")), file=out)
            elif k == "ret":
                print("      %s ret %s" % (l, e.get("p")), file=out)
            elif k == "ctor":
                print("      %s ctor %s(%s)" % (l, e.get("fn"), [S(a) for a in e.get("a", [])]), file=out)
            elif k == "dtor":
                print("      %s dtor %s : %s" % (l, e.get("n"), e.get("t", {}).get("rec")), file=out)
            elif k == "init":
                print("      %s init %s = %s" % (l, e.get("n"), e.get("ip")), file=out)
            else:
                print("      %s %s %s" % (l, k, e.get("text", e.get("p", ""))), file=out)


def main():
    args = [a for a in sys.argv[1:] if not a.startswith("--")]
    root = "/repo"
    pats = "--patterns" in sys.argv
    for a in sys.argv[1:]:
        if a.startswith("--root="):
            root = a[7:]
    group, sub = args[0], args[1]
    ksub = args[2] if len(args) > 2 else None
    c = Ctx("dump", root=root)
    fx = c.load(group, patterns=pats)
    n = 0
    for f in fx.functions:
        if sub in f["qn"] and (ksub is None or ksub in f["key"]):
            show(f)
            n += 1
            if n >= int(__import__("os").environ.get("N", "3")):
                break
    print(n, "shown")


if __name__ == "__main__":
    main()
