"""Fact extraction driver and cache.

Runs bin/gsa-extract over groups of translation units of the *current* source
tree (root, default /repo), in parallel, one JSON fact file per unit, and merges
them. Cache key = sha256(tool binary, unit, flags, filter, content hash of every
source file under the analysed directories), so any edit of the tree re-parses.
"""
import fcntl
import glob
import hashlib
import json
import os
import subprocess
import sys
import time
from concurrent.futures import ThreadPoolExecutor

VERIF = os.path.dirname(os.path.dirname(os.path.abspath(__file__)))
TOOL = os.path.join(VERIF, "bin", "gsa-extract")
CACHE = os.environ.get("GSA_CACHE", os.path.join(VERIF, ".cache"))

SRC_DIRS = ["libgalois", "libsupport", "libdist", "libgluon", "libcusp",
            "tools", "lonestar/libdistbench", "lonestar/liblonestar",
            "lonestar/analytics/distributed", "libpangolin"]

_resource_dir = None


def resource_dir():
    global _resource_dir
    if _resource_dir is None:
        _resource_dir = subprocess.check_output(
            ["clang++", "-print-resource-dir"], text=True).strip()
    return _resource_dir


_mpi_flags = None


def mpi_flags():
    global _mpi_flags
    if _mpi_flags is None:
        try:
            out = subprocess.check_output(["mpicxx", "--showme:compile"],
                                          text=True, stderr=subprocess.DEVNULL)
            _mpi_flags = out.split()
        except Exception:
            _mpi_flags = []
    return _mpi_flags


def tree_hash(root):
    """content hash of all sources under the analysed dirs of root"""
    h = hashlib.sha256()
    for d in SRC_DIRS:
        base = os.path.join(root, d)
        if not os.path.isdir(base):
            continue
        for dp, dn, fn in os.walk(base):
            dn.sort()
            for f in sorted(fn):
                if not f.endswith((".h", ".hpp", ".cpp", ".cc", ".c", ".in",
                                   ".hh", ".cuh", ".inc")):
                    continue
                p = os.path.join(dp, f)
                h.update(os.path.relpath(p, root).encode())
                try:
                    with open(p, "rb") as fh:
                        h.update(hashlib.sha256(fh.read()).digest())
                except OSError:
                    h.update(b"?")
    # drivers and canaries are part of the analysed input as well
    for d in ("drivers", "canaries"):
        for p in sorted(glob.glob(os.path.join(VERIF, d, "*"))):
            h.update(p.encode())
            with open(p, "rb") as fh:
                h.update(hashlib.sha256(fh.read()).digest())
    return h.hexdigest()


def config_inc(root):
    """directory holding galois/config.h (verbatim copy of config.h.in)"""
    src = os.path.join(root, "libgalois/include/galois/config.h.in")
    data = open(src, "rb").read()
    d = os.path.join(CACHE, "inc-" + hashlib.sha256(data).hexdigest()[:12])
    tgt = os.path.join(d, "galois", "config.h")
    if not os.path.exists(tgt):
        os.makedirs(os.path.dirname(tgt), exist_ok=True)
        tmp = tgt + ".%d" % os.getpid()
        with open(tmp, "wb") as fh:
            fh.write(data)
        os.replace(tmp, tgt)
    return d


def base_flags(root, dist=False, ndebug=True):
    fl = ["-std=gnu++17",
          "-I" + os.path.join(root, "libgalois/include"),
          "-I" + config_inc(root),
          "-I" + os.path.join(root, "libsupport/include"),
          "-I" + os.path.join(VERIF, "drivers"),
          "-isystem", "/usr/lib/llvm-14/include",
          "-isystem", "/root/miniconda/include",
          "-DGALOIS_USE_NUMA", "-DGALOIS_USE_SCHED_SETAFFINITY",
          "-Wno-everything", "-ferror-limit=0",
          "-resource-dir", resource_dir()]
    fl.append("-DNDEBUG" if ndebug else "-UNDEBUG")
    if dist:
        fl += ["-I" + os.path.join(root, "libdist/include"),
               "-I" + os.path.join(root, "libgluon/include"),
               "-I" + os.path.join(root, "libcusp/include"),
               "-I" + os.path.join(root, "lonestar/libdistbench/include"),
               "-I" + os.path.join(root, "lonestar/liblonestar/include"),
               "-DGALOIS_ENABLE_DIST=1"] + mpi_flags()
    return fl


_fh_memo = {}


def file_hash(p):
    h = _fh_memo.get(p)
    if h is None:
        try:
            with open(p, "rb") as fh:
                h = hashlib.sha256(fh.read()).hexdigest()
        except OSError:
            h = "missing"
        _fh_memo[p] = h
    return h


def _manifest_lookup(mpath):
    """direct-mode cache: an earlier output is valid iff every file that parse
    read (recorded in the manifest) still has the same content"""
    if not os.path.exists(mpath):
        return None
    try:
        entries = json.load(open(mpath))
    except Exception:
        return None
    for ent in reversed(entries):
        if not os.path.exists(ent["out"]):
            continue
        if all(file_hash(p) == h for p, h in ent["deps"].items()):
            try:
                os.utime(ent["out"])
            except OSError:
                pass
            return ent["out"]
    return None


def _extract_one(job):
    unit, flags, files_re, mpath, patterns = job
    hit = _manifest_lookup(mpath)
    if hit:
        try:
            os.utime(hit)           # least-recently-used pruning goes by mtime
        except OSError:
            pass
        return unit, hit, 0.0, "", True
    t0 = time.time()
    out = mpath[:-5] + "-%s.facts" % hashlib.sha256(
        ("%s %s" % (time.time(), os.getpid())).encode()).hexdigest()[:10]
    tmp = out + ".tmp"
    cmd = [TOOL, "-o", tmp, "--files", files_re]
    if patterns:
        cmd.append("--patterns")
    cmd += [unit, "--"] + flags
    p = subprocess.run(cmd, stdout=subprocess.PIPE, stderr=subprocess.PIPE,
                       text=True)
    err = p.stderr[-2000:]
    ok = os.path.exists(tmp) and os.path.getsize(tmp) > 0
    if not ok:
        return unit, None, time.time() - t0, err, False
    try:
        d = json.load(open(tmp))
        deps = {q: file_hash(q) for q in d.get("deps", [])}
        deps[unit] = file_hash(unit)
    except Exception as e:
        return unit, None, time.time() - t0, "bad output: %s" % e, False
    os.replace(tmp, out)
    entries = []
    if os.path.exists(mpath):
        try:
            entries = json.load(open(mpath))
        except Exception:
            entries = []
    entries = [e for e in entries if os.path.exists(e["out"])][-5:]
    entries.append({"deps": deps, "out": out})
    with open(mpath + ".tmp", "w") as fh:
        json.dump(entries, fh)
    os.replace(mpath + ".tmp", mpath)
    return unit, out, time.time() - t0, err, False


class Facts:
    def __init__(self):
        self.functions = []      # list of dict
        self.by_key = {}
        self.by_qn = {}
        self.records = []
        self.static_asserts = []
        self.enums = {}
        self.units = []          # (unit, ok, seconds)
        self.failed_units = []
        self.parse_errors = {}

    def add_file(self, unit, path):
        with open(path) as fh:
            d = json.load(fh)
        if d.get("errors"):
            self.parse_errors[unit] = d["errors"]
        for f in d["functions"]:
            k = f["key"]
            if k in self.by_key:
                continue
            f["unit"] = unit
            self.by_key[k] = f
            self.functions.append(f)
            self.by_qn.setdefault(f["qn"], []).append(f)
        seen = getattr(self, "_seen_rec", set())
        for r in d["records"]:
            if r["key"] in seen:
                continue
            seen.add(r["key"])
            self.records.append(r)
        self._seen_rec = seen
        seen = getattr(self, "_seen_sa", set())
        for s in d["static_asserts"]:
            k = (s["file"], s["line"], s["text"])
            if k in seen:
                continue
            seen.add(k)
            self.static_asserts.append(s)
        self._seen_sa = seen
        for e in d.get("enums", []):
            self.enums.setdefault(e["qn"], e)

    def callee(self, e):
        """the function a call event resolves to (by the callee key and parameter signature the extractor records), or None"""
        fk = e.get("fk")
        if not fk:
            return None
        for k in (fk, "%s(%s)" % (fk, e.get("fs", "")), "%s(%s) const" % (fk, e.get("fs", ""))):
            g = self.by_key.get(k)
            if g is not None:
                return g
        return None

    # ------------------------------------------------------------ queries
    def fns(self, qn=None, cls=None, name=None, kind=None, pred=None):
        out = []
        for f in self.functions:
            if qn is not None and f["qn"] != qn:
                continue
            if cls is not None and f.get("cls") != cls:
                continue
            if name is not None and f["name"] != name:
                continue
            if kind is not None and f["kind"] != kind:
                continue
            if pred is not None and not pred(f):
                continue
            out.append(f)
        return out

    def record(self, qn, prefer="concrete"):
        best = None
        for r in self.records:
            if r["qn"] == qn:
                if r["kind"] == prefer:
                    return r
                best = best or r
        return best

    def records_qn(self, qn):
        return [r for r in self.records if r["qn"] == qn]


def extract(units, root="/repo", files_re=None, dist=False, ndebug=True,
            patterns=False, jobs=16, extra_flags=None, tag=""):
    """units: list of absolute paths. Returns Facts."""
    os.makedirs(CACHE, exist_ok=True)
    if files_re is None:
        files_re = "^(%s|%s)/" % (root.rstrip("/"),
                                  os.path.join(VERIF, "(drivers|canaries)"))
    toolh = file_hash(TOOL)
    flags = base_flags(root, dist=dist, ndebug=ndebug) + (extra_flags or [])
    jobsl = []
    for u in units:
        key = hashlib.sha256(
            ("\0".join([toolh, u, " ".join(flags), files_re,
                        "P" if patterns else ""]).encode())).hexdigest()[:24]
        mpath = os.path.join(CACHE, "m-%s.json" % key)
        jobsl.append((u, flags, files_re, mpath, patterns))
    facts = Facts()
    lockf = open(os.path.join(CACHE, "lock"), "w")
    fcntl.flock(lockf, fcntl.LOCK_EX)
    try:
        with ThreadPoolExecutor(max_workers=jobs) as ex:
            results = list(ex.map(_extract_one, jobsl))
    finally:
        fcntl.flock(lockf, fcntl.LOCK_UN)
        lockf.close()
    for unit, out, secs, err, cached in results:
        if out is None:
            facts.failed_units.append((unit, err))
            facts.units.append((unit, False, secs))
            continue
        facts.units.append((unit, True, secs))
        facts.add_file(unit, out)
    return facts


def prune_cache(max_bytes=int(os.environ.get("GSA_CACHE_MAX_GB", "32")) << 30):
    """keep the cache bounded: when it exceeds max_bytes drop the least recently used fact files (self-test scratch roots
    leave one copy of every unit per root and mutant) until it is at 3/4 of the limit"""
    try:
        files = glob.glob(os.path.join(CACHE, "*.facts"))
        sizes = {p: os.path.getsize(p) for p in files}
        total = sum(sizes.values())
        if total < max_bytes:
            return
        for p in sorted(files, key=os.path.getmtime):
            if total <= max_bytes * 3 // 4:
                break
            total -= sizes[p]
            os.unlink(p)
    except OSError:
        pass
