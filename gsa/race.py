"""RACE family: owner-computes-or-atomic for bodies run by do_all / on_each.

For a parallel body with loop element p (do_all) or (tid, total) (on_each):
every write to storage that is not local to the body must be
  OWNER    indexed by p itself (or a pure local copy / cast of p),
  CSR      indexed by a cursor that runs over the CSR owner range
           [A[p-1] (or 0 when p == 0), A[p]) of a prefix array A,
  CLAIMED  indexed by the result of an atomic fetch-and-add (slot claimed),
  ATOMIC   an atomic builtin / std::atomic RMW,
  THREAD   indexed by the thread id / per-thread storage / a reducible,
  LOCAL    to an object declared inside the body.
Anything else (in particular an index loaded from shared data) is a violation.
A read X[f(p)], f != id, of an array written at X[p] in the same body is a
violation as well.
"""
import re

from .cfg import Fn, S, walk

ATOMIC_BUILTIN = re.compile(r"^__sync_|^__atomic_")
CLAIM = re.compile(r"__sync_fetch_and_add|__atomic_fetch_add|fetch_add")
REDUCIBLE = ("galois::GAccumulator", "galois::GReduceMax", "galois::GReduceMin", "galois::Reducible",
             "galois::GReduceLogicalOr", "galois::GReduceLogicalAnd", "galois::DGAccumulator")


def strip(t):
    while isinstance(t, dict) and t.get("k") in ("cast", "defarg"):
        t = t.get("e")
    return t


class Body:
    def __init__(self, f, elem_params):
        self.f = f
        self.fn = Fn(f)
        self.params = [p["n"] for p in f["params"]]
        self.elem = set(elem_params)          # names that denote the loop element / thread id
        self.locals = {}                      # name -> list of init trees
        self.assigned = {}                    # name -> list of rhs trees
        for _, e in self.fn.events():
            if e["k"] == "decl":
                self.locals.setdefault(e["n"], [])
                if "init" in e:
                    self.locals[e["n"]].append(e["init"])
            elif e["k"] == "assign":
                t = strip(e.get("lhs"))
                if isinstance(t, dict) and t.get("k") == "ref" and t.get("vk") in ("local", "param"):
                    self.assigned.setdefault(t["n"], []).append((e.get("op"), e.get("rhs")))
        self.branch_conds = [S(self.fn.branch(b)[0]) for b in self.fn.blocks if self.fn.branch(b)]

    def is_local(self, name):
        return name in self.locals

    # ---- index classification
    def classify(self, t, depth=0):
        t = strip(t)
        if not isinstance(t, dict) or depth > 6:
            return "OTHER"
        k = t.get("k")
        if k == "ref":
            n = t["n"]
            if n in self.elem:
                return "OWNER"
            if n in self.locals:
                inits = self.locals[n]
                asg = self.assigned.get(n, [])
                # claimed slot
                if inits and all(CLAIM.search(S(i)) for i in inits) and not [a for a in asg if a[0] == "="]:
                    return "CLAIMED"
                # pure copy of the element
                if inits and all(self.classify(i, depth + 1) == "OWNER" for i in inits) and not asg:
                    return "OWNER"
                if self.csr_cursor(n):
                    return "CSR"
            return "OTHER"
        if k == "un" and t.get("op") == "*":
            # dereferenced iterator of the thread's own partition
            return self.iter_class(t.get("e"), depth)
        if k == "call" and t.get("op") == "*" and t.get("recv") is not None and not t.get("a"):
            return self.iter_class(t["recv"], depth)
        if k in ("int",):
            return "CONST"
        return "OTHER"

    def iter_class(self, t, depth):
        t = strip(t)
        if isinstance(t, dict) and t.get("k") == "ref" and t["n"] in self.locals:
            inits = self.locals[t["n"]]
            txt = " ".join(S(i) for i in inits)
            # iterators obtained from the per-thread division of the node range, or edges of such a node
            if re.search(r"\br\.first\b|divideByNode|divideByEdge|local_begin|edge_begin\(\*|raw_begin\(\*|\.first$", txt):
                return "OWNER"
            for i in inits:
                c = self.classify(i, depth + 1)
                if c == "OWNER":
                    return "OWNER"
                # edges of a node this iteration owns: edge_begin(n) with n the loop element or a pure copy of it
                ii = strip(i)
                if depth < 6 and isinstance(ii, dict) and ii.get("k") == "call" and ii.get("name") in ("edge_begin", "raw_begin") \
                        and ii.get("a") and self.classify(ii["a"][0], depth + 1) == "OWNER":
                    return "OWNER"
        return "OTHER"

    def csr_cursor(self, n):
        """local n starts at A[p-1] (or 0 when p == 0) and is bounded by A[p]"""
        inits = [S(i) for i in self.locals.get(n, [])]
        if not inits:
            return False
        pat = None
        for p in self.elem:
            for i in inits:
                m = re.search(r"([\w>\-\.]+)\[\(%s - 1\)\]" % re.escape(p), i)
                if m:
                    pat = (m.group(1), p)
        if not pat:
            return False
        arr, p = pat
        bound = "(%s < %s[%s])" % (n, arr, p)
        return any(bound in c for c in self.branch_conds)


def indexed_target(t):
    """(container tree, index tree) of an lvalue X[i] / X.at(i); (tree, None) for a plain object"""
    t = strip(t)
    if not isinstance(t, dict):
        return None, None
    if t.get("k") == "idx":
        return t.get("b"), t.get("i")
    if t.get("k") == "call" and t.get("op") == "[]" and t.get("recv") is not None:
        a = t.get("a", [])
        return t["recv"], (a[0] if a else None)
    if t.get("k") == "call" and t.get("name") in ("at",) and t.get("recv") is not None:
        a = t.get("a", [])
        return t["recv"], (a[0] if a else None)
    if t.get("k") == "mem":
        # field of an indexed element: X[i].f
        c, i = indexed_target(t.get("b"))
        if i is not None:
            return c, i
    if t.get("k") == "un" and t.get("op") == "*":
        return t.get("e"), "DEREF"
    return t, None


def root_name(t):
    t = strip(t)
    while isinstance(t, dict):
        k = t.get("k")
        if k == "ref":
            return t["n"], t
        if k == "mem":
            b = strip(t.get("b"))
            if isinstance(b, dict) and b.get("k") == "this":
                return "this->" + t["n"], t
            t = b
            continue
        if k in ("idx",):
            t = t.get("b")
            continue
        if k == "call" and t.get("recv") is not None:
            t = t["recv"]
            continue
        if k == "un":
            t = t.get("e")
            continue
        break
    return None, t


# helpers that write arg[dst_index] : name -> (container arg position, index arg position)
WRITE_HELPERS = {"edgeDataCopy": (0, 2)}
# member calls on shared containers that write the element named by their first argument
ELEMENT_WRITERS = {"constructAt", "outOfLineConstructAt", "set", "destroyAt", "setLocalRange", "sortEdgesByDst",
                   "sortInEdgesByDst", "setEdgeSortedByDst", "constructEdge", "setEdgeSrc"}


def analyse(f, elem_params, allow=lambda site: None):
    """returns (writes, problems): writes = list of (loc, target, class); problems = list of strings"""
    b = Body(f, elem_params)
    fn = b.fn
    writes, problems = [], []
    written_arrays = {}
    for pos, e in fn.events():
        k = e["k"]
        targets = []
        if k == "assign":
            targets.append(("assign", e.get("lhs")))
        elif k == "call" and e.get("op") in ("=", "+=", "-=", "|=", "&=", "++", "--") and e.get("recv") is not None:
            rt = (e["recv"].get("t") or {}).get("rec", "") if isinstance(e["recv"], dict) else ""
            if e.get("cls") in REDUCIBLE or any((e.get("cls") or "").startswith(r) for r in REDUCIBLE):
                writes.append((fn.loc(pos), S(e["recv"]), "THREAD"))
                continue
            targets.append(("assign", e["recv"]))
        elif k == "call" and e.get("name") == "copy" and len(e.get("a", [])) == 3:
            d = strip(e["a"][2])
            ds = S(d)
            ok = False
            for p in b.elem:
                if re.fullmatch(r"\([\w>\-\.]+\.begin\(\) \+ [\w>\-\.]+\[\(%s - 1\)\]\)" % re.escape(p), ds):
                    ok = True
            if re.fullmatch(r"[\w>\-\.]+\.begin\(\)", ds):
                # copying to the very beginning is only the owner's job when the element is 0
                ok = any(("(%s == 0)" % p) in c or c == p for p in b.elem for c in b.branch_conds)
            writes.append((fn.loc(pos), ds, "CSR" if ok else "OTHER"))
            if not ok:
                problems.append("std::copy destination %s is not the owner's CSR range (%s)" % (ds, fn.loc(pos)))
            continue
        elif k == "call" and e.get("name") in WRITE_HELPERS:
            ci, ii = WRITE_HELPERS[e["name"]]
            a = e.get("a", [])
            if len(a) > max(ci, ii):
                cls = b.classify(a[ii])
                writes.append((fn.loc(pos), "%s[%s]" % (S(a[ci]), S(a[ii])), cls))
                written_arrays.setdefault(S(a[ci]), set()).add(S(a[ii]))
                if cls in ("OTHER", "CONST"):
                    problems.append("%s writes %s[%s]: index is neither the loop element, a claimed slot nor the owner's CSR "
                                    "range (%s)" % (e["name"], S(a[ci]), S(a[ii]), fn.loc(pos)))
            continue
        elif k == "call" and e.get("name") in ELEMENT_WRITERS:
            a = e.get("a", [])
            if a:
                cls = b.classify(a[0])
                if cls == "OTHER" and e.get("name") == "setLocalRange":
                    cls = "THREAD"
                writes.append((fn.loc(pos), "%s(%s)" % (e["name"], S(a[0])), cls))
                if cls in ("OTHER",):
                    problems.append("%s(%s): element is not the loop element (%s)" % (e["name"], S(a[0]), fn.loc(pos)))
            continue
        elif k == "call" and ATOMIC_BUILTIN.search(e.get("name") or ""):
            writes.append((fn.loc(pos), S(e.get("a", [None])[0]), "ATOMIC"))
            continue
        elif k == "atomic" and e["kind"] in ("rmw", "cas"):
            writes.append((fn.loc(pos), e["p"], "ATOMIC"))
            continue
        elif k == "atomic" and e["kind"] == "store":
            # an atomic store is not a data race, but a store to an element another iteration may update loses that update:
            # it must be owner-indexed like a plain write
            cont, idx = indexed_target(e.get("obj"))
            cls = b.classify(idx) if idx not in (None, "DEREF") else "OTHER"
            rn, rt = root_name(cont if cont is not None else e.get("obj"))
            if rn is not None and b.is_local(rn) and not (isinstance(rt, dict) and (rt.get("t") or {}).get("ref")):
                continue
            if "getLocal()" in e["p"]:
                cls = "THREAD"
            writes.append((fn.loc(pos), e["p"], cls if cls not in ("OTHER", "CONST") else "OTHER"))
            if idx is not None and idx != "DEREF":
                written_arrays.setdefault(S(cont), set()).add(S(idx))
            if cls in ("OTHER", "CONST"):
                problems.append("atomic store to %s is not owner-indexed: concurrent updates of that element are lost (%s)" % (
                    e["p"], fn.loc(pos)))
            continue
        for kind, t in targets:
            cont, idx = indexed_target(t)
            rn, rt = root_name(cont if cont is not None else t)
            if rn is None:
                continue
            # a write through a reference local bound once to an element (`auto& x = a[i].get(); x.f = ..`) is a write to
            # that element
            if idx is None and b.is_local(rn) and isinstance(rt, dict) and (rt.get("t") or {}).get("ref") and \
                    len(b.locals.get(rn, [])) == 1 and not b.assigned.get(rn):
                init = strip(b.locals[rn][0])
                while isinstance(init, dict) and init.get("k") == "call" and init.get("name") == "get" and init.get("recv") is not None \
                        and not init.get("a"):
                    init = strip(init["recv"])
                c2, i2 = indexed_target(init)
                if i2 is not None:
                    t = init
                    cont, idx = c2, i2
                    rn, rt = root_name(cont)
                    if rn is None:
                        continue
            if b.is_local(rn) and not (isinstance(rt, dict) and (rt.get("t") or {}).get("ref")):
                continue        # body-local object
            if rn in b.params and rn not in b.elem:
                pass
            if idx is None:
                # plain shared scalar / object
                if rn in b.params:
                    continue    # by-value parameter copy
                cls = "OTHER"
                ts = S(t)
                if "getLocal()" in ts:
                    cls = "THREAD"
                writes.append((fn.loc(pos), ts, cls))
                if cls == "OTHER":
                    problems.append("plain write to shared object %s (%s)" % (ts, fn.loc(pos)))
                continue
            if idx == "DEREF":
                cls = b.iter_class(cont, 0)
                ts = S(t)
                if "getLocal()" in ts:
                    cls = "THREAD"
                writes.append((fn.loc(pos), ts, cls))
                if cls == "OTHER":
                    problems.append("write through %s is not owner-indexed (%s)" % (ts, fn.loc(pos)))
                continue
            cls = b.classify(idx)
            cs = S(cont)
            if "getLocal()" in cs:
                cls = "THREAD"
            writes.append((fn.loc(pos), "%s[%s]" % (cs, S(idx)), cls))
            written_arrays.setdefault(cs, set()).add(S(idx))
            if cls in ("OTHER", "CONST"):
                problems.append("plain write %s[%s]: the index is neither the loop element, a claimed slot nor the owner's CSR "
                                "range (%s)" % (cs, S(idx), fn.loc(pos)))
    # read of X[f(p)] where X[p] is written in the same body
    for pos, e in fn.events(lambda e: e["k"] == "read"):
        cont, idx = indexed_target(e.get("e"))
        if idx is None or idx == "DEREF":
            continue
        cs = S(cont)
        if cs in written_arrays:
            s = S(idx)
            if s not in written_arrays[cs] and b.classify(idx) != "OWNER":
                if any(p in s for p in b.elem) or b.classify(idx) == "OTHER":
                    problems.append("read of %s[%s] while other iterations write %s[%s] (%s)" % (
                        cs, s, cs, sorted(written_arrays[cs])[0], fn.loc(pos)))
    return writes, problems
