"""Obligation bookkeeping, known findings, evidence, exit codes."""
import glob
import hashlib
import json
import os
import sys
import time

from . import facts as F
from . import alpha
from .cfg import Fn

VERIF = F.VERIF


class Broken(Exception):
    pass


def unit_groups(root, tier):
    g = {}
    src = sorted(glob.glob(os.path.join(root, "libgalois/src/*.cpp")))
    src = [p for p in src if not p.endswith("HWTopoDarwin.cpp")]
    tests = sorted(glob.glob(os.path.join(root, "libgalois/test/*.cpp")))
    # lockmgr.cpp is not part of the build (no add_test_unit) and does not parse
    tests = [p for p in tests if not p.endswith("/lockmgr.cpp")]
    g["src"] = src
    g["tests"] = tests
    for p in sorted(glob.glob(os.path.join(VERIF, "drivers/*.cpp"))):
        b = os.path.basename(p)[:-4]          # core_foreach_a -> drv_foreach
        parts = b.split("_")
        name = "drv_" + (parts[1] if parts[0] == "core" else "dist" + parts[1])
        g.setdefault(name, []).append(p)
    g["wlcompile"] = [p for p in tests if p.endswith("/worklists-compile.cpp")]
    g["pthreadbarrier"] = [p for p in src if p.endswith("/Barrier_Pthread.cpp")]
    g["core"] = src + tests + [p for k, v in sorted(g.items()) if k.startswith("drv_")
                               for p in v if os.path.basename(p).startswith("core_")]
    g["dist"] = (sorted(glob.glob(os.path.join(root, "libdist/src/*.cpp"))) +
                 sorted(glob.glob(os.path.join(root, "libgluon/src/*.cpp"))))
    g["tools"] = (sorted(glob.glob(os.path.join(root, "tools/graph-convert/*.cpp"))) +
                  sorted(glob.glob(os.path.join(root, "tools/graph-remap/*.cpp"))) +
                  sorted(glob.glob(os.path.join(root, "tools/graph-stats/*.cpp"))))
    for p in g["tools"]:
        # one group per tool as well: every tool has its own main() and file-local helpers with identical keys
        g["tool_" + os.path.basename(p)[:-4]] = [p]
    g["disttools"] = sorted(glob.glob(os.path.join(root, "tools/dist-graph-convert/*.cpp")))
    g["distapps"] = sorted(glob.glob(os.path.join(
        root, "lonestar/analytics/distributed/*/*.cpp")))
    g["distapps"] = [p for p in g["distapps"] if "/gpu/" not in p and not p.endswith("_cuda.cpp")]
    g["canaries"] = sorted(glob.glob(os.path.join(VERIF, "canaries/*.cpp")))
    g["apps"] = sorted(glob.glob(os.path.join(root, "lonestar/*/cpu/*/*.cpp")) +
                       glob.glob(os.path.join(root, "lonestar/tutorial_examples/*.cpp")))
    return g


DIST_GROUPS = {"dist", "disttools", "distapps"}


def files_regex(root, extra=None):
    r = root.rstrip("/")
    return ("^(%s/(lib[a-z]+/(include|src)|tools|lonestar/(libdistbench|liblonestar)%s)/|%s/(drivers|canaries)/)"
            % (r, ("|" + extra) if extra else "", VERIF))


class Ctx:
    def __init__(self, prop, tier="quick", root="/repo", seed=0):
        self.prop = prop
        self.tier = tier
        self.root = root.rstrip("/")
        self.seed = seed
        self.t0 = time.time()
        self.obligs = []          # dicts
        self.broken_msgs = []
        self.notes = []
        self.floors = []
        self.facts = {}           # group -> Facts
        self.units_parsed = 0
        self.units_failed = []
        self.parse_errors = {}
        self.canaries = []
        self.explanation = ""
        self.rules_text = {}
        self.assumptions = []
        self.trusted = ["clang 14 front end and CFG builder",
                        "gsa-extract fact extractor",
                        "rule tables in /verif/props (read and frozen by hand)"]
        self._fnwrap = {}

    # -------------------------------------------------------------- facts
    def load(self, *groups, patterns=False, ndebug=True, dist=None, extra_flags=None, files_extra=None):
        """facts of one or more unit groups (merged). In the thorough tier the
        whole `core` group is always included with the shared-memory groups."""
        if self.tier == "thorough" and any(
                g in ("src", "tests") or g.startswith("drv_") for g in groups) and not any(
                g in DIST_GROUPS or g.startswith("drv_dist") for g in groups):
            groups = tuple(dict.fromkeys(("core",) + groups))
        k = (groups, patterns, ndebug, tuple(extra_flags or ()), files_extra)
        if k in self.facts:
            return self.facts[k]
        allg = unit_groups(self.root, self.tier)
        units = []
        for g in groups:
            if g not in allg or not allg[g]:
                raise Broken("unit group %s is empty under %s" % (g, self.root))
            for u in allg[g]:
                if u not in units:
                    units.append(u)
        if dist is None:
            dist = any(g in DIST_GROUPS or g.startswith("drv_dist") for g in groups)
        fx = F.extract(units, root=self.root, files_re=files_regex(self.root, files_extra),
                       dist=dist, ndebug=ndebug, patterns=patterns, extra_flags=extra_flags)
        self.units_parsed += sum(1 for u in fx.units if u[1])
        for u, err in fx.failed_units:
            self.units_failed.append(u)
            self.broken_msgs.append("extractor failed on %s: %s" % (u, err[-400:]))
        for u, n in fx.parse_errors.items():
            # a unit with parse errors is only partially analysed
            self.notes.append("unit %s had %d parse errors" % (u, n))
        self.parse_errors.update(fx.parse_errors)
        # locals renamed on the analysed tree are renamed back to the names the rules were written against (gsa/alpha.py)
        alpha.normalise(fx, self.root, self.notes)
        self.facts[k] = fx
        return fx

    def fn(self, f):
        k = id(f)
        w = self._fnwrap.get(k)
        if w is None:
            w = Fn(f)
            self._fnwrap[k] = w
        return w

    # -------------------------------------------------------- obligations
    def rule(self, rid, text):
        self.rules_text[rid] = text

    def ob(self, rule, site, ok, detail="", loc="", symbol="", nontrivial=True, fnkey=""):
        """record one obligation. site: function qualified name (no targs, no
        line) – part of the identity used for known findings."""
        self.obligs.append({"rule": rule, "site": site, "ok": bool(ok),
                            "detail": detail, "loc": loc, "symbol": symbol,
                            "nontrivial": nontrivial, "fn": fnkey})
        return bool(ok)

    def broken(self, msg):
        self.broken_msgs.append(msg)

    def floor(self, what, n, minimum):
        self.floors.append((what, n, minimum))
        if n < minimum:
            self.broken_msgs.append(
                "floor: %s matched %d instance(s), expected at least %d "
                "(anchor vanished or renamed?)" % (what, n, minimum))

    def canary(self, name, fired, expect):
        self.canaries.append({"name": name, "fired": bool(fired), "expect": bool(expect)})
        if bool(fired) != bool(expect):
            self.broken_msgs.append(
                "canary %s: %s" % (name, "did not fire" if expect else "clean idiom flagged"))

    def note(self, s):
        self.notes.append(s)

    # ------------------------------------------------------------ finish
    def finish(self):
        kf_path = os.path.join(VERIF, "known_findings.json")
        known = []
        if os.path.exists(kf_path):
            known = json.load(open(kf_path)).get("findings", [])
        viol = [o for o in self.obligs if not o["ok"]]
        new_viol, known_hit = [], []
        for o in viol:
            m = None
            for k in known:
                if k.get("status") != "known":
                    continue
                if k["property"] != self.prop:
                    continue
                if k["rule"] != o["rule"] or k["site"] != o["site"]:
                    continue
                if k.get("symbol", "") != o.get("symbol", ""):
                    continue
                m = k
                break
            if m is not None:
                known_hit.append((o, m))
            else:
                new_viol.append(o)
        # distinct known-finding lines
        printed = set()
        for o, k in known_hit:
            line = "KNOWN-FINDING: property=%s %s [%s %s %s]" % (
                self.prop, k["what"], k["id"], o["rule"], o["site"])
            if line not in printed:
                printed.add(line)
                print(line)
        wall = time.time() - self.t0
        code = 0
        replay_paths = []
        if self.broken_msgs:
            code = 2
            for m in self.broken_msgs:
                print("ANALYSIS-BROKEN property=%s %s" % (self.prop, m))
        if new_viol:
            code = 1   # a located violation outranks a coverage shortfall
            os.makedirs(os.path.join(VERIF, "out", "replay"), exist_ok=True)
            seen = set()
            for o in new_viol:
                ident = "%s|%s|%s" % (o["rule"], o["site"], o["symbol"])
                if ident in seen:
                    continue
                seen.add(ident)
                h = hashlib.sha256(ident.encode()).hexdigest()[:10]
                p = os.path.join(VERIF, "out", "replay", "%s-%s.json" % (self.prop, h))
                with open(p, "w") as fh:
                    json.dump({"property": self.prop, "rule": o["rule"],
                               "rule_text": self.rules_text.get(o["rule"], ""),
                               "site": o["site"], "function": o["fn"], "symbol": o["symbol"],
                               "loc": o["loc"], "detail": o["detail"], "root": self.root,
                               "tier": self.tier}, fh, indent=1)
                replay_paths.append(p)
                print("  %s %s at %s: %s" % (o["rule"], o["site"], o["loc"], o["detail"]))
                print("VIOLATION property=%s replay=%s" % (self.prop, p))
        self.write_evidence(wall, new_viol, known_hit)
        n = len(self.obligs)
        print("%s: %d obligations, %d discharged, %d known finding(s), %d violation(s), "
              "%d units parsed, %.1fs [%s]" % (
                  self.prop, n, n - len(viol), len(known_hit), len(new_viol),
                  self.units_parsed, wall, self.tier))
        return code

    def write_evidence(self, wall, new_viol, known_hit):
        n = len(self.obligs)
        distinct = set()
        for o in self.obligs:
            if o["nontrivial"]:
                distinct.add((o["rule"], o["fn"] or o["site"], o["symbol"]))
        samples = []
        per_rule = {}
        for o in self.obligs:
            per_rule.setdefault(o["rule"], []).append(o)
        for r, lst in sorted(per_rule.items()):
            for o in lst[:2]:
                samples.append({"rule": r, "site": o["site"], "function": o["fn"][:300],
                                "loc": o["loc"], "verdict": "holds" if o["ok"] else "VIOLATED",
                                "detail": o["detail"][:300], "symbol": o["symbol"]})
        rules = {r: {"text": self.rules_text.get(r, ""), "obligations": len(l),
                     "violated": sum(1 for o in l if not o["ok"])}
                 for r, l in sorted(per_rule.items())}
        ev = {
            "property_id": self.prop,
            "tier": self.tier,
            "seed": self.seed,
            "level": "other",
            "coverage": {
                "explanation": self.explanation,
                "obligations": n,
                "discharged": sum(1 for o in self.obligs if o["ok"]),
                "evaluations": n,
                "distinct_nontrivial": len(distinct),
                "rule": "one evaluation = one rule instance applied to one function "
                        "instantiation / site of the current tree; non-trivial = the "
                        "rule matched at least one event or branch in that function "
                        "(counted as distinct (rule, function instance, symbol) triples)",
                "samples": samples[:40],
                "rules": rules,
                "units_parsed": self.units_parsed,
                "units_failed": self.units_failed,
                "floors": [{"what": w, "matched": k, "minimum": m} for w, k, m in self.floors],
                "canaries": self.canaries,
                "selftest": str(getattr(self, "selftest", None) or "not run in this tier (thorough runs it)"),
                "known_findings_hit": sorted({k["id"] for _, k in known_hit}),
                "notes": self.notes[:50],
                "files": sorted({(o.get("loc") or "").rsplit(":", 1)[0][len(self.root) + 1:] for o in self.obligs
                                 if (o.get("loc") or "").startswith(self.root + "/")}),
                "trusted_base": self.trusted,
                "checker_cmd": "./check %s --tier %s" % (self.prop, self.tier),
                "exhaustive": True,
                "root": self.root,
                "analysis_broken": self.broken_msgs[:20],
            },
            "assumptions": self.assumptions,
            "wall_s": round(wall, 2),
            "violations": len({(o["rule"], o["site"], o["symbol"]) for o in new_viol}),
        }
        if self.root != "/repo" and not os.environ.get("GSA_EVIDENCE_ANYROOT"):
            return  # evidence only describes runs against /repo itself
        os.makedirs(os.path.join(VERIF, "evidence"), exist_ok=True)
        p = os.path.join(VERIF, "evidence", "%s.json" % self.prop)
        tmp = p + ".tmp"
        with open(tmp, "w") as fh:
            json.dump(ev, fh, indent=1)
        os.replace(tmp, p)
