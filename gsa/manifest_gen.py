"""regenerate MANIFEST.json from the table below (python3 -m gsa.manifest_gen)"""
import json
import os

VERIF = os.path.dirname(os.path.dirname(os.path.abspath(__file__)))

LEVEL_NOTE = ("Trusted base: clang 14 front end and CFG builder, the gsa-extract fact extractor, the rule "
              "tables under /verif/props (instances read and frozen by hand), canaries per rule family. "
              "Assumes the shipped configuration (GALOIS_USE_LONGJMP_ABORT, NDEBUG).")

CHECKS = {
    "C18": ("narrow: exhaustive evaluation, on every GluonSubstrate instantiation of the distributed applications, of the sync "
            "decision table (9 functions x 4 partition cells against the partition-invariant reference), the sync<w,r> dispatch, "
            "per-DataCommMode agreement of written and read message fields, index-source agreement between sender and receiver, "
            "extract/reset and apply/mark wrappers, subset index expressions, bitset reset ranges, send-before-receive, and the "
            "operation of each expanded sync structure. Proxy values after a sync on real partitions are not decided.",
            "decision-table evaluation over CFG paths under constant environments, sibling and ordering rules over clang AST/CFG "
            "facts", "4 C18"),
    "C17": ("narrow: wire-trace equality of the write and the read side of every serialisable type family (raw runs with "
            "byte-count polynomials, user hooks, nested calls expanded recursively, loops), overload bijection, target overwrite "
            "and framing rules over Serialize.h; NetworkBuffered length-prefix width at all six sites, FIFO queue discipline, "
            "lock typestate, tag/phase agreement; HostFence send-flush-receive-bump order. Delivery exactly-once/in-order through "
            "MPI, alignment fast-path values and aggregation timing are not decided. Added: the receive queue's head-of-queue tag hint is re-published on every path that removes the head and set by add() only for an empty queue.",
            "sibling wire-grammar comparison, CFG ordering and lock typestate rules over clang AST/CFG facts; exit-reachable-without + guard-edge rules on the tag hint", "4 C17"),
    "C12": ("narrow: symbolic byte-offset interpretation of every .gr layout site (FileGraph fromMem/fromArrays/partFromFile/"
            "rawBlockSize, FileGraphWriter, OCFileGraph, OfflineGraph reader and writer, BufferedGraph, LC_CSR_Graph reader, "
            "dist-graph-convert) for both format versions and both parities of the edge count against the canonical layout; "
            "bytes-per-element vs buffer element type; version-word dispatch table; Endian.h mirror pairs under both byte "
            "orders. Decides the layout arithmetic and dispatch, not file contents: text parsers, transforming conversions and "
            "value-level round trips are not decided. Added: raw transfer loops advance buffer pointer and remaining count together; fromMem takes edge data as present exactly when the mapping can hold it (bound evaluated symbolically).",
            "abstract interpretation of byte offsets as polynomials (LAYOUT) over clang AST/CFG facts, plus dispatch-table, "
            "width and sibling rules; partial-transfer loop rule; symbolic bound of the presence test", "8 C12"),
    "C16": ("narrow: exhaustive evaluation of structural necessary conditions on every ParallelSTL instantiation of the driver: "
            "block-claiming state only under its lock, disjoint blocks from the two ends, the no-leftover test consistent with "
            "the constructor's sentinels, serial clean-up of the leftover span on every other path, worker re-claims exactly on "
            "exhaustion and reports leftovers; quick-sort helper shape (cut-off, same comparator, both non-empty sub-ranges "
            "pushed); reducer algorithms update inside the loop and return reduce(); find_if records before breaking and scans "
            "all slots. Equality with std:: for all inputs (value-level) is not decided.",
            "lock typestate, sentinel/sibling consistency and CFG ordering rules over clang AST facts", "4 C16"),
    "C15": ("narrow: exhaustive evaluation of structural necessary conditions on every instantiation found: merge functor paired "
            "with the matching identity and functors compute what they are named; -= negates; Reducible ctor/reset/reduce cover "
            "all slots with the right start index and re-arm after merging; atomic min/max/add/subtract are CAS loops with the "
            "right guard direction and new value; bitset set/reset are CAS loops on the right word and mask; union-find links by "
            "CAS in a fixed address direction; parallel bitset bodies owner-indexed; thread-safe queues touch their container "
            "under the lock; distributed reducers agree on the MPI datatype table and use SUM/MAX/MIN. Values (lost updates, "
            "bit-range masks, floating-point merge order) are not decided.",
            "finite fact tables (TABLE), CAS-loop shape, loop-coverage (ORD), RACE and LOCK rules over clang AST facts", "4 C15"),
    "C14": ("narrow: exhaustive evaluation of structural necessary conditions on every CFG path of the container "
            "instantiations of the driver matrix and on the uninstantiated template patterns: next/prev mirror assignments, "
            "first/last maintenance, construction/destruction paired one-to-one with the size counter, concurrent and "
            "sequential variants use the same slot, singly linked lists link before publishing and unlink under a check, "
            "non-void members return on all paths (patterns included), optional's flag paired with construct/destroy. "
            "Equivalence with the standard containers for all operation histories (value-level) is not decided. Added: InsertBag's first element slot lies behind the block header for every element size (one instantiation per size 1..40, byte offsets by symbolic interpretation).",
            "link-pairing (LINK), counter pairing, sibling-variant agreement, return-on-all-paths over clang AST facts; LAYOUT interpretation of newHeaderFromHeap per element size", "4 C14"),
    "C13": ("exhaustive evaluation of the shape obligations that make the disjoint-cover lemma (DESIGN.md C13) applicable, on "
            "every instantiation of the division routines found: ceil-div piece size; upper bound == lower bound with the part "
            "index advanced by one, both clamped by the same min(size); blockLower(id) == blockUpper(id-1); the two binary "
            "searches agree except for target and lower bound, the second starting at the first result; lower-bound search "
            "shape with monotone predicate; scale factors turned into a prefix sum; every stored boundary is an absolute node "
            "id (units of measure), empty parts copy the previous boundary. Overflow at the extremes and zero-weight corner "
            "cases inside the search are not decided. Added: SpecificRange::block_pair (per-thread block clipped to a sub-range) returns the intersection or an empty range on every total preorder of block and request.",
            "sibling expression identity under substitution (SIB), units-of-measure (KIND ABS/REL), search-shape rules over "
            "clang AST facts + paper lemma; abstract interpretation over a finite ordering domain (values only copied and compared)", "4 C13"),
    "C11": ("narrow: exhaustive classification of every non-local write in every body passed to do_all/on_each in the "
            "local-computation graph headers and FileGraph, and in every per-thread constructFrom builder, for the driver "
            "matrix: each is owner-indexed (loop element / own partition), owner CSR range of a prefix array, a slot claimed by "
            "atomic fetch-and-add, an atomic RMW, or per-thread; no neighbour read of an array written in the same body. "
            "Decides absence of these data races in the parallel builders for all inputs and schedules; does not decide that "
            "the built graph equals the input.",
            "owner-computes-or-atomic write classification (RACE) over clang AST facts", "4 C11"),
    "C10": ("exhaustive evaluation, on every CFG path of every morph-graph flavour x mutator instantiation of the driver matrix "
            "(three implementations), of: acquire of the same node dominates every touch of its edge vector / active flag, with "
            "the caller's flag; all acquisitions precede the first mutation; both endpoint entries inserted with the same "
            "mkEdge cell and the right in/out tags, removeEdge erases both; findEdge* re-validate the optimistic predicate "
            "after acquiring the neighbour; default flags WRITE (UNPROTECTED only for getEdgeData); node life cycle; the three "
            "implementations agree per method and flavour. Serialisability itself and sortedness values are not decided.",
            "CFG dominance / ordering / sibling-agreement rules over clang AST facts", "4 C10"),
    "C09": ("exhaustive evaluation, on every CFG path of the heap/allocator/storage instantiations found, of: align-up idiom, "
            "pointer computed before the bump, bump and capacity test with the same aligned value, refill skips the header "
            "and links before publishing, no use of a block pointer found null without a refill, partial allocation clamps "
            "to the re-read remaining space, free-list link order, allocate/deallocate sibling agreement on size class / "
            "threshold / header offset, count*sizeof at byte-allocator calls, lock discipline of shared heap state, "
            "double-checked singleton creation, moved-from objects disarmed, guarding static_asserts present. Disjointness "
            "of live blocks as a value property and the offset split arithmetic are not decided. Added: the per-thread offset allocator hands out the value fetch_add returned only after re-checking that very value against the capacity (check-then-act on an atomic).",
            "units-of-measure (KIND), link-order, sibling-agreement, lock typestate and null-contradiction rules over clang "
            "AST facts; guard-edge rule on the rmw result", "4 C09"),
    "C07": ("narrow: decides structural necessary conditions of determinism on every CFG path of every deterministic-executor "
            "instantiation of the driver matrix (branches on constant-returning disabled managers pruned): inspect and commit "
            "phases barrier-separated in both directions; round flags obey the barrier-interval rule; new work merged by "
            "thread 0 strictly between barriers; mark-conflict winner decided by item-id comparison only; new-item order "
            "reads only (parent, count); no pointer-order, clock/rand or thread-id dependence of ids; push buffer transferred "
            "only after a conflict-free run with 1,2,.. numbering; commit or re-queue exactly once with reset. Does not decide "
            "that merge/renumbering values are thread-count independent. Added: the holder handed to stealByCAS is one whose id was compared after it was (re)loaded, on every path.",
            "barrier-interval discipline (BAR), CFG guard/ordering rules, determinism taint scan over clang AST facts; reaches-without rule per reload", "4 C07"),
    "C08": ("exhaustive evaluation, on every CFG path (incl. loop back edges) of every BulkSynchronous and barrier-OBIM "
            "instantiation of the driver matrix, of: push targets the queue of round+1 and pop the queue of round; the "
            "round flip is bracketed by two barrier waits; thread 0's flag update lies strictly between them and every "
            "`some = true` is barrier-separated from its read; isEmpty read only after the second barrier; seed order; "
            "barrier-OBIM never calls slowPop in pop, does not retarget in push, and agrees on the next level in empty() "
            "(own state before the first wait, all remote reads between the waits over all threads with the comparator, "
            "retarget after the second); the executor re-arms and waits before the next level. Monotone-operator "
            "assumption and priority arithmetic are not decided. Added: OBIM replays the master log again once masterLock is held, before it looks up, creates or advances its version.",
            "barrier-interval discipline (BAR) + CFG ordering rules over clang AST facts; reaches-without rule from try_lock", "4 C08"),
    "C03": ("exhaustive evaluation, on every CFG path of every DoAllStealingExec instantiation of the driver matrix, of on_each "
            "and of the thread pool, of: shared range and size only under work_mutex (lock-assuming helpers called with it "
            "held); getWork/stealWork hand out a range, move the shared bound and update the size exactly on the success "
            "paths; transferWork assigns exactly what it stole iff it stole; work before steal, exit only when the steal "
            "failed; doWork applies the function once per position; cascade/decascade agree on midpoint, children and guard, "
            "child ranges tile the parent's, done cleared before the release signal and set last after the children; region "
            "body exactly once; on_each passes (tid, numT). Exactly-once under steal interleavings beyond the lock discipline "
            "is not decided. Added: the thread pool's rows of the memory-order table (the loads that see a child's done flag acquire, the stores release), followed into helpers the flag is handed to.",
            "lock typestate + CFG pairing / sibling-agreement rules over clang AST facts; MO role table incl. atomics passed to helpers", "4 C03"),
    "C04": ("exhaustive evaluation, on every CFG path of the ring and tree detectors and of every executor launch site, of: "
            "announcement guarded by token-held AND master AND previous-round-clean AND not-tainted; taint = token colour OR "
            "process colour read before clearing; reported work recorded before token handling; own flag cleared before "
            "forwarding, colour stored before flag, ring successor; globalTerm writers; re-arm gives the token to the master "
            "only; executors re-arm, barrier, then report; token fields atomic with release/acquire. The two-pass argument "
            "and the liveness bound are not mechanised. Added: the tree detector clears a thread's own colour only on the branch in which the colour read in the same call is forwarded.",
            "CFG guard / def-use / ordering rules + memory-order role table over clang AST facts; guard-edge + must-follow rule on the colour reset", "4 C04"),
    "C05": ("exhaustive evaluation, on every CFG path of wait()/_reinit() of the six barrier implementations, of: arrival "
            "state re-armed before the releasing store, release by the last arriver only, arrival announced after the "
            "children, wake-ups after the own release, phase variable flipped exactly once, dissemination rounds signal then "
            "wait on the same slot over all LogP rounds, wait() never reaches reinit, fields written by wait() initialised "
            "by _reinit(), BarrierInstance re-initialises iff the clamped count changes, pthread return code, condition-"
            "variable barrier state under its mutex with a generation predicate, all cross-thread fields atomic with "
            "release/acquire/acq_rel orders. Tree index arithmetic for all counts/topologies is not decided.",
            "CFG ordering / exactly-once rules, lock typestate, memory-order role table over clang AST facts", "4 C05"),
    "C06": ("for the memory orders the code requests: every atomic access on a promised synchronisation edge (lock and "
            "lockable hand-over, barrier arrival/departure, loop entry/return, bucket discovery, termination tokens) is "
            "classified by (function, object, kind) and must request at least the order its role needs; lock acquisition is "
            "a single RMW whose result decides; unlock stores clear the lock bit; every lock acquisition in the analysed "
            "units is released exactly once on all paths; all synchronisation fields are std::atomic. Necessary and "
            "sufficient for the C++ happens-before edge given reads-from; fairness and reads-from are not decided.",
            "memory-order role table (MO) + lock typestate (LOCK) over clang AST facts", "4 C06"),
    "C01": ("exhaustive evaluation of the structural obligations of work conservation (commit publishes exactly the push "
            "buffer then clears it, abort re-queues once and never publishes, popped item = processed item, no fast "
            "push-back when aborts are possible, aborted work retried every round, every work result reaches the "
            "termination detector, exit only after global termination and empty worklist, retry path re-arms behind a "
            "barrier, worklist lock pairing / guarded-by / chunk-slot ownership, OwnerComputes flush) on every CFG path "
            "of every ForEachExecutor instantiation of the worklist x trait matrix and of the worklist classes. Decides "
            "these necessary conditions for all schedules and topologies at once; does not decide interleavings inside "
            "lock-free paths or liveness under fairness.",
            "CFG path rules, lock typestate (LOCK), linear chunk ownership (OWN) over clang AST facts", "4 C01"),
    "C02": ("exhaustive evaluation of the structural obligations of iteration isolation (try-lock -> set-owner -> "
            "neighbourhood protocol, release walk, commit/cancel after every operator call on normal and conflict "
            "paths, method-flag table, access control) on every CFG path of the anchored functions and of every "
            "ForEachExecutor instantiation in the worklist x trait driver matrix. Decides these necessary "
            "conditions for all schedules/inputs at once; does not decide serialisability of values.",
            "CFG path rules (dominance / must-pass-through / guard) over clang AST facts", "4 C02"),
}

NOT_APPLICABLE = {
    "C19": "every clause is a statement about values produced from an input graph by message exchange between "
           "hosts; no sound static argument in reach bounds them (see DESIGN.md C19)",
    "C20": "correctness of application results for every input is numerical/algorithmic; shape rules over operator "
           "bodies would be a lint, not a verdict (see DESIGN.md C20)",
}

ALL = ["C%02d" % i for i in range(1, 21)]


def main():
    checks = []
    for pid in ALL:
        if pid not in CHECKS:
            continue
        text, tech, ref = CHECKS[pid]
        checks.append({
            "property_id": pid,
            "quick_cmd": "./check %s --tier quick" % pid,
            "thorough_cmd": "./check %s --tier thorough" % pid,
            "evidence_file": "evidence/%s.json" % pid,
            "replay_cmd_template": "./check %s --replay {path}" % pid,
            "engine": "gsa",
            "level_claimed": {"category": "other", "text": text, "design_ref": "DESIGN.md section " + ref},
            "level_note": LEVEL_NOTE,
            "technique": "static analysis: " + tech,
        })
    na = []
    for pid in ALL:
        if pid in CHECKS:
            continue
        na.append({"property_id": pid,
                   "reason": NOT_APPLICABLE.get(pid, "not built yet in this session (static rules designed in DESIGN.md, "
                                                      "not armed); no claim is made")})
    m = {
        "version": 1,
        "setup_cmd": "./setup.sh",
        "hooks": {
            "guard": "GALOIS_VERIF",
            "enable": "none needed: the analysis reads the unmodified sources; no hook commits exist",
            "baseline_off_cmd": "/verif/scripts/baseline.sh",
            "source_commits": [],
            "add_only": True,
        },
        "engines": [{"name": "gsa", "path": "check",
                     "serves_properties": sorted(CHECKS),
                     "kind_free_text": "libTooling fact extractor (tool/gsa-extract.cc) + Python rule engine "
                                       "(gsa/, props/) over per-instantiation CFGs of /repo's current sources"}],
        "checks": checks,
        "not_applicable": na,
        "notes": "Static analysis only: every check parses /repo's current working tree and decides structural "
                 "obligations; nothing from /repo is executed. Exit 2 = analysis broken (anchor vanished / floor "
                 "missed / canary failed).",
    }
    with open(os.path.join(VERIF, "MANIFEST.json"), "w") as fh:
        json.dump(m, fh, indent=1)
    print("MANIFEST.json: %d checks, %d not applicable" % (len(checks), len(na)))


if __name__ == "__main__":
    main()
