"""Seeded-fault self-test: every mutant in selftest/mutants.json is applied to a
scratch copy of the source directories (outside /repo and /verif), the relevant
check is run with --root and must exit 1 naming the expected rule (or, for variants
marked "expect": "silent" - behaviour-preserving rewrites - must exit 0). A mutant whose
anchor text no longer occurs is reported as skipped. Nothing is ever written to
/repo."""
import json
import re
import os
import shutil
import subprocess
import sys
import tempfile
import time
from concurrent.futures import ThreadPoolExecutor

from . import facts as F

VERIF = F.VERIF


def make_scratch(dst, src="/repo"):
    os.makedirs(dst, exist_ok=True)
    for d in F.SRC_DIRS + ["lonestar/analytics/cpu", "lonestar/tutorial_examples"]:
        s = os.path.join(src, d)
        if not os.path.isdir(s):
            continue
        t = os.path.join(dst, d)
        os.makedirs(os.path.dirname(t), exist_ok=True)
        subprocess.check_call(["rsync", "-a", "--delete", s + "/", t + "/"])
    return dst


def _run_checks(m, scratch):
    """run the check(s) of the variant's property (a list of properties is allowed); returns (worst return code, output).
    For a seeded fault (SEED.*) every listed check must report it: the result is 0 as soon as one of them is silent."""
    props = m["prop"] if isinstance(m["prop"], list) else [m["prop"]]
    rc, out = 0, ""
    if m["id"].startswith("SEED.") and len(props) > 1:
        rcs = []
        for pr in props:
            p = subprocess.run([os.path.join(VERIF, "check"), pr, "--root", scratch, "--tier", m.get("tier", "quick")],
                               stdout=subprocess.PIPE, stderr=subprocess.STDOUT, text=True)
            out += p.stdout
            rcs.append(p.returncode)
        return (1 if all(r == 1 for r in rcs) else (2 if 2 in rcs else 0)), out
    for pr in props:
        p = subprocess.run([os.path.join(VERIF, "check"), pr, "--root", scratch, "--tier", m.get("tier", "quick")],
                           stdout=subprocess.PIPE, stderr=subprocess.STDOUT, text=True)
        out += p.stdout
        if p.returncode == 1 or (p.returncode == 2 and rc == 0):
            rc = p.returncode if rc != 1 else 1
    return rc, out


def run_mutant(m, scratch):
    if m.get("patch"):
        # a unified diff (independent sub-agents deliver behaviour-preserving refactorings in this form)
        pf = os.path.join(VERIF, m["patch"])
        if not os.path.exists(pf):
            return m, "skipped", "patch file missing"
        ap = subprocess.run(["patch", "-p1", "-s", "-f", "-d", scratch, "-i", pf], stdout=subprocess.PIPE, stderr=subprocess.STDOUT, text=True)
        if ap.returncode != 0:
            subprocess.run(["patch", "-p1", "-s", "-f", "-R", "-d", scratch, "-i", pf], stdout=subprocess.PIPE, stderr=subprocess.STDOUT)
            # restore from /repo to be safe
            make_scratch(scratch)
            return m, "skipped", "patch does not apply: " + ap.stdout[-200:]
        try:
            rc, out = _run_checks(m, scratch)
        finally:
            rv = subprocess.run(["patch", "-p1", "-s", "-f", "-R", "-d", scratch, "-i", pf], stdout=subprocess.PIPE, stderr=subprocess.STDOUT)
            if rv.returncode != 0:
                make_scratch(scratch)
            for junk in ("*.orig", "*.rej"):
                subprocess.run("find %s -name '%s' -delete" % (scratch, junk), shell=True)
    else:
        path = os.path.join(scratch, m["file"])
        if not os.path.exists(path):
            return m, "skipped", "file missing"
        orig = open(path).read()
        cnt = orig.count(m["old"])
        if cnt != m.get("count", 1):
            return m, "skipped", "anchor text occurs %d times" % cnt
        mutated = orig.replace(m["old"], m["new"])
        try:
            with open(path, "w") as fh:
                fh.write(mutated)
            rc, out = _run_checks(m, scratch)
        finally:
            with open(path, "w") as fh:
                fh.write(orig)
    viol = [l for l in out.splitlines() if l.startswith("  ") or l.startswith("VIOLATION") or l.startswith("ANALYSIS-BROKEN")]
    if m.get("expect") == "silent":
        # behaviour-preserving rewrite: the check must stay green
        if rc == 0:
            return m, "silent-ok", ""
        if rc == 2 and not any(l.startswith("VIOLATION") for l in viol):
            # no alarm was raised, but the rewrite renamed or removed something the rules are anchored on: the check
            # refuses to decide (exit 2). Not a false alarm, still a robustness defect worth fixing.
            return m, "ANCHOR-LOST", "\n".join(viol[:6]) or out[-400:]
        return m, "FALSE-ALARM", "\n".join(viol[:6]) or out[-400:]
    if rc == 2:
        return m, "broken", out[-800:]
    if rc == 1 and any(m["rule"] in l for l in viol):
        return m, "caught", ""
    if rc == 1:
        return m, "caught-other", "\n".join(viol[:6])
    return m, "MISSED", out[-400:]


def main(tier="quick", only=None, jobs=4, summary=None, tag="selftest"):
    muts = json.load(open(os.path.join(VERIF, "selftest", "mutants.json")))
    if only:
        muts = [m for m in muts if m["id"] in only or
                any(pr in only for pr in (m["prop"] if isinstance(m["prop"], list) else [m["prop"]]))]
    if only and len(only) == 1 and re.fullmatch(r"C\d\d", next(iter(only))):
        # one property's own self-test (thorough tier of its check): each variant is judged by that property's check alone,
        # and a refactoring written for another property is included only when it touches a file in which this property has
        # obligations (evidence/<id>.json coverage.files); `./check selftest` runs the whole corpus against every listed check
        pr = next(iter(only))
        try:
            with open(os.path.join(VERIF, "evidence", pr + ".json")) as fh:
                files = set(json.load(fh)["coverage"].get("files") or [])
        except (OSError, ValueError, KeyError):
            files = set()
        keep = []
        for m in muts:
            if m["id"].startswith("SEED."):
                # a seeded fault is judged by the check(s) it names, each on its own
                if pr not in m["prop"]:
                    continue
                m = dict(m, prop=[pr])
            elif isinstance(m["prop"], list) and len(m["prop"]) > 1:
                own = m["id"].startswith("RF.%s-" % pr)
                touched = set()
                if m.get("patch") and files and not own:
                    try:
                        touched = set(re.findall(r"^\+\+\+ b/(\S+)", open(os.path.join(VERIF, m["patch"])).read(), re.M))
                    except OSError:
                        pass
                if not own and files and not (touched & files):
                    continue
                m = dict(m, prop=[pr])
            keep.append(m)
        muts = keep
    if os.environ.get("GSA_SELFTEST_NO_PATCH"):      # development: text mutants only
        muts = [m for m in muts if "patch" not in m]
    base = os.environ.get("TMPDIR", "/tmp")
    roots = [os.path.join(base, "gsa-%s-%d" % (tag, i)) for i in range(jobs)]
    t0 = time.time()
    for r in roots:
        make_scratch(r)
    # warm the cache for each scratch root once (so each mutant only re-parses
    # the units that include the mutated file)
    results = []
    buckets = [[] for _ in roots]
    for i, m in enumerate(muts):
        buckets[i % len(roots)].append(m)

    def work(i):
        out = []
        for m in buckets[i]:
            out.append(run_mutant(m, roots[i]))
        return out
    with ThreadPoolExecutor(max_workers=len(roots)) as ex:
        for lst in ex.map(work, range(len(roots))):
            results += lst
    for r in roots:
        shutil.rmtree(r, ignore_errors=True)
    bad = 0
    for m, st, info in sorted(results, key=lambda x: x[0]["id"]):
        print("%-12s %-5s %-28s %s" % (st, m["prop"] if isinstance(m["prop"], str) else "+".join(m["prop"]), m["id"], m.get("rule", "")))
        if st in ("MISSED", "broken", "caught-other", "FALSE-ALARM", "ANCHOR-LOST"):
            print("     " + info.replace("\n", "\n     "))
        if st in ("MISSED", "broken", "FALSE-ALARM", "ANCHOR-LOST"):
            bad += 1
    print("selftest: %d variants, %d behaviour-preserving stayed silent, %d caught, %d caught by another rule, %d skipped, "
          "%d missed/broken/false-alarm, %.0fs" % (
        len(results), sum(1 for r in results if r[1] == "silent-ok"), sum(1 for r in results if r[1] == "caught"),
        sum(1 for r in results if r[1] == "caught-other"),
        sum(1 for r in results if r[1] == "skipped"), bad, time.time() - t0))
    if summary is not None:
        summary.update({"variants": len(results), "caught": sum(1 for r in results if r[1] in ("caught", "caught-other")),
                        "silent_ok": sum(1 for r in results if r[1] == "silent-ok"),
                        "skipped": [r[0]["id"] for r in results if r[1] == "skipped"],
                        "failed": [(r[0]["id"], r[1]) for r in results if r[1] in ("MISSED", "broken", "FALSE-ALARM", "ANCHOR-LOST")]})
    return 1 if bad else 0


if __name__ == "__main__":
    sys.exit(main(only=set(sys.argv[1:]) or None))
