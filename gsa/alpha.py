"""alpha-normalisation of local names.

Rules read the code of this repository and several of them still speak about a local by the name it has on the tree they
were written against (`ll`, `BS`, `received`, ...). Renaming a local changes no behaviour, so it must change no verdict.
Instead of teaching every rule every name, the facts of a function whose parameters / locals are named differently from
the reference tree are renamed back before any rule looks at them:

  * reference: gsa/localnames.json, generated from the pinned tree by scripts/gen_localnames.py -- per function (file
    relative to the root, qualified name with lambda positions dropped, number of parameters) the parameter and local
    names in declaration order, one list per overload; the overload a function is compared with is the one sharing the
    most names in order (it must be the unique best);
  * alignment: longest common subsequence of the two name lists; inside a gap between two matched names, when the
    reference and the current tree have the same number of unmatched names, they are paired in order (a rename keeps the
    position of a declaration). A gap of different sizes (a local was added or removed as well) is left alone;
  * renaming: every reference to a local/parameter (`ref` trees, `decl` events, parameter lists) and every path / text string
    of the function and of its nested lambdas (captured names) is rewritten; member accesses (`x.name`, `p->name`,
    `ns::name`) are not touched.

Only names change. Every rule still checks what the renamed local is defined as and how it is used, so a different variable
put at the same position is judged by its content. On the unchanged tree the table equals the tree and nothing is renamed.
"""
import json
import os
import re

HERE = os.path.dirname(os.path.abspath(__file__))
TABLE = os.path.join(HERE, "localnames.json")
_table = None
STRKEYS = ("lp", "rp", "ip", "p", "text", "deftext")


def table():
    global _table
    if _table is None:
        try:
            with open(TABLE) as fh:
                _table = json.load(fh)
        except (OSError, ValueError):
            _table = {}
    return _table


def rel(path, root):
    root = root.rstrip("/")
    if path.startswith(root + "/"):
        return path[len(root) + 1:]
    return path


def fkey(f, root):
    qn = re.sub(r"lambda@[\w.+-]+:\d+:\d+", "lambda@", f["qn"])
    qn = re.sub(r"\(lambda at [^)]*\)", "(lambda)", qn)
    return "%s|%s|%d|%s" % (rel(f["file"], root), qn, len(f.get("params", [])), "p" if f.get("kind") == "pattern" else "i")


def names_of(f):
    """parameter names, then declared locals in source order (by line; the extractor lists blocks from the entry down)"""
    out = [p.get("n") or "" for p in f.get("params", [])]
    decls = []
    blocks = f.get("blocks", [])
    order = sorted(blocks, key=lambda b: -b["id"]) if len(blocks) > 1 else blocks
    i = 0
    for b in order:
        for e in b.get("ev", []):
            if e.get("k") == "decl" and e.get("n"):
                decls.append((e.get("l", 0), i, e["n"]))
                i += 1
    decls.sort()
    for _, _, n in decls:
        out.append(n)
    return out


def ptypes(f):
    return [p.get("ty") or "" for p in f.get("params", [])]


def build(functions, root):
    """reference table from the functions of one Facts object: fkey -> one entry per distinct name list (one per overload):
    {"n": names, "t": [parameter type lists seen, at most 8]} -- the types only break ties between overloads"""
    t = {}
    for f in functions:
        if rel(f["file"], root) == f["file"]:
            continue            # not under the root (drivers, system headers)
        ns = names_of(f)
        if not any(ns):
            continue
        ent = t.setdefault(fkey(f, root), [])
        hit = [e for e in ent if e["n"] == ns]
        if not hit:
            hit = [{"n": ns, "t": []}]
            ent.append(hit[0])
        ty = ptypes(f)
        if ty not in hit[0]["t"] and len(hit[0]["t"]) < 8:
            hit[0]["t"].append(ty)
    return t


def lcs_pairs(a, b):
    n, m = len(a), len(b)
    if n * m > 250000:
        return None
    L = [[0] * (m + 1) for _ in range(n + 1)]
    for i in range(n - 1, -1, -1):
        for j in range(m - 1, -1, -1):
            L[i][j] = L[i + 1][j + 1] + 1 if a[i] == b[j] else max(L[i + 1][j], L[i][j + 1])
    pairs, i, j = [], 0, 0
    while i < n and j < m:
        if a[i] == b[j]:
            pairs.append((i, j)); i += 1; j += 1
        elif L[i + 1][j] >= L[i][j + 1]:
            i += 1
        else:
            j += 1
    return pairs


def mapping(ref, cur):
    """current name -> reference name for renamed declarations (see module doc)"""
    if ref == cur:
        return {}
    pairs = lcs_pairs(ref, cur)
    if pairs is None:
        return {}
    mp, bad = {}, set()
    pi, pj = -1, -1
    for i, j in pairs + [(len(ref), len(cur))]:
        gr, gc = ref[pi + 1:i], cur[pj + 1:j]
        if gr and len(gr) == len(gc):
            for r, c in zip(gr, gc):
                if not r or not c:
                    continue
                if mp.get(c, r) != r:
                    bad.add(c)
                mp[c] = r
        pi, pj = i, j
    for c in bad:
        mp.pop(c, None)
    # a current name that is also kept (matched) elsewhere in the function under its own name would be split: leave it
    kept = {cur[j] for _, j in pairs}
    for c in list(mp):
        if c in kept and mp[c] != c:
            mp.pop(c)
    return {c: r for c, r in mp.items() if c != r}


def rename(f, mp, own=True):
    """rewrite names in one function's facts in place"""
    if not mp:
        return
    rx = re.compile(r"(?<![\w>.:])(%s)\b" % "|".join(sorted((re.escape(c) for c in mp), key=len, reverse=True)))
    sub = lambda s: rx.sub(lambda m: mp[m.group(1)], s)
    if own:
        for p in f.get("params", []):
            if p.get("n") in mp:
                p["n"] = mp[p["n"]]

    def walk(t):
        if isinstance(t, list):
            for x in t:
                walk(x)
        elif isinstance(t, dict):
            k = t.get("k")
            if k == "ref" and t.get("vk") in ("local", "param") and t.get("n") in mp:
                t["n"] = mp[t["n"]]
            elif k == "decl" and t.get("n") in mp:
                t["n"] = mp[t["n"]]
            elif k in ("dtor", "init", "ctor") and t.get("n") in mp:
                t["n"] = mp[t["n"]]
            for key, v in t.items():
                if isinstance(v, str):
                    if key in STRKEYS:
                        t[key] = sub(v)
                elif isinstance(v, (dict, list)):
                    walk(v)
    walk(f.get("blocks", []))


def normalise(fx, root, notes=None):
    """rename locals of every function whose declaration names differ from the reference table. Returns the number of
    functions touched."""
    t = table()
    if not t or getattr(fx, "_alpha_done", False) or os.environ.get("GSA_NO_ALPHA"):
        return 0
    fx._alpha_done = True
    touched, maps = 0, {}
    for f in fx.functions:
        if rel(f["file"], root) == f["file"]:
            continue
        ent = t.get(fkey(f, root))
        if not ent:
            continue
        cur = names_of(f)
        ent = [e if isinstance(e, dict) else {"n": e, "t": []} for e in ent]      # (older tables: bare name lists)
        if any(e["n"] == cur for e in ent):
            continue
        # the overload this is: the reference list sharing the most names in order (ties: the one with this parameter type
        # list, then the one of the same length); it must be the only best one
        ty = ptypes(f)
        scored = []
        for e in ent:
            pr = lcs_pairs(e["n"], cur)
            scored.append((len(pr) if pr is not None else -1, 1 if ty in e["t"] else 0, -abs(len(e["n"]) - len(cur)), e["n"]))
        scored.sort(key=lambda x: x[:3], reverse=True)
        if len(scored) > 1 and scored[0][:3] == scored[1][:3]:
            continue
        mp = mapping(scored[0][3], cur)
        if mp:
            maps[f["key"]] = (f, mp)
    for key, (f, mp) in maps.items():
        rename(f, mp)
        touched += 1
    # captured names inside nested lambdas (a lambda records the key of the function it is written in)
    if maps:
        for g in fx.functions:
            par = g.get("parent")
            depth = 0
            while par and depth < 4:
                if par in maps:
                    own = set(names_of(g))
                    m2 = {c: r for c, r in maps[par][1].items() if c not in own}
                    rename(g, m2, own=False)
                pf = fx.by_key.get(par)
                par = pf.get("parent") if pf else None
                depth += 1
    if touched and notes is not None:
        ex = sorted({"%s: %s" % (f["qn"].split("::")[-1], ", ".join("%s->%s" % cr for cr in sorted(mp.items())))
                     for f, mp in maps.values()})
        notes.append("alpha-normalisation: locals of %d function(s) renamed back to the reference names (%s)" % (
            touched, "; ".join(ex[:6])))
    return touched
