"""LAYOUT family: symbolic byte offsets.

A tiny abstract interpreter over the extracted CFG. Values are polynomials with
integer coefficients over a few symbols (N = number of nodes, E = number of edges,
S = size of one edge datum, P = E mod 2 with P*P = P, plus free index symbols);
pointer values are byte offsets from the base of the file image and carry the size
of their pointee, so `p++`, `p += k` and `p + k` scale by it and a cast changes it.
Branches decided by the environment (format version, parity, flags) follow one
side; undecided branches fork (bounded). Counted loops whose body only advances
tracked values are summarised (delta per iteration times trip count).
"""
import re

from .cfg import Fn, S, walk, lit, effective_cond

SIZES = {"unsigned long": 8, "long": 8, "unsigned long long": 8, "long long": 8, "unsigned int": 4, "int": 4,
         "char": 1, "unsigned char": 1, "signed char": 1, "void": 1, "float": 4, "double": 8, "unsigned short": 2,
         "short": 2, "bool": 1}


class Poly:
    __slots__ = ("t",)

    def __init__(self, t=None):
        self.t = {k: v for k, v in (t or {}).items() if v != 0}

    @staticmethod
    def const(c):
        return Poly({(): int(c)})

    @staticmethod
    def sym(s):
        return Poly({(s,): 1})

    def __add__(self, o):
        r = dict(self.t)
        for k, v in o.t.items():
            r[k] = r.get(k, 0) + v
        return Poly(r)

    def __neg__(self):
        return Poly({k: -v for k, v in self.t.items()})

    def __sub__(self, o):
        return self + (-o)

    def __mul__(self, o):
        r = {}
        for k1, v1 in self.t.items():
            for k2, v2 in o.t.items():
                ks = list(k1) + list(k2)
                # P is 0/1: P*P = P
                if ks.count("P") > 1:
                    ks = [x for x in ks if x != "P"] + ["P"]
                k = tuple(sorted(ks))
                r[k] = r.get(k, 0) + v1 * v2
        return Poly(r)

    def is_const(self):
        return all(k == () for k in self.t)

    def cval(self):
        return self.t.get((), 0)

    def subst(self, sym, val):
        r = Poly()
        for k, v in self.t.items():
            term = Poly.const(v)
            for s in k:
                term = term * (Poly.const(val) if s == sym else Poly.sym(s))
            r = r + term
        return r

    def __eq__(self, o):
        return isinstance(o, Poly) and self.t == o.t

    def __hash__(self):
        return hash(tuple(sorted(self.t.items())))

    def __repr__(self):
        if not self.t:
            return "0"
        out = []
        for k, v in sorted(self.t.items(), key=lambda kv: (len(kv[0]), kv[0])):
            m = "*".join(k)
            out.append(("%d" % v) if not m else (m if v == 1 else "%d*%s" % (v, m)))
        return " + ".join(out)


def align_up(p, a):
    """(p + a-1) & ~(a-1) for a = 8: decided when p mod 8 is 0 or 4E (then + 4P)"""
    rem = Poly({k: v % a for k, v in p.t.items()})
    if not rem.t:
        return p
    if rem.t == {("E",): 4} and a == 8:
        return p + Poly({("P",): 4})
    if rem.t == {("E",): 4, ("P",): 4} and a == 8:
        return p
    return None


class Val:
    __slots__ = ("p", "esz")

    def __init__(self, p, esz=None):
        self.p = p
        self.esz = esz          # pointee size when this is a pointer

    def __repr__(self):
        return "%s%s" % (self.p, ("@%d" % self.esz) if self.esz else "")


def type_esz(ti):
    """pointee size of a type-info dict, or None when not a pointer"""
    if not ti or not ti.get("ptr"):
        return None
    b = ti.get("b")
    if b in SIZES:
        return SIZES[b]
    if ti.get("rec"):
        return None
    return None


def tystr_esz(s):
    if not s or "*" not in s:
        return None
    base = s.replace("const", "").replace("*", "").strip()
    base = {"uint64_t": "unsigned long", "uint32_t": "unsigned int", "int64_t": "long", "int32_t": "int", "size_t": "unsigned long",
            "uint8_t": "unsigned char", "uintptr_t": "unsigned long"}.get(base, base)
    return SIZES.get(base)


class Interp:
    def __init__(self, fn, syms, env=None, observe=None, max_paths=64, esz_of=None, parity=None, callees=None):
        """syms: canonical string -> Poly (symbol bindings for members/params); env: canonical string -> int used only to
        decide branches (and as values when no symbol is bound)"""
        self.fn = fn
        self.syms = dict(syms)
        self.env = dict(env or {})
        self.observe = observe or (lambda e: False)
        self.max_paths = max_paths
        self.obs = []           # (event, {name: Val}) per completed path
        self.al = fn.aliases()
        self.notes = []
        self.esz_of = esz_of or {}
        self.parity = parity        # None: E mod 2 stays the symbol P; 0 / 1: concrete
        self.callees = callees or {}    # unqualified name -> function dict, interpreted at call sites

    # ---------------------------------------------------------- evaluation
    def ev(self, t, st):
        if not isinstance(t, dict):
            return None
        k = t.get("k")
        if k in ("int",):
            return Val(Poly.const(t["v"]))
        if k == "bool":
            return Val(Poly.const(1 if t["v"] else 0))
        if k == "null":
            return Val(Poly.const(0))
        if k in ("cast",):
            v = self.ev(t["e"], st)
            if v is None:
                return None
            esz = type_esz(t.get("tt")) or tystr_esz(t.get("ty")) or self.esz_of.get((t.get("tt") or {}).get("rec"))
            if t.get("tt", {}).get("ptr") or "*" in (t.get("ty") or ""):
                return Val(v.p, esz or 1)
            return Val(v.p, None)
        if k == "sizeof":
            if "c" in t and not isinstance(t["c"], dict):
                s = S(t)
                if s in self.syms:
                    return Val(self.syms[s])
                return Val(Poly.const(t["c"]))
            return None
        s = S(t, self.al)
        if k in ("ref", "mem", "idx") or (k == "call" and t.get("conv")):
            if s in st:
                return st[s]
            s2 = S(t)
            if s2 in st:
                return st[s2]
            for key in (s, s2):
                if key in self.syms:
                    esz = type_esz(t.get("t")) if k != "idx" else None
                    return Val(self.syms[key], esz)
            if "c" in t and not isinstance(t["c"], dict) and k != "idx":
                return Val(Poly.const(t["c"]))
            for key in (s, s2):
                if key in self.env:
                    return Val(Poly.const(self.env[key]))
            return None
        if k == "defarg":
            return self.ev(t["e"], st)
        if k == "ctor" and len(t.get("a", [])) == 1 and t.get("fn") in ("std::fpos",):
            return self.ev(t["a"][0], st)       # integer -> stream position conversion
        if k == "un":
            op = t["op"]
            if op in ("pre++", "post++", "pre--", "post--"):
                # value of the expression (the side effect is a separate event)
                v = self.ev(t["e"], st)
                return v
            if op == "&":
                # address of an array element: &p[i] == p + i (scaled by the pointee size)
                x = t.get("e")
                while isinstance(x, dict) and x.get("k") in ("paren",):
                    x = x.get("e")
                if isinstance(x, dict) and x.get("k") == "idx":
                    b, i = self.ev(x.get("b"), st), self.ev(x.get("i"), st)
                    if b is None or i is None or not b.esz:
                        return None
                    return Val(b.p + i.p * Poly.const(b.esz), b.esz)
                return None
            v = self.ev(t["e"], st)
            if v is None:
                return None
            if op == "-":
                return Val(-v.p)
            if op == "+":
                return v
            if op == "*":
                return None
            return None
        if k == "cond":
            c = self.decide(t["c"], st)
            if c is None:
                return None
            return self.ev(t["a"] if c else t["b"], st)
        if k == "bin":
            op = t["op"]
            if op == "%" or op == "&":
                ls, rs = S(t["l"], self.al), S(t["r"])
                lv = self.ev(t["l"], st)
                if lv is not None and lv.p == Poly.sym("E") and ((op == "%" and rs == "2") or (op == "&" and rs == "1")):
                    return Val(Poly.sym("P") if self.parity is None else Poly.const(self.parity))
                if op == "&":
                    # align-up idiom (x + 7) & ~7
                    m = re.fullmatch(r"~(\d+)", rs)
                    if m and isinstance(t["l"], dict) and t["l"].get("k") == "bin" and t["l"].get("op") == "+":
                        a = int(m.group(1)) + 1
                        add = self.ev(t["l"]["r"], st)
                        base = self.ev(t["l"]["l"], st)
                        if base is not None and add is not None and add.p == Poly.const(a - 1):
                            r = align_up(base.p, a)
                            if r is not None and self.parity is not None:
                                r = r.subst("P", self.parity)
                            if r is None:
                                # the residue of a known polynomial depends on an index symbol: the rounded value is not a
                                # polynomial at all; keep it as an opaque atom so that the comparison reports it
                                return Val(Poly.sym("align%d(%s)" % (a, base.p)), base.esz)
                            return Val(r, base.esz)
                return None
            a, b = self.ev(t["l"], st), self.ev(t["r"], st)
            if a is None or b is None:
                return None
            if op == "+":
                if a.esz and not b.esz:
                    return Val(a.p + b.p * Poly.const(a.esz), a.esz)
                if b.esz and not a.esz:
                    return Val(b.p + a.p * Poly.const(b.esz), b.esz)
                return Val(a.p + b.p)
            if op == "-":
                if a.esz and not b.esz:
                    return Val(a.p - b.p * Poly.const(a.esz), a.esz)
                if a.esz and b.esz:
                    if not (a.p - b.p).is_const() and a.esz != 1:
                        return None
                    return Val(Poly.const((a.p - b.p).cval() // a.esz)) if (a.p - b.p).is_const() else Val(a.p - b.p)
                return Val(a.p - b.p)
            if op == "*":
                return Val(a.p * b.p)
            if op == "/":
                if a.p.is_const() and b.p.is_const() and b.p.cval() > 0 and a.p.cval() >= 0:
                    return Val(Poly.const(a.p.cval() // b.p.cval()))          # two non-negative constants: C++ truncation
                if b.p.is_const() and b.p.cval() != 0 and all(v % b.p.cval() == 0 for v in a.p.t.values()):
                    return Val(Poly({k2: v // b.p.cval() for k2, v in a.p.t.items()}))
                return None
            if op == "<<" and b.p.is_const():
                return Val(a.p * Poly.const(1 << b.p.cval()))
            return None
        if k == "call":
            nm = t.get("name")
            if nm in ("convert_le64toh", "convert_htole64", "convert_le32toh", "convert_htole32") and t.get("a"):
                return self.ev(t["a"][0], st)
            if nm in ("static_cast", "reinterpret_cast"):
                return None
            if t.get("op") == "*" or nm == "operator*":
                return None
            if nm in self.callees:
                return self.call(self.callees[nm], t.get("a", []), st)
            s2 = S(t)
            for key in (s, s2):
                if key in self.syms:
                    return Val(self.syms[key])
            for key in (s, s2):
                if key in self.env:
                    return Val(Poly.const(self.env[key]))
            return None
        return None

    def call(self, g, args, st):
        """interpret callee g with the argument values; every returning path must yield the same value"""
        vals = [self.ev(a, st) for a in args]
        syms, env = {}, {}
        for prm, v in zip(g.get("params", []), vals):
            if v is None:
                continue
            syms[prm["n"]] = v.p
            if v.p.is_const():
                env[prm["n"]] = v.p.cval()
        sub = Interp(Fn(g), syms, env, observe=lambda e: e["k"] == "ret", parity=self.parity, callees=self.callees)
        out = set()
        for st2, obs in sub.run():
            for o in obs:
                out.add(o.get("value").p if o.get("value") is not None else None)
        if len(out) == 1 and None not in out:
            return Val(next(iter(out)))
        return None

    def decide(self, t, st):
        tt, pol = lit(t)
        v = self.ev(tt, st)
        if v is not None and v.p.is_const():
            val = v.p.cval() != 0
            return val if pol else (not val)
        # comparisons
        if isinstance(tt, dict) and tt.get("k") == "bin" and tt.get("op") in ("==", "!=", "<", ">", "<=", ">="):
            a, b = self.ev(tt["l"], st), self.ev(tt["r"], st)
            if a is not None and b is not None and (a.p - b.p).is_const():
                d = (a.p - b.p).cval()
                r = {"==": d == 0, "!=": d != 0, "<": d < 0, ">": d > 0, "<=": d <= 0, ">=": d >= 0}[tt["op"]]
                return r if pol else (not r)
        s = S(tt, self.al)
        for key in (s, S(tt)):
            if key in self.env:
                r = self.env[key] != 0
                return r if pol else (not r)
        return None

    # ------------------------------------------------------------- running
    def step_event(self, e, st, seen_obs):
        k = e["k"]
        rec = None
        if self.observe(e):
            rec = {"event": e}
            if k == "call":
                rec["args"] = [self.ev(a, st) for a in e.get("a", [])]
            if k == "ret":
                rec["value"] = self.ev(e.get("e"), st)
            seen_obs.append(rec)
        self._apply(e, st)
        if rec is not None:
            if k == "assign":
                rec["value"] = st.get(S(e.get("lhs"), self.al))
            elif k == "decl":
                rec["value"] = st.get(e["n"])

    def _apply(self, e, st):
        k = e["k"]
        if k == "decl":
            if "init" in e:
                v = self.ev(e["init"], st)
                esz = type_esz(e.get("t")) or tystr_esz(e.get("ty"))
                if v is not None:
                    st[e["n"]] = Val(v.p, esz if esz else (v.esz if "*" in (e.get("ty") or "") else None))
                else:
                    st.pop(e["n"], None)
        elif k == "assign":
            lp = S(e.get("lhs"), self.al)
            op = e.get("op")
            cur = st.get(lp) or self.ev(e.get("lhs"), st)
            lesz = type_esz((e.get("lhs") or {}).get("t")) if isinstance(e.get("lhs"), dict) else None
            if op == "=":
                v = self.ev(e.get("rhs"), st)
                if v is not None:
                    st[lp] = Val(v.p, lesz or v.esz)
                else:
                    st.pop(lp, None)
            elif op in ("++", "--"):
                if cur is not None:
                    d = Poly.const(cur.esz or 1)
                    st[lp] = Val(cur.p + d if op == "++" else cur.p - d, cur.esz)
            elif op in ("+=", "-="):
                v = self.ev(e.get("rhs"), st)
                if cur is not None and v is not None:
                    d = v.p * Poly.const(cur.esz or 1)
                    st[lp] = Val(cur.p + d if op == "+=" else cur.p - d, cur.esz)
                else:
                    st.pop(lp, None)
            elif op == "*=":
                v = self.ev(e.get("rhs"), st)
                if cur is not None and v is not None:
                    st[lp] = Val(cur.p * v.p, cur.esz)
                else:
                    st.pop(lp, None)
            else:
                st.pop(lp, None)

    def run(self):
        fn = self.fn
        results = []
        work = [(fn.entry, dict(), [], 0, frozenset())]
        paths = 0
        while work and paths < self.max_paths:
            bid, st, obs, steps, visited = work.pop()
            while True:
                steps += 1
                if steps > 400:
                    self.notes.append("path too long")
                    break
                b = fn.blocks.get(bid)
                if b is None:
                    break
                # counted loop summarisation
                t = b.get("term") or {}
                if t.get("cls") in ("ForStmt", "WhileStmt") and bid in visited:
                    # second arrival at a loop head we could not summarise: stop this path
                    self.notes.append("unsummarised loop at line %s" % t.get("l"))
                    break
                for e in b["ev"]:
                    self.step_event(e, st, obs)
                if bid == fn.exit:
                    results.append((st, obs))
                    paths += 1
                    break
                if b.get("noreturn"):
                    break
                succ = fn.succs(bid)
                if not succ:
                    break
                if len(succ) == 1:
                    bid = succ[0][1]
                    continue
                c = effective_cond(b)
                d = self.decide(c, st) if c is not None else None
                if t.get("cls") in ("ForStmt", "WhileStmt") and d is None:
                    nxt = self.summarise_loop(bid, st)
                    if nxt is not None:
                        bid = nxt
                        continue
                    visited = visited | {bid}
                if d is None:
                    # fork
                    for i, s2 in succ[1:]:
                        work.append((s2, dict(st), list(obs), steps, visited))
                    bid = succ[0][1]
                    continue
                want = 0 if d else 1
                nb = [s2 for i, s2 in succ if i == want]
                if not nb:
                    break
                bid = nb[0]
        return results

    def summarise_loop(self, head, st):
        """for (i = 0; i < B; ++i) body: apply (state after one iteration - state before) * B to every tracked value whose
        delta does not depend on i; returns the loop exit block, or None when the loop is not of that shape"""
        fn = self.fn
        b = fn.blocks[head]
        c = effective_cond(b)
        tt, pol = lit(c)
        if not (isinstance(tt, dict) and tt.get("k") == "bin" and tt.get("op") in ("<", "!=") and pol):
            return None
        iv = S(tt["l"], self.al)
        bound = self.ev(tt["r"], st)
        start = st.get(iv)
        if bound is None or start is None:
            return None
        trips = bound.p - start.p
        succ = b.get("succ", [])
        if len(succ) != 2 or succ[0] is None or succ[1] is None:
            return None
        # run the body once with i symbolic
        st1 = dict(st)
        st1[iv] = Val(Poly.sym("__i"))
        bid = succ[0]
        steps = 0
        dummy = []
        while bid != head:
            steps += 1
            if steps > 60:
                return None
            bb = fn.blocks.get(bid)
            if bb is None or bb.get("noreturn"):
                return None
            for e in bb["ev"]:
                self.step_event(e, st1, dummy)
            ss = fn.succs(bid)
            if len(ss) != 1:
                cc = effective_cond(bb)
                d = self.decide(cc, st1) if cc is not None else None
                if d is None:
                    return None
                ss = [(i, s2) for i, s2 in ss if i == (0 if d else 1)]
                if not ss:
                    return None
            bid = ss[0][1]
        for k in list(st.keys()):
            if k == iv:
                continue
            a, b2 = st.get(k), st1.get(k)
            if a is None or b2 is None:
                st.pop(k, None)
                continue
            delta = b2.p - a.p
            if any("__i" in mono for mono in delta.t):
                st.pop(k, None)
                continue
            st[k] = Val(a.p + delta * trips, a.esz)
        st[iv] = Val(bound.p, None)
        return succ[1]
