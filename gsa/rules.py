"""Generic rule helpers shared by the property modules."""
import re

from .cfg import Fn, S, walk, lit, effective_cond


# ------------------------------------------------------------- evaluation
def decide(t, env, al=None):
    """evaluate an expression tree to an int under env (canonical string ->
    int); returns None when unknown"""
    if not isinstance(t, dict):
        return None
    k = t.get("k")
    if k in ("int",):
        return int(t["v"])
    if k == "bool":
        return 1 if t["v"] else 0
    if k == "null":
        return 0
    s = None
    if k in ("ref", "mem", "call", "idx"):
        s = S(t, al)
        if s in env:
            return env[s]
        s2 = S(t)
        if s2 in env:
            return env[s2]
    if "c" in t and k not in ("cond",) and not isinstance(t["c"], dict):
        try:
            return int(t["c"])
        except (TypeError, ValueError):
            pass
    if k == "cast" or k == "defarg":
        return decide(t["e"], env, al)
    if k == "cond":
        c = decide(t["c"], env, al)
        if c is None:
            a, b = decide(t["a"], env, al), decide(t["b"], env, al)
            return a if a is not None and a == b else None
        return decide(t["a"] if c else t["b"], env, al)
    if k == "un":
        v = decide(t["e"], env, al)
        if v is None:
            return None
        op = t["op"]
        if op == "!":
            return 0 if v else 1
        if op == "-":
            return -v
        if op == "~":
            return ~v
        if op == "+":
            return v
        return None
    if k == "call" and t.get("op") and t.get("recv") is not None:
        # overloaded operator on a tracked value, e.g. enum class &
        op = t["op"]
        a = t.get("a", [])
        if op == "!" and not a:
            v = decide(t["recv"], env, al)
            return None if v is None else (0 if v else 1)
        return None
    if k == "call" and t.get("op") and t.get("recv") is None and len(t.get("a", [])) == 2:
        l = decide(t["a"][0], env, al)
        r = decide(t["a"][1], env, al)
        return _binop(t["op"], l, r)
    if k == "bin":
        op = t["op"]
        if op == "=":
            v = decide(t["r"], env, al)
            if v is not None:
                return v
            ls = S(t["l"], al)
            return env.get(ls)
        l = decide(t["l"], env, al)
        r = decide(t["r"], env, al)
        return _binop(op, l, r)
    return None


def _binop(op, l, r):
    if op == "&&":
        if l == 0 or r == 0:
            return 0
        if l is not None and r is not None:
            return 1
        return None
    if op == "||":
        if (l is not None and l != 0) or (r is not None and r != 0):
            return 1
        if l == 0 and r == 0:
            return 0
        return None
    if l is None or r is None:
        return None
    try:
        if op == "==":
            return int(l == r)
        if op == "!=":
            return int(l != r)
        if op == "<":
            return int(l < r)
        if op == "<=":
            return int(l <= r)
        if op == ">":
            return int(l > r)
        if op == ">=":
            return int(l >= r)
        if op == "+":
            return l + r
        if op == "-":
            return l - r
        if op == "*":
            return l * r
        if op == "&":
            return l & r
        if op == "|":
            return l | r
        if op == "^":
            return l ^ r
        if op == "<<":
            return l << r
        if op == ">>":
            return l >> r
        if op == "/" and r != 0:
            return l // r
        if op == "%" and r != 0:
            return l % r
    except Exception:
        return None
    return None


def edges_under(fn, env, defs=False):
    """edge filter: branches whose condition is decided by env only follow the
    decided side. defs=True also looks through single-definition locals (only sound when what they are defined from does
    not change in the function, e.g. sizes read from a graph)"""
    al = fn.aliases()
    if defs:
        al = dict(fn.defs(), **al)
    dec = {}
    for bid, b in fn.blocks.items():
        c = effective_cond(b)
        if c is None or len(b.get("succ", [])) != 2:
            continue
        v = decide(c, env, al)
        if v is not None:
            dec[bid] = 0 if v else 1

    def edge_ok(bid, i, s):
        d = dec.get(bid)
        return d is None or d == i
    return edge_ok


# ---------------------------------------------------------------- wrappers
def wrappers(fx, prim, scope, depth=3, mode="must"):
    """names (qn) of functions within `scope` (predicate on function dict) in
    which every path to the normal exit passes an event satisfying prim, directly
    or through an already found wrapper (mode 'must'); mode 'may': any path."""
    found = set()
    cands = [f for f in fx.functions if scope(f)]
    for _ in range(depth):
        grew = False

        def pred(e):
            return prim(e) or (e.get("k") == "call" and e.get("fn") in found)
        for f in cands:
            if f["qn"] in found:
                continue
            w = Fn(f)
            has = any(True for _ in w.events(pred))
            if not has:
                continue
            if mode == "may" or not w.exit_reachable_without(pred):
                found.add(f["qn"])
                grew = True
        if not grew:
            break
    return found


def with_wrappers(prim, wr):
    def p(e):
        return prim(e) or (e.get("k") == "call" and e.get("fn") in wr)
    return p


# ---------------------------------------------------------------- records
def class_consts(fx, clsk):
    """static constexpr members of a (concrete) record, by key"""
    for r in fx.records:
        if r["key"] == clsk:
            return {f["n"]: f["c"] for f in r["fields"] if f.get("static") and "c" in f}
    return {}


def strip_key(k):
    return k


# --------------------------------------------------------------- switch
def switch_table(fn):
    """map case value (or 'default') -> set of returned constants / strings
    reached from that label without passing another return"""
    out = {}
    for bid, b in fn.blocks.items():
        lab = b.get("label")
        if not lab or lab.get("k") not in ("case", "default"):
            continue
        key = lab.get("v") if lab["k"] == "case" else "default"
        hits, ex = fn.search([(bid, 0)], stop=lambda e: e.get("k") == "ret")
        vals = set()
        for p in hits:
            e = fn.ev(p)
            t = e.get("e")
            v = decide(t, {}) if t is not None else None
            vals.add(v if v is not None else e.get("p"))
        if ex:
            vals.add("<falls-off>")
        out[key] = vals
    return out


def ret_values(fn):
    out = []
    for pos, e in fn.events(lambda e: e.get("k") == "ret"):
        t = e.get("e")
        out.append((pos, decide(t, {}) if t is not None else None, e.get("p")))
    return out


def fmt_pos(fn, pos):
    return fn.loc(pos)


# ------------------------------------------------ constant-returning callees
def const_return_summary(fx):
    """callee key (fk) -> constant int, for functions all of whose returns yield the
    same literal (e.g. the disabled variants `bool buildDAG() { return false; }`)"""
    cache = getattr(fx, "_const_ret", None)
    if cache is not None:
        return cache
    cache = {}
    for f in fx.functions:
        if f["kind"] == "pattern" or f.get("ret") not in ("bool", "int", "unsigned int"):
            continue
        vals = set()
        n = 0
        ok = True
        for b in f["blocks"]:
            for e in b["ev"]:
                if e["k"] == "ret":
                    n += 1
                    t = e.get("e")
                    if isinstance(t, dict) and t.get("k") in ("bool", "int"):
                        vals.add(int(t["v"]))
                    else:
                        ok = False
                elif e["k"] in ("call", "assign", "atomic", "ctor", "new", "delete"):
                    ok = False      # only side-effect free bodies
        if ok and n >= 1 and len(vals) == 1:
            # key without the parameter signature suffix used by the extractor
            cache[f["key"]] = vals.pop()
    fx._const_ret = cache
    return cache


def const_call_env(fx, fn):
    """env for decide(): canonical string of every call in fn whose callee is a
    constant-returning function -> that constant"""
    summ = const_return_summary(fx)
    if not summ:
        return {}
    byqn = getattr(fx, "_const_ret_qn", None)
    if byqn is None:
        byqn = {}
        for f in fx.functions:
            if f["key"] in summ:
                byqn.setdefault(f["qn"], []).append((f["key"], summ[f["key"]]))
        fx._const_ret_qn = byqn
    env = {}
    al = fn.aliases()
    for _, e in fn.events(lambda e: e.get("k") == "call" and e.get("fk")):
        cands = byqn.get(e.get("fn"))
        if not cands:
            continue
        vs = {v for k, v in cands if k.startswith(e["fk"] + "(")}
        if len(vs) == 1:
            env[S(e, al)] = next(iter(vs))
            env[S(e)] = next(iter(vs))
    return env


# ---------------------------------------------------------------- finite ordering domain
def order_paths(fn, st0, limit=4000):
    """Abstract interpretation of a function whose values are only copied and compared (iterators / indices clipped against
    bounds): a state maps each name (canonical string) to its rank in one total preorder of the inputs. Declarations with an
    initialiser, `=` assignments (built-in and class-type operator=, chains included) copy ranks; branch conditions made of
    comparisons, !, && and || are decided from the ranks; a condition that mentions anything else is followed both ways.
    Returns [(ret event, state, undecided conditions on the path)] for every path from the entry to a return."""
    CMP = {"<": lambda a, b: a < b, "<=": lambda a, b: a <= b, ">": lambda a, b: a > b, ">=": lambda a, b: a >= b,
           "==": lambda a, b: a == b, "!=": lambda a, b: a != b}

    def ev(t, st):
        if not isinstance(t, dict):
            return None
        k = t.get("k")
        if k in ("cast", "defarg", "paren"):
            return ev(t.get("e"), st)
        if k == "ctor" and len(t.get("a") or []) == 1:
            return ev(t["a"][0], st)
        if k == "int":
            return None                      # a literal has no place in the ordering
        if k in ("ref", "mem", "idx"):
            return st.get(S(t))
        if k == "un" and t.get("op") == "!":
            v = ev(t.get("e"), st)
            return None if v is None else (not v)
        if k == "bin":
            op = t.get("op")
            if op in CMP:
                a, b = ev(t["l"], st), ev(t["r"], st)
                return None if a is None or b is None or isinstance(a, bool) or isinstance(b, bool) else CMP[op](a, b)
            if op in ("&&", "||"):
                a, b = ev(t["l"], st), ev(t["r"], st)
                if op == "&&":
                    return False if a is False or b is False else (True if a is True and b is True else None)
                return True if a is True or b is True else (False if a is False and b is False else None)
            if op == "=":
                return ev(t["r"], st)
            return None
        if k == "call" and t.get("op") in CMP:
            ar = t.get("a") or []
            ops = ar if len(ar) == 2 else ([t.get("recv")] + ar if t.get("recv") is not None and len(ar) == 1 else None)
            if not ops:
                return None
            a, b = ev(ops[0], st), ev(ops[1], st)
            return None if a is None or b is None or isinstance(a, bool) or isinstance(b, bool) else CMP[t["op"]](a, b)
        if k == "call" and t.get("op") == "=" and t.get("a"):
            return ev(t["a"][-1], st)
        return None

    out = []
    todo = [(fn.f["entry"], dict(st0), ())]
    steps = 0
    while todo:
        bid, st, und = todo.pop()
        steps += 1
        if steps > limit:
            return None
        b = fn.blocks.get(bid)
        if b is None:
            continue
        done = False
        for e in b.get("ev", []):
            k = e.get("k")
            if k == "decl" and "init" in e:
                v = ev(e["init"], st)
                st[e["n"]] = v
            elif k == "assign" and e.get("op") == "=":
                st[S(e.get("lhs"))] = ev(e.get("rhs"), st)
            elif k == "call" and e.get("op") == "=" and e.get("recv") is not None and e.get("a"):
                st[S(e["recv"])] = ev(e["a"][-1], st)
            elif k == "ret":
                out.append((e, dict(st), und))
                done = True
                break
        if done:
            continue
        succ = [s for s in b.get("succ", [])]
        if len(succ) == 2:
            c = effective_cond(b)
            v = ev(c, st) if c is not None else None
            if v is True or v is False:
                nxt = succ[0] if v else succ[1]
                if nxt is not None:
                    todo.append((nxt, st, und))
            else:
                for i, nxt in enumerate(succ):
                    if nxt is not None:
                        todo.append((nxt, dict(st), und + ((S(c) if c is not None else "?", i == 0),)))
        else:
            for nxt in succ:
                if nxt is not None:
                    todo.append((nxt, st, und))
    return out


# ---------------------------------------------------------------- fold accumulators
FOLDS = {"accumulate": 2, "reduce": 2, "exclusive_scan": 3, "inner_product": 3, "transform_exclusive_scan": 3}
WIDTH = {"bool": 1, "char": 1, "signed char": 1, "unsigned char": 1, "short": 2, "unsigned short": 2, "int": 4, "unsigned int": 4,
         "long": 8, "unsigned long": 8, "long long": 8, "unsigned long long": 8, "float": 4, "double": 8, "long double": 16}
FLOATS = {"float", "double", "long double"}


def _elem_of_iter(tystr):
    """element type spelled in an iterator type: T* / __normal_iterator<T*, ..> / _Deque_iterator<T, ..> / counting_iterator<T>"""
    s = (tystr or "").strip()
    m = re.match(r"^(?:const )?([\w: ]+?) ?\*$", s)
    if m:
        return m.group(1).replace("const ", "").strip()
    m = re.match(r"^__gnu_cxx::__normal_iterator<(?:const )?([\w: ]+?) ?\*", s)
    if m:
        return m.group(1).strip()
    m = re.match(r"^std::_Deque_iterator<([\w: ]+?),", s)
    if m:
        return m.group(1).strip()
    m = re.match(r"^boost::iterators::counting_iterator<([\w: ]+?)[,>]", s)
    if m:
        return m.group(1).strip()
    return None


def fold_accumulators(ctx, fx, rule, file_re, seen=None):
    """every std::accumulate / reduce / exclusive_scan / inner_product in the selected files folds in a type that can hold the
    elements: the accumulator's type is the type of the `init` argument (a literal 0 makes it int whatever the elements
    are), so an init narrower than the element type -- or integral over floating elements -- truncates or wraps every
    partial result. Returns the number of fold calls seen."""
    frx = re.compile(file_re)
    n = 0
    seen = set() if seen is None else seen          # pass one set when several fact sets contain the same headers
    for f in fx.functions:
        if f["kind"] == "pattern" or not frx.search(f["file"]):
            continue
        for b in f.get("blocks", []):
            for e in b["ev"]:
                if e.get("k") != "call" or e.get("name") not in FOLDS or not (e.get("fn") or "").startswith("std::"):
                    continue
                sig = [x.strip() for x in split_top(e.get("fs") or "")]
                k = FOLDS[e["name"]]
                if len(sig) <= k:
                    continue
                key = (f["file"], e.get("l"), e.get("fk"))
                if key in seen:
                    continue
                seen.add(key)
                n += 1
                elem, acc = _elem_of_iter(sig[0]), sig[k].replace("const ", "").replace("&", "").strip()
                if elem is None or elem not in WIDTH or acc not in WIDTH:
                    ctx.ob(rule, f["qn"], True, "", "%s:%s" % (f["file"], e.get("l")), "%s@%s" % (e["name"], e.get("l")),
                           nontrivial=False, fnkey=f["key"])
                    continue
                bad = WIDTH[acc] < WIDTH[elem] or (elem in FLOATS and acc not in FLOATS)
                ctx.ob(rule, f["qn"], not bad,
                       "std::%s over %s elements accumulates in %s (the type of its init argument): partial results are "
                       "converted to %s -- sums from 2^%d on wrap, fractional parts are dropped" % (
                           e["name"], elem, acc, acc, 8 * WIDTH[acc] - (0 if acc.startswith("unsigned") else 1)),
                       "%s:%s" % (f["file"], e.get("l")), "%s@%s" % (e["name"], e.get("l")), fnkey=f["key"])
    return n


def split_top(s):
    """split a parameter signature at top-level commas"""
    out, depth, cur = [], 0, ""
    for ch in s:
        if ch in "<(":
            depth += 1
        elif ch in ">)":
            depth -= 1
        if ch == "," and depth == 0:
            out.append(cur)
            cur = ""
        else:
            cur += ch
    if cur.strip():
        out.append(cur)
    return out
