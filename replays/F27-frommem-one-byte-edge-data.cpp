// F27 replay: a graph with 1-byte edge data written with FileGraphWriter/toFile and read back with fromFile has no edge
// data: FileGraph::fromMem decides "edge data present" by `lenlimit > numEdges + offset`, which for sizeof(edge data) == 1
// compares the file length with itself. exit 0 = round trip exact, 1 = differs.
#include "galois/Galois.h"
#include "galois/graphs/FileGraph.h"
#include <cstdio>
#include <cstdlib>
using namespace galois::graphs;
template <typename T>
int roundtrip(const char* path) {
  FileGraphWriter w;
  w.setNumNodes(3);
  w.setNumEdges<T>(4);
  w.phase1();
  w.incrementDegree(0, 2);
  w.incrementDegree(1, 2);
  w.phase2();
  w.addNeighbor<T>(0, 1, 11);
  w.addNeighbor<T>(0, 2, 12);
  w.addNeighbor<T>(1, 2, 13);
  w.addNeighbor<T>(1, 0, 14);
  w.finish();
  w.toFile(path);
  FileGraph g;
  g.fromFile(path);
  if (g.edgeSize() != sizeof(T) || g.sizeEdges() != 4)
    return 1;
  const T* ed = &g.getEdgeData<T>(g.edge_begin(0));     // NDEBUG build: no assert, the raw pointer
  if (ed == nullptr || (reinterpret_cast<uintptr_t>(ed) < 4096)) {
    std::printf("sizeof(T)=%zu: no edge data after fromFile (pointer %p)\n", sizeof(T), (const void*)ed);
    return 1;
  }
  unsigned want[4] = {11, 12, 13, 14}, i = 0;
  int bad = 0;
  for (unsigned n = 0; n < 2; ++n)
    for (auto e = g.edge_begin(n); e != g.edge_end(n); ++e, ++i)
      if ((unsigned)g.getEdgeData<T>(e) != want[i])
        ++bad;
  std::printf("sizeof(T)=%zu: %d wrong edge values\n", sizeof(T), bad);
  return bad != 0;
}
int main() {
  galois::SharedMemSys G;
  int rc = 0;
  rc |= roundtrip<uint8_t>("/tmp/f27/g8.gr");
  rc |= roundtrip<uint16_t>("/tmp/f27/g16.gr");
  rc |= roundtrip<uint32_t>("/tmp/f27/g32.gr");
  rc |= roundtrip<uint64_t>("/tmp/f27/g64.gr");
  std::printf(rc ? "F27: round trip differs\n" : "round trip exact\n");
  return rc;
}
