// F25 replay: TwoLevelIteratorA over vector<vector<int>> (random-access inner iterators), it -= n for every position and n.
#include "galois/TwoLevelIteratorA.h"
#include <cstdio>
#include <vector>
int main() {
  int bad = 0, total = 0;
  std::vector<std::vector<std::vector<int>>> shapes = {
      {{0, 1, 2}, {3, 4, 5}}, {{0}, {1, 2, 3, 4}, {}, {5, 6}}, {{}, {0, 1}, {2, 3, 4}, {}, {5}, {6, 7, 8, 9}}, {{0, 1, 2, 3, 4, 5, 6}}};
  for (auto& outer : shapes) {
    std::vector<int> flat;
    for (auto& v : outer) flat.insert(flat.end(), v.begin(), v.end());
    auto r  = galois::make_two_level_iterator<std::random_access_iterator_tag>(outer.begin(), outer.end());
    auto b = r.first, e = r.second;
    for (size_t pos = 0; pos <= flat.size(); ++pos) {
      for (size_t n = 0; n <= pos; ++n) {
        auto it = b;
        std::advance(it, pos);        // forward jumps are fine
        it -= (long)n;
        size_t want = pos - n;
        ++total;
        bool ok = (want == flat.size()) ? (it == e) : (it != e && *it == flat[want]);
        if (!ok) {
          if (bad < 6) std::printf("ranges=%zu pos=%zu -= %zu: expected element %zu, got %d\n", outer.size(), pos, n, want, it == e ? -1 : *it);
          ++bad;
        }
      }
    }
  }
  std::printf("%d of %d backward jumps wrong\n", bad, total);
  return bad ? 1 : 0;
}
