// F21 replay: a version-2 .gr file read by LC_CSR_Graph::readGraphFromGRFile.
#include "galois/Galois.h"
#include "galois/graphs/LC_CSR_Graph.h"
#include <cstdio>
#include <fstream>
#include <vector>
int main() {
  galois::SharedMemSys G;
  galois::setActiveThreads(2);
  // 4 nodes, 5 edges (odd), int edge data, 64-bit destinations
  std::vector<uint64_t> outIdx = {2, 3, 5, 5};
  std::vector<uint64_t> dst    = {1, 2, 3, 0, 1};
  std::vector<int32_t> data    = {10, 11, 12, 13, 14};
  {
    std::ofstream f("/tmp/f21/v2.gr", std::ios::binary);
    uint64_t hdr[4] = {2, 4, 4, 5};
    f.write((char*)hdr, 32);
    f.write((char*)outIdx.data(), 8 * outIdx.size());
    f.write((char*)dst.data(), 8 * dst.size());
    f.write((char*)data.data(), 4 * data.size());
  }
  galois::graphs::LC_CSR_Graph<int, int> g;
  g.readGraphFromGRFile("/tmp/f21/v2.gr");
  int bad = 0;
  uint64_t k = 0;
  for (auto n : g) {
    for (auto e : g.edges(n, galois::MethodFlag::UNPROTECTED)) {
      uint64_t d = g.getEdgeDst(e);
      int w      = g.getEdgeData(e, galois::MethodFlag::UNPROTECTED);
      if (d != dst[k] || w != data[k]) {
        std::printf("edge %lu: got dst %lu data %d, file has dst %lu data %d\n", k, d, w, dst[k], data[k]);
        ++bad;
      }
      ++k;
    }
  }
  std::printf("%d of %lu edges differ\n", bad, k);
  return bad ? 1 : 0;
}
