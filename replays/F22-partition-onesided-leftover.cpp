// NOT part of the seeded change.  Side observation made while designing the
// seed: the UNMODIFIED ParallelSTL::partition can return a wrong partition point
// with >= 2 threads, because the serial clean-up span [rfirst, rlast) is the
// hull of the *leftover* blocks only and need not contain the point where the
// low and high claims met (s.first == s.last).
//
// Layout, n = 4096, two threads, block size 1024:
//   low0  [0,1024)     20 x false, then true
//   low1  [1024,2048)  all false
//   high1 [2048,3072)  all true
//   high0 [3072,4096)  false ... then 10 x true at the very end
// Thread A gets low0+high0, thread B gets low1+high1.
//   B: 1024 swaps, low1 and high1 run out at the same time -> no leftover.
//   A: 10 swaps, high0 runs out first, takeHigh() is empty -> leftover is the
//      unprocessed tail of low0 only: rfirst = 20, rlast = 1024.
//   clean-up partitions [20,1024) and returns 1014, but [1024,2048) is all true
//   (B's finished low block), so the right answer is 2038.
// The predicate makes A wait (on element 0) until B has started, so that B has
// really claimed low1/high1 before A needs a second high block.

#include "galois/Galois.h"
#include "galois/ParallelSTL.h"

#include <atomic>
#include <chrono>
#include <cstdio>
#include <vector>

static const int* base;
static std::atomic<bool> otherStarted{false};

struct Pred {
  bool operator()(const int& x) const {
    size_t i = &x - base;
    if (i >= 1024 && i < 3072)
      otherStarted.store(true);
    if (i == 0) {
      auto t0 = std::chrono::steady_clock::now();
      while (!otherStarted.load() &&
             std::chrono::steady_clock::now() - t0 < std::chrono::seconds(2)) {
      }
    }
    return x != 0;
  }
};

int main() {
  galois::SharedMemSys G;
  galois::setActiveThreads(2);
  int bad = 0;
  for (int rep = 0; rep < 20; ++rep) {
    std::vector<int> v(4096);
    for (size_t i = 0; i < 4096; ++i) {
      if (i < 1024)
        v[i] = i < 20 ? 0 : 1;
      else if (i < 2048)
        v[i] = 0;
      else if (i < 3072)
        v[i] = 1;
      else
        v[i] = i >= 4096 - 10 ? 1 : 0;
    }
    size_t want = std::count(v.begin(), v.end(), 1);
    base        = v.data();
    otherStarted.store(false);
    auto it  = galois::ParallelSTL::partition(v.begin(), v.end(), Pred());
    size_t k = it - v.begin();
    bool ok  = k == want;
    for (size_t i = 0; ok && i < v.size(); ++i)
      ok = (v[i] != 0) == (i < k);
    if (!ok) {
      ++bad;
      std::printf("rep %d: returned %zu, expected %zu -> INVALID partition\n",
                  rep, k, want);
    }
  }
  std::printf("%d of 20 runs wrong\n", bad);
  return bad ? 1 : 0;
}
