// F23 / F24 replay: std::string through Serialize.h
#include "galois/runtime/Serialize.h"
#include <cstdio>
#include <string>
int main() {
  using namespace galois::runtime;
  int bad = 0;
  {
    // F23: the target of a deserialisation already holds something (a variable reused across messages)
    SerializeBuffer sb;
    std::string a = "abc";
    gSerialize(sb, a);
    DeSerializeBuffer rb(std::move(sb));
    std::string out = "xy";
    gDeserialize(rb, out);
    std::printf("F23: wrote \"abc\", read \"%s\"\n", out.c_str());
    if (out != a) ++bad;
  }
  {
    // F24: embedded NUL
    SerializeBuffer sb;
    std::string a("a\0b", 3);
    int after = 7;
    gSerialize(sb, a, after);
    DeSerializeBuffer rb(std::move(sb));
    std::string out;
    int got = 0;
    gDeserialize(rb, out, got);
    std::printf("F24: wrote a 3-character string and 7, read a %zu-character string and %d\n", out.size(), got);
    if (out != a || got != after) bad += 2;
  }
  return bad;
}
