// F28 replay: OfflineGraphWriter::setCounts sums the 64-bit per-node edge counts with std::accumulate(.., 0): the accumulator
// is int, so for graphs with 2^31 or more edges the edge count written into the file header is wrong.
// exit 0 = header holds the true edge count, 1 = it does not.
#include "galois/graphs/OfflineGraph.h"
#include <cstdio>
#include <cstdint>
#include <deque>
#include <fstream>
int main() {
  const char* path = "/tmp/f28/big.gr";
  const uint64_t per = uint64_t(1) << 30;                 // three nodes with 2^30 edges each: 3 * 2^30 = 3221225472 edges
  {
    galois::graphs::OfflineGraphWriter w(path);
    std::deque<uint64_t> counts = {per, per, per};
    w.setCounts(counts);                                  // writes version, edge size, #nodes, #edges and the prefix sums
  }
  std::ifstream in(path, std::ios::binary);
  uint64_t hdr[4] = {0, 0, 0, 0};
  in.read(reinterpret_cast<char*>(hdr), sizeof(hdr));
  std::printf("header: version %lu, nodes %lu, edges %lu (true count %lu)\n", (unsigned long)hdr[0], (unsigned long)hdr[2],
              (unsigned long)hdr[3], (unsigned long)(3 * per));
  return hdr[3] == 3 * per ? 0 : 1;
}
