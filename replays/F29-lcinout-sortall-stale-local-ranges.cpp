// F29 replay: LC_InOut_Graph::sortAllInEdgesByDst walks iterate(*this), i.e. each thread's local_begin()..local_end(). For the
// NUMA-blocked layout those bounds are the per-thread ranges stored when the graph was read; they are indexed by thread id and
// never recomputed, so a graph read with 4 threads and sorted with 2 active threads leaves the in-edges of the nodes of threads
// 2 and 3 unsorted (and a later binary search misses edges). exit 0 = every node's in-edges are sorted, 1 = not.
#include "galois/Galois.h"
#include "galois/graphs/FileGraph.h"
#include "galois/graphs/LC_CSR_Graph.h"
#include "galois/graphs/LC_InOut_Graph.h"
#include "galois/graphs/Graph.h"
#include <cstdio>
#include <random>
#include <vector>
using Inner = galois::graphs::LC_CSR_Graph<int, int>::with_numa_alloc<true>::type::with_no_lockable<true>::type;
using Graph = galois::graphs::LC_InOut_Graph<Inner>;
static void write(galois::graphs::FileGraphWriter& w, unsigned n, std::mt19937& rng) {
  std::vector<std::vector<std::pair<unsigned, int>>> adj(n);
  for (unsigned u = 0; u < n; ++u) {
    unsigned d = 3 + rng() % 9;
    for (unsigned k = 0; k < d; ++k)
      adj[u].push_back({unsigned(rng() % n), int(rng() % 1000)});
  }
  size_t m = 0;
  for (auto& v : adj) m += v.size();
  w.setNumNodes(n);
  w.setNumEdges<int>(m);
  w.phase1();
  for (unsigned u = 0; u < n; ++u) w.incrementDegree(u, adj[u].size());
  w.phase2();
  for (unsigned u = 0; u < n; ++u)
    for (auto& e : adj[u]) w.addNeighbor<int>(u, e.first, e.second);
  w.finish();
}
int main() {
  galois::SharedMemSys G;
  std::mt19937 rng(7);
  galois::graphs::FileGraphWriter w;
  write(w, 400, rng);
  w.toFile("/tmp/f29/g.gr");
  galois::setActiveThreads(4);
  Graph g;
  galois::graphs::readGraph(g, std::string("/tmp/f29/g.gr"));      // symmetric use: in-edges are the out-edges
  galois::setActiveThreads(2);                                      // fewer active threads than the graph was read with
  g.sortAllInEdgesByDst();
  galois::setActiveThreads(4);
  unsigned unsorted = 0;
  for (auto n : g) {
    uint64_t prev = 0;
    bool first = true, bad = false;
    for (auto e = g.in_edge_begin(n, galois::MethodFlag::UNPROTECTED); e != g.in_edge_end(n, galois::MethodFlag::UNPROTECTED); ++e) {
      uint64_t d = g.getInEdgeDst(e);
      if (!first && d < prev) bad = true;
      prev = d; first = false;
    }
    unsorted += bad;
  }
  std::printf("%u of %u nodes have unsorted in-edges after sortAllInEdgesByDst()\n", unsorted, (unsigned)g.size());
  return unsorted ? 1 : 0;
}
