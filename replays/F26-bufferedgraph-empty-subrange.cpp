// F26 replay: BufferedGraph::loadPartialGraph over a node range without edges that starts at a non-zero edge offset
#include "galois/Galois.h"
#include "galois/graphs/BufferedGraph.h"
#include <cstdio>
#include <fstream>
#include <vector>
int main() {
  galois::SharedMemSys G;
  // 5 nodes: degrees 2,1,0,0,1 -> prefix 2,3,3,3,4 ; 4 edges (even), no edge data
  std::vector<uint64_t> outIdx = {2, 3, 3, 3, 4};
  std::vector<uint32_t> dst    = {1, 2, 0, 3};
  {
    std::ofstream f("/tmp/f26/g.gr", std::ios::binary);
    uint64_t hdr[4] = {1, 0, 5, 4};
    f.write((char*)hdr, 32);
    f.write((char*)outIdx.data(), 8 * outIdx.size());
    f.write((char*)dst.data(), 4 * dst.size());
  }
  galois::graphs::BufferedGraph<void> bg;
  // nodes [2,4) are isolated; their (empty) edge range is [3,3)
  bg.loadPartialGraph("/tmp/f26/g.gr", 2, 4, 3, 3, 5, 4);
  int bad = 0;
  for (uint64_t n = 2; n < 4; ++n) {
    uint64_t b = *bg.edgeBegin(n), e = *bg.edgeEnd(n);
    std::printf("node %lu: edges [%lu, %lu)%s\n", n, b, e, b == e ? "" : "   <-- the node has no edges");
    if (b != e) ++bad;
  }
  return bad ? 1 : 0;
}
