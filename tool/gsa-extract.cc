// gsa-extract: libTooling fact extractor for the Galois static checks.
//
// For every function definition (plain, template instantiation, lambda body;
// optionally uninstantiated template patterns) whose definition lies in a file
// matching --files, emit: identity, parameters (with default arguments), the
// per-function CFG (blocks, successors with pruned edges, terminator condition)
// and an ordered list of events per block (calls with resolved callee, atomic
// accesses with evaluated memory orders, assignments, reads, declarations,
// returns, implicit destructors). Expressions are exported as small JSON trees.
// Also emits record layouts (fields, atomic-ness, access) and static_asserts.
//
// The tool only reads source; nothing is executed.
#include "clang/AST/ASTConsumer.h"
#include "clang/AST/ASTContext.h"
#include "clang/AST/DeclTemplate.h"
#include "clang/AST/ExprCXX.h"
#include "clang/AST/RecursiveASTVisitor.h"
#include "clang/Analysis/CFG.h"
#include "clang/Frontend/CompilerInstance.h"
#include "clang/Frontend/FrontendAction.h"
#include "clang/Lex/Lexer.h"
#include "clang/Tooling/CommonOptionsParser.h"
#include "clang/Tooling/Tooling.h"
#include "llvm/Support/CommandLine.h"
#include "llvm/Support/JSON.h"
#include "llvm/Support/Regex.h"
#include "llvm/Support/raw_ostream.h"

#include <map>
#include <set>
#include <string>

using namespace clang;
namespace json = llvm::json;
namespace cl   = llvm::cl;

static cl::OptionCategory Cat("gsa-extract options");
static cl::opt<std::string> OutFile("o", cl::desc("output json"), cl::Required,
                                    cl::cat(Cat));
static cl::opt<std::string>
    FileRe("files", cl::desc("regex over definition file path"),
           cl::init(".*"), cl::cat(Cat));
static cl::opt<std::string>
    NameRe("names", cl::desc("regex over qualified function name"),
           cl::init(".*"), cl::cat(Cat));
static cl::opt<bool> Patterns("patterns",
                              cl::desc("also emit uninstantiated templates"),
                              cl::init(false), cl::cat(Cat));
static cl::opt<unsigned> MaxDepth("depth", cl::init(14), cl::cat(Cat));

namespace {

// strip every <...> group (balanced) from a qualified name
static std::string stripTargs(llvm::StringRef S) {
  std::string R;
  int depth = 0;
  for (size_t i = 0; i < S.size(); ++i) {
    char c = S[i];
    if (c == '<') {
      // keep operator<, operator<<, operator<=
      if (depth == 0 && R.size() >= 8 &&
          (llvm::StringRef(R).endswith("operator") ||
           llvm::StringRef(R).endswith("operator<"))) {
        R.push_back(c);
        continue;
      }
      ++depth;
      continue;
    }
    if (c == '>') {
      if (depth == 0) {
        R.push_back(c);
        continue;
      }
      --depth;
      continue;
    }
    if (depth == 0)
      R.push_back(c);
  }
  return R;
}

class Extractor : public RecursiveASTVisitor<Extractor> {
public:
  ASTContext& Ctx;
  SourceManager& SM;
  PrintingPolicy PP;
  llvm::Regex FileRx, NameRx;
  json::Array Functions, Records, StaticAsserts, Enums;
  std::set<std::string> SeenFn, SeenRec;
  std::set<const FunctionDecl*> SeenFD;

  // per-function state
  std::map<const Stmt*, unsigned> Sid;
  unsigned NextSid = 0;

  Extractor(ASTContext& C)
      : Ctx(C), SM(C.getSourceManager()), PP(C.getLangOpts()), FileRx(FileRe),
        NameRx(NameRe) {
    PP.SuppressTagKeyword   = true;
    PP.Bool                 = true;
    PP.TerseOutput          = true;
    PP.SuppressInitializers = false;
  }

  bool shouldVisitTemplateInstantiations() const { return true; }
  bool shouldVisitImplicitCode() const { return false; }

  // ---------------------------------------------------------------- utils
  std::string fileOf(SourceLocation L) {
    if (L.isInvalid())
      return "";
    L = SM.getExpansionLoc(L);
    auto F = SM.getFilename(L);
    return F.str();
  }
  unsigned lineOf(SourceLocation L) {
    if (L.isInvalid())
      return 0;
    return SM.getExpansionLineNumber(L);
  }
  unsigned colOf(SourceLocation L) {
    if (L.isInvalid())
      return 0;
    return SM.getExpansionColumnNumber(L);
  }
  std::string text(const Stmt* S) {
    std::string B;
    llvm::raw_string_ostream OS(B);
    S->printPretty(OS, nullptr, PP);
    OS.flush();
    if (B.size() > 300)
      B = B.substr(0, 300) + "...";
    return B;
  }
  std::string srcText(const Stmt* S) {
    auto R = CharSourceRange::getTokenRange(S->getSourceRange());
    if (R.isInvalid())
      return "";
    auto T = Lexer::getSourceText(R, SM, Ctx.getLangOpts());
    std::string B = T.str();
    if (B.size() > 300)
      B = B.substr(0, 300) + "...";
    return B;
  }
  std::string qnameOf(const NamedDecl* D) {
    std::string B;
    llvm::raw_string_ostream OS(B);
    D->printQualifiedName(OS, PP);
    OS.flush();
    return B;
  }
  std::string keyOf(const NamedDecl* D) {
    std::string B;
    llvm::raw_string_ostream OS(B);
    D->getNameForDiagnostic(OS, PP, true);
    OS.flush();
    return B;
  }
  // short type descriptor
  json::Object typeInfo(QualType T) {
    json::Object O;
    if (T.isNull())
      return O;
    QualType C = T.getNonReferenceType();
    bool ptr   = false;
    if (C->isPointerType()) {
      ptr = true;
      C   = C->getPointeeType();
    }
    if (T->isReferenceType())
      O["ref"] = true;
    if (ptr)
      O["ptr"] = true;
    if (C.isVolatileQualified())
      O["vol"] = true;
    if (C.isConstQualified())
      O["const"] = true;
    QualType CC = C.getCanonicalType().getUnqualifiedType();
    if (const auto* RD = CC->getAsCXXRecordDecl()) {
      O["rec"] = stripTargs(qnameOf(RD));
      if (const auto* SD = dyn_cast<ClassTemplateSpecializationDecl>(RD)) {
        std::string A;
        llvm::raw_string_ostream OS(A);
        const auto& TA = SD->getTemplateArgs();
        for (unsigned i = 0; i < TA.size(); ++i) {
          if (i)
            OS << ", ";
          TA[i].print(PP, OS, true);
        }
        OS.flush();
        if (A.size() > 200)
          A = A.substr(0, 200) + "...";
        O["targs"] = A;
      }
    } else {
      std::string S = CC.getAsString(PP);
      if (S.size() > 120)
        S = S.substr(0, 120) + "...";
      O["b"] = S;
    }
    return O;
  }
  std::string typeStr(QualType T) {
    if (T.isNull())
      return "";
    std::string S = T.getAsString(PP);
    if (S.size() > 240)
      S = S.substr(0, 240) + "...";
    return S;
  }

  unsigned sid(const Stmt* S) {
    auto it = Sid.find(S);
    if (it != Sid.end())
      return it->second;
    unsigned v = NextSid++;
    Sid[S]     = v;
    return v;
  }

  static const Expr* strip(const Expr* E) {
    while (E) {
      E = E->IgnoreParens();
      if (auto* X = dyn_cast<ImplicitCastExpr>(E)) {
        if (X->getCastKind() == CK_UserDefinedConversion)
          return E; // keep: a real call
        E = X->getSubExpr();
        continue;
      }
      if (auto* X = dyn_cast<MaterializeTemporaryExpr>(E)) {
        E = X->getSubExpr();
        continue;
      }
      if (auto* X = dyn_cast<ExprWithCleanups>(E)) {
        E = X->getSubExpr();
        continue;
      }
      if (auto* X = dyn_cast<CXXBindTemporaryExpr>(E)) {
        E = X->getSubExpr();
        continue;
      }
      if (auto* X = dyn_cast<ConstantExpr>(E)) {
        E = X->getSubExpr();
        continue;
      }
      if (auto* X = dyn_cast<SubstNonTypeTemplateParmExpr>(E)) {
        E = X->getReplacement();
        continue;
      }
      break;
    }
    return E;
  }

  void addConst(json::Object& O, const Expr* E) {
    if (!E || E->getType().isNull() || E->isValueDependent() ||
        E->isTypeDependent())
      return;
    if (!E->getType()->isIntegralOrEnumerationType())
      return;
    Expr::EvalResult R;
    if (E->EvaluateAsInt(R, Ctx, Expr::SE_NoSideEffects)) {
      O["c"] = (int64_t)R.Val.getInt().getExtValue();
    }
  }

  std::string opName(OverloadedOperatorKind K) {
    return getOperatorSpelling(K);
  }

  // ------------------------------------------------------- expression tree
  json::Value J(const Expr* E0, unsigned depth = 0) {
    const Expr* E = strip(E0);
    json::Object O;
    if (!E) {
      O["k"] = "none";
      return std::move(O);
    }
    if (depth > MaxDepth) {
      O["k"]    = "deep";
      O["text"] = text(E);
      return std::move(O);
    }
    if (auto* X = dyn_cast<ImplicitCastExpr>(E)) { // user-defined conversion
      return J(X->getSubExpr(), depth);
    }
    if (auto* X = dyn_cast<DeclRefExpr>(E)) {
      O["k"]         = "ref";
      const auto* D  = X->getDecl();
      O["n"]         = D->getNameAsString();
      const char* vk = "other";
      if (auto* V = dyn_cast<VarDecl>(D)) {
        if (isa<ParmVarDecl>(V))
          vk = "param";
        else if (V->isLocalVarDecl())
          vk = V->isStaticLocal() ? "slocal" : "local";
        else if (V->isStaticDataMember()) {
          vk      = "smember";
          O["fq"] = stripTargs(qnameOf(V));
        } else {
          vk      = "global";
          O["fq"] = stripTargs(qnameOf(V));
        }
        if (X->refersToEnclosingVariableOrCapture())
          O["cap"] = true;
      } else if (isa<FunctionDecl>(D)) {
        vk      = "func";
        O["fq"] = stripTargs(qnameOf(D));
      } else if (isa<EnumConstantDecl>(D)) {
        vk      = "enumc";
        O["fq"] = stripTargs(qnameOf(D));
      } else if (isa<BindingDecl>(D))
        vk = "binding";
      else if (isa<NonTypeTemplateParmDecl>(D))
        vk = "ntp";
      O["vk"] = vk;
      O["t"]  = typeInfo(X->getType().isNull() ? QualType() : D->getType());
      addConst(O, X);
      return std::move(O);
    }
    if (auto* X = dyn_cast<MemberExpr>(E)) {
      O["k"] = "mem";
      O["b"] = J(X->getBase(), depth + 1);
      O["n"] = X->getMemberDecl()->getNameAsString();
      if (X->isArrow())
        O["arrow"] = true;
      O["fq"] = stripTargs(qnameOf(X->getMemberDecl()));
      O["t"]  = typeInfo(X->getMemberDecl()->getType());
      if (isa<CXXThisExpr>(strip(X->getBase())) &&
          cast<CXXThisExpr>(strip(X->getBase()))->isImplicit())
        O["ithis"] = true;
      addConst(O, X);
      return std::move(O);
    }
    if (isa<CXXThisExpr>(E)) {
      O["k"] = "this";
      O["t"] = typeInfo(E->getType());
      return std::move(O);
    }
    if (auto* X = dyn_cast<CXXOperatorCallExpr>(E)) {
      O["k"]   = "call";
      O["sid"] = sid(X);
      O["op"]  = opName(X->getOperator());
      fillCallee(O, X->getDirectCallee(), X->getCallee());
      const auto* FD = X->getDirectCallee();
      bool member    = FD && isa<CXXMethodDecl>(FD) &&
                    !cast<CXXMethodDecl>(FD)->isStatic();
      json::Array A;
      for (unsigned i = 0; i < X->getNumArgs(); ++i) {
        if (i == 0 && member)
          O["recv"] = J(X->getArg(0), depth + 1);
        else
          A.push_back(J(X->getArg(i), depth + 1));
      }
      if (!member && X->getNumArgs() >= 1 && !FD) {
        // unresolved operator: treat arg0 as receiver
      }
      O["a"] = std::move(A);
      O["t"] = typeInfo(X->getType());
      return std::move(O);
    }
    if (auto* X = dyn_cast<CXXMemberCallExpr>(E)) {
      O["k"]   = "call";
      O["sid"] = sid(X);
      fillCallee(O, X->getMethodDecl(), X->getCallee());
      if (const Expr* R = X->getImplicitObjectArgument())
        O["recv"] = J(R, depth + 1);
      if (auto* ME = dyn_cast<MemberExpr>(X->getCallee()->IgnoreParens()))
        if (ME->isArrow())
          O["arrow"] = true;
      json::Array A;
      for (const Expr* Arg : X->arguments())
        A.push_back(J(Arg, depth + 1));
      O["a"] = std::move(A);
      O["t"] = typeInfo(X->getType());
      return std::move(O);
    }
    if (auto* X = dyn_cast<CallExpr>(E)) {
      O["k"]   = "call";
      O["sid"] = sid(X);
      fillCallee(O, X->getDirectCallee(), X->getCallee());
      if (!X->getDirectCallee()) {
        const Expr* CE = strip(X->getCallee());
        if (CE && !isa<UnresolvedLookupExpr>(CE) &&
            !isa<UnresolvedMemberExpr>(CE) &&
            !isa<CXXDependentScopeMemberExpr>(CE) &&
            !isa<DependentScopeDeclRefExpr>(CE))
          O["fnexpr"] = J(CE, depth + 1);
        if (auto* DM = dyn_cast_or_null<CXXDependentScopeMemberExpr>(CE)) {
          if (!DM->isImplicitAccess())
            O["recv"] = J(DM->getBase(), depth + 1);
        }
        if (auto* UM = dyn_cast_or_null<UnresolvedMemberExpr>(CE)) {
          if (!UM->isImplicitAccess())
            O["recv"] = J(UM->getBase(), depth + 1);
        }
      }
      json::Array A;
      for (const Expr* Arg : X->arguments())
        A.push_back(J(Arg, depth + 1));
      O["a"] = std::move(A);
      O["t"] = typeInfo(X->getType());
      return std::move(O);
    }
    if (auto* X = dyn_cast<CXXConstructExpr>(E)) {
      // copy/move construction from a single arg of same type: transparent
      const auto* CD = X->getConstructor();
      if (X->getNumArgs() == 1 && CD->isCopyOrMoveConstructor() &&
          X->isElidable())
        return J(X->getArg(0), depth);
      O["k"]   = "ctor";
      O["sid"] = sid(X);
      O["fn"]  = stripTargs(qnameOf(CD->getParent()));
      if (CD->isCopyConstructor())
        O["copy"] = true;
      if (CD->isMoveConstructor())
        O["move"] = true;
      json::Array A;
      for (const Expr* Arg : X->arguments())
        A.push_back(J(Arg, depth + 1));
      O["a"] = std::move(A);
      O["t"] = typeInfo(X->getType());
      return std::move(O);
    }
    if (auto* X = dyn_cast<BinaryOperator>(E)) {
      O["k"]  = "bin";
      O["op"] = X->getOpcodeStr().str();
      O["l"]  = J(X->getLHS(), depth + 1);
      O["r"]  = J(X->getRHS(), depth + 1);
      if (!X->isAssignmentOp())
        addConst(O, X);
      return std::move(O);
    }
    if (auto* X = dyn_cast<UnaryOperator>(E)) {
      O["k"] = "un";
      std::string op =
          UnaryOperator::getOpcodeStr(X->getOpcode()).str();
      if (X->isPostfix())
        op = "post" + op;
      else if (X->isIncrementDecrementOp())
        op = "pre" + op;
      O["op"] = op;
      O["e"]  = J(X->getSubExpr(), depth + 1);
      if (!X->isIncrementDecrementOp())
        addConst(O, X);
      return std::move(O);
    }
    if (auto* X = dyn_cast<ConditionalOperator>(E)) {
      O["k"] = "cond";
      O["c"] = J(X->getCond(), depth + 1);
      O["a"] = J(X->getTrueExpr(), depth + 1);
      O["b"] = J(X->getFalseExpr(), depth + 1);
      return std::move(O);
    }
    if (auto* X = dyn_cast<ArraySubscriptExpr>(E)) {
      O["k"] = "idx";
      O["b"] = J(X->getBase(), depth + 1);
      O["i"] = J(X->getIdx(), depth + 1);
      O["t"] = typeInfo(X->getType());
      return std::move(O);
    }
    if (auto* X = dyn_cast<IntegerLiteral>(E)) {
      O["k"] = "int";
      O["v"] = (int64_t)X->getValue().getLimitedValue();
      return std::move(O);
    }
    if (auto* X = dyn_cast<CXXBoolLiteralExpr>(E)) {
      O["k"] = "bool";
      O["v"] = X->getValue();
      return std::move(O);
    }
    if (isa<CXXNullPtrLiteralExpr>(E) || isa<GNUNullExpr>(E)) {
      O["k"] = "null";
      return std::move(O);
    }
    if (auto* X = dyn_cast<FloatingLiteral>(E)) {
      O["k"] = "float";
      O["v"] = X->getValueAsApproximateDouble();
      return std::move(O);
    }
    if (auto* X = dyn_cast<clang::StringLiteral>(E)) {
      O["k"] = "str";
      if (X->isAscii() || X->isUTF8())
        O["v"] = X->getString().str();
      return std::move(O);
    }
    if (auto* X = dyn_cast<CharacterLiteral>(E)) {
      O["k"] = "int";
      O["v"] = (int64_t)X->getValue();
      return std::move(O);
    }
    if (auto* X = dyn_cast<UnaryExprOrTypeTraitExpr>(E)) {
      O["k"]    = X->getKind() == UETT_SizeOf ? "sizeof" : "uett";
      QualType T = X->isArgumentType() ? X->getArgumentType()
                                       : X->getArgumentExpr()->getType();
      O["ty"] = typeStr(T);
      addConst(O, X);
      return std::move(O);
    }
    if (auto* X = dyn_cast<ExplicitCastExpr>(E)) {
      O["k"]  = "cast";
      O["ty"] = typeStr(X->getTypeAsWritten());
      O["tt"] = typeInfo(X->getTypeAsWritten());
      O["e"]  = J(X->getSubExpr(), depth + 1);
      addConst(O, X);
      return std::move(O);
    }
    if (auto* X = dyn_cast<LambdaExpr>(E)) {
      O["k"]  = "lambda";
      O["id"] = lambdaKey(X);
      json::Array Caps;
      for (const auto& C : X->captures()) {
        json::Object CO;
        if (C.capturesThis())
          CO["n"] = "this";
        else if (C.capturesVariable())
          CO["n"] = C.getCapturedVar()->getNameAsString();
        CO["byref"] = C.getCaptureKind() == LCK_ByRef;
        Caps.push_back(std::move(CO));
      }
      O["caps"] = std::move(Caps);
      return std::move(O);
    }
    if (auto* X = dyn_cast<CXXNewExpr>(E)) {
      O["k"]  = "new";
      O["ty"] = typeStr(X->getAllocatedType());
      json::Array A;
      for (unsigned i = 0; i < X->getNumPlacementArgs(); ++i)
        A.push_back(J(X->getPlacementArg(i), depth + 1));
      O["place"] = std::move(A);
      if (X->getInitializer())
        O["init"] = J(X->getInitializer(), depth + 1);
      if (X->isArray() && X->getArraySize() && *X->getArraySize())
        O["n"] = J(*X->getArraySize(), depth + 1);
      return std::move(O);
    }
    if (auto* X = dyn_cast<CXXDeleteExpr>(E)) {
      O["k"] = "delete";
      O["e"] = J(X->getArgument(), depth + 1);
      return std::move(O);
    }
    if (auto* X = dyn_cast<CXXDefaultArgExpr>(E)) {
      O["k"] = "defarg";
      O["e"] = J(X->getExpr(), depth + 1);
      return std::move(O);
    }
    if (auto* X = dyn_cast<CXXDefaultInitExpr>(E)) {
      return J(X->getExpr(), depth);
    }
    if (auto* X = dyn_cast<InitListExpr>(E)) {
      O["k"] = "initlist";
      json::Array A;
      for (const Expr* I : X->inits())
        A.push_back(J(I, depth + 1));
      O["a"] = std::move(A);
      O["t"] = typeInfo(X->getType());
      return std::move(O);
    }
    if (auto* X = dyn_cast<CXXDependentScopeMemberExpr>(E)) {
      O["k"] = "dep";
      O["n"] = X->getMember().getAsString();
      if (!X->isImplicitAccess())
        O["b"] = J(X->getBase(), depth + 1);
      return std::move(O);
    }
    if (auto* X = dyn_cast<UnresolvedLookupExpr>(E)) {
      O["k"] = "dep";
      O["n"] = X->getName().getAsString();
      return std::move(O);
    }
    if (auto* X = dyn_cast<DependentScopeDeclRefExpr>(E)) {
      O["k"] = "dep";
      O["n"] = X->getDeclName().getAsString();
      return std::move(O);
    }
    if (auto* X = dyn_cast<UnresolvedMemberExpr>(E)) {
      O["k"] = "dep";
      O["n"] = X->getMemberName().getAsString();
      if (!X->isImplicitAccess())
        O["b"] = J(X->getBase(), depth + 1);
      return std::move(O);
    }
    if (auto* X = dyn_cast<CXXUnresolvedConstructExpr>(E)) {
      O["k"]  = "ctor";
      O["fn"] = typeStr(X->getTypeAsWritten());
      json::Array A;
      for (const Expr* Arg : X->arguments())
        A.push_back(J(Arg, depth + 1));
      O["a"] = std::move(A);
      return std::move(O);
    }
    if (auto* X = dyn_cast<CXXScalarValueInitExpr>(E)) {
      O["k"]  = "zero";
      O["ty"] = typeStr(X->getType());
      return std::move(O);
    }
    if (auto* X = dyn_cast<StmtExpr>(E)) {
      O["k"]    = "stmtexpr";
      O["text"] = text(X);
      return std::move(O);
    }
    if (auto* X = dyn_cast<AtomicExpr>(E)) {
      O["k"]    = "c11atomic";
      O["text"] = text(X);
      return std::move(O);
    }
    if (auto* X = dyn_cast<CXXThrowExpr>(E)) {
      O["k"] = "throw";
      if (X->getSubExpr())
        O["e"] = J(X->getSubExpr(), depth + 1);
      return std::move(O);
    }
    O["k"]    = "other";
    O["cls"]  = E->getStmtClassName();
    O["text"] = text(E);
    addConst(O, E);
    return std::move(O);
  }

  void fillCallee(json::Object& O, const FunctionDecl* FD,
                  const Expr* CalleeE) {
    if (FD) {
      O["fn"] = stripTargs(qnameOf(FD));
      O["fk"] = keyOf(FD);
      {
        // parameter signature, spelled as in the callee's own "key", so that overloads resolve exactly
        std::string sig;
        for (const auto* P : FD->parameters()) {
          if (!sig.empty())
            sig += ", ";
          sig += typeStr(P->getType());
        }
        O["fs"] = sig;
      }
      if (FD->isNoReturn())
        O["nr"] = true;
      if (auto* MD = dyn_cast<CXXMethodDecl>(FD)) {
        O["cls"] = stripTargs(qnameOf(MD->getParent()));
        if (MD->isStatic())
          O["static"] = true;
        if (isa<CXXConversionDecl>(MD))
          O["conv"] = true;
      }
      O["name"] = FD->getNameAsString();
      // builtin
      if (FD->getBuiltinID())
        O["builtin"] = true;
    } else if (CalleeE) {
      const Expr* C = CalleeE->IgnoreParenImpCasts();
      std::string n;
      if (auto* U = dyn_cast<UnresolvedLookupExpr>(C))
        n = U->getName().getAsString();
      else if (auto* U = dyn_cast<UnresolvedMemberExpr>(C))
        n = U->getMemberName().getAsString();
      else if (auto* U = dyn_cast<CXXDependentScopeMemberExpr>(C))
        n = U->getMember().getAsString();
      else if (auto* U = dyn_cast<DependentScopeDeclRefExpr>(C))
        n = U->getDeclName().getAsString();
      else
        n = "";
      O["fn"]   = "?" + n;
      O["name"] = n;
    }
  }

  std::string lambdaKey(const LambdaExpr* L) {
    auto Loc = L->getBeginLoc();
    std::string f = fileOf(Loc);
    auto pos      = f.rfind('/');
    if (pos != std::string::npos)
      f = f.substr(pos + 1);
    return "lambda@" + f + ":" + std::to_string(lineOf(Loc)) + ":" +
           std::to_string(colOf(Loc));
  }

  // --------------------------------------------------------------- atomics
  static bool isAtomicRecord(const CXXRecordDecl* RD) {
    if (!RD)
      return false;
    if (!RD->getDeclContext()->isStdNamespace() &&
        !(RD->getDeclContext()->getParent() &&
          RD->getDeclContext()->getParent()->isStdNamespace()))
      return false;
    auto N = RD->getName();
    return N == "atomic" || N == "__atomic_base" || N == "atomic_flag" ||
           N == "__atomic_flag_base" || N == "__atomic_float";
  }
  static bool isAtomicType(QualType T) {
    if (T.isNull())
      return false;
    T = T.getNonReferenceType().getCanonicalType();
    return isAtomicRecord(T->getAsCXXRecordDecl());
  }

  // returns true when E (a call) is an access to a std::atomic; fills O
  bool atomicInfo(const CallExpr* CE, json::Object& O) {
    const auto* MD = dyn_cast_or_null<CXXMethodDecl>(CE->getDirectCallee());
    if (!MD || !isAtomicRecord(MD->getParent()))
      return false;
    if (isa<CXXConstructorDecl>(MD) || isa<CXXDestructorDecl>(MD))
      return false;
    const Expr* Obj = nullptr;
    std::string name;
    unsigned firstArg = 0;
    if (auto* OC = dyn_cast<CXXOperatorCallExpr>(CE)) {
      Obj      = OC->getArg(0);
      name     = std::string("operator") + opName(OC->getOperator());
      firstArg = 1;
    } else if (auto* MC = dyn_cast<CXXMemberCallExpr>(CE)) {
      Obj = MC->getImplicitObjectArgument();
      if (isa<CXXConversionDecl>(MD))
        name = "operator T";
      else
        name = MD->getNameAsString();
    } else
      return false;
    std::string kind;
    if (name == "load" || name == "operator T")
      kind = "load";
    else if (name == "store" || name == "operator=")
      kind = "store";
    else if (name.rfind("compare_exchange", 0) == 0)
      kind = "cas";
    else if (name == "is_lock_free" || name == "is_always_lock_free")
      return false;
    else
      kind = "rmw"; // exchange, fetch_*, ++, --, +=, ...
    O["k"]    = "atomic";
    O["sid"]  = sid(CE);
    O["aop"]  = name;
    O["kind"] = kind;
    O["obj"]  = J(Obj, 1);
    O["p"]    = path(Obj);
    json::Array Orders;
    json::Array Args;
    for (unsigned i = firstArg; i < CE->getNumArgs(); ++i) {
      const Expr* A = CE->getArg(i);
      QualType T    = A->getType();
      bool isOrder  = false;
      if (const auto* ET = T->getAs<EnumType>())
        isOrder = ET->getDecl()->getName() == "memory_order";
      if (isOrder) {
        json::Object OO;
        const Expr* AE = A;
        if (auto* DA = dyn_cast<CXXDefaultArgExpr>(A)) {
          OO["dflt"] = true;
          AE         = DA->getExpr();
        }
        Expr::EvalResult R;
        if (!AE->isValueDependent() &&
            AE->EvaluateAsInt(R, Ctx, Expr::SE_NoSideEffects))
          OO["v"] = (int64_t)R.Val.getInt().getExtValue();
        else {
          OO["v"]    = -1;
          OO["text"] = text(AE);
        }
        Orders.push_back(std::move(OO));
      } else
        Args.push_back(J(A, 1));
    }
    if (Orders.empty()) {
      // operator forms and fully defaulted: seq_cst
      json::Object OO;
      OO["v"]    = 5;
      OO["impl"] = true;
      Orders.push_back(std::move(OO));
    }
    // cas with a single order: failure order derived; record as is
    O["orders"] = std::move(Orders);
    O["a"]      = std::move(Args);
    return true;
  }

  // ---------------------------------------------------------- access paths
  std::string path(const Expr* E0) {
    const Expr* E = strip(E0);
    if (!E)
      return "";
    if (auto* X = dyn_cast<ImplicitCastExpr>(E))
      return path(X->getSubExpr());
    if (auto* X = dyn_cast<DeclRefExpr>(E))
      return X->getDecl()->getNameAsString();
    if (isa<CXXThisExpr>(E))
      return "this";
    if (auto* X = dyn_cast<MemberExpr>(E)) {
      // members of anonymous unions/structs: the anonymous level is transparent
      if (auto* B = dyn_cast<MemberExpr>(strip(X->getBase())))
        if (B->getMemberDecl()->getName().empty())
          return path(B->getBase()) + (B->isArrow() ? "->" : ".") +
                 X->getMemberDecl()->getNameAsString();
      if (!X->isArrow()) {
        // (*p).m is spelled p->m
        const Expr* BB = strip(X->getBase());
        if (auto* U = dyn_cast_or_null<UnaryOperator>(BB))
          if (U->getOpcode() == UO_Deref)
            return path(U->getSubExpr()) + "->" +
                   X->getMemberDecl()->getNameAsString();
        if (auto* OC = dyn_cast_or_null<CXXOperatorCallExpr>(BB))
          if (OC->getOperator() == OO_Star && OC->getNumArgs() == 1)
            return path(OC->getArg(0)) + "->" +
                   X->getMemberDecl()->getNameAsString();
      }
      std::string b = path(X->getBase());
      return b + (X->isArrow() ? "->" : ".") +
             X->getMemberDecl()->getNameAsString();
    }
    if (auto* X = dyn_cast<ArraySubscriptExpr>(E))
      return path(X->getBase()) + "[" + path(X->getIdx()) + "]";
    if (auto* X = dyn_cast<UnaryOperator>(E)) {
      if (X->getOpcode() == UO_Deref)
        return "*" + path(X->getSubExpr());
      if (X->getOpcode() == UO_AddrOf)
        return "&" + path(X->getSubExpr());
      return text(E);
    }
    if (auto* X = dyn_cast<CXXOperatorCallExpr>(E)) {
      auto K = X->getOperator();
      if (K == OO_Arrow && X->getNumArgs() >= 1)
        return path(X->getArg(0)) + ".operator->()";
      if (K == OO_Star && X->getNumArgs() == 1)
        return "*" + path(X->getArg(0));
      if (K == OO_Subscript && X->getNumArgs() == 2)
        return path(X->getArg(0)) + "[" + path(X->getArg(1)) + "]";
      return text(E);
    }
    if (auto* X = dyn_cast<CXXMemberCallExpr>(E)) {
      std::string r;
      if (const Expr* R = X->getImplicitObjectArgument()) {
        r         = path(R);
        bool arrow = false;
        if (auto* ME = dyn_cast<MemberExpr>(X->getCallee()->IgnoreParens()))
          arrow = ME->isArrow();
        r += arrow ? "->" : ".";
      }
      std::string n =
          X->getMethodDecl() ? X->getMethodDecl()->getNameAsString() : "?";
      std::string a;
      unsigned i = 0;
      for (const Expr* Arg : X->arguments()) {
        if (isa<CXXDefaultArgExpr>(Arg))
          continue;
        if (i++)
          a += ",";
        a += path(Arg);
      }
      return r + n + "(" + a + ")";
    }
    if (auto* X = dyn_cast<CallExpr>(E)) {
      std::string n = X->getDirectCallee()
                          ? X->getDirectCallee()->getNameAsString()
                          : text(X->getCallee());
      std::string a;
      unsigned i = 0;
      for (const Expr* Arg : X->arguments()) {
        if (isa<CXXDefaultArgExpr>(Arg))
          continue;
        if (i++)
          a += ",";
        a += path(Arg);
      }
      return n + "(" + a + ")";
    }
    if (auto* X = dyn_cast<ExplicitCastExpr>(E))
      return path(X->getSubExpr());
    if (auto* X = dyn_cast<IntegerLiteral>(E))
      return std::to_string(X->getValue().getLimitedValue());
    return text(E);
  }

  // ------------------------------------------------------------- events
  void loc(json::Object& O, const Stmt* S, const std::string& fnFile) {
    O["l"] = lineOf(S->getBeginLoc());
    std::string f = fileOf(S->getBeginLoc());
    if (!f.empty() && f != fnFile)
      O["f"] = f;
  }

  void emitEvent(const Stmt* S, json::Array& Ev, const std::string& fnFile) {
    if (auto* CE = dyn_cast<CallExpr>(S)) {
      json::Object A;
      if (atomicInfo(CE, A)) {
        loc(A, S, fnFile);
        A["text"] = text(S);
        Ev.push_back(std::move(A));
        return;
      }
      json::Value V = J(CE, 0);
      if (auto* O = V.getAsObject()) {
        loc(*O, S, fnFile);
        (*O)["text"] = text(S);
        if (O->get("recv"))
          if (auto* MC = dyn_cast<CXXMemberCallExpr>(CE))
            if (MC->getImplicitObjectArgument())
              (*O)["rp"] = path(MC->getImplicitObjectArgument());
        if (auto* OC = dyn_cast<CXXOperatorCallExpr>(CE))
          if (OC->getNumArgs() >= 1)
            (*O)["rp"] = path(OC->getArg(0));
        if (!CE->getDirectCallee() && !O->get("rp"))
          (*O)["rp"] = path(CE->getCallee());
      }
      Ev.push_back(std::move(V));
      return;
    }
    if (auto* X = dyn_cast<CXXConstructExpr>(S)) {
      const auto* CD = X->getConstructor();
      if (X->getNumArgs() == 1 && CD->isCopyOrMoveConstructor() &&
          X->isElidable())
        return;
      json::Value V = J(X, 0);
      if (auto* O = V.getAsObject()) {
        loc(*O, S, fnFile);
        (*O)["text"] = text(S);
      }
      Ev.push_back(std::move(V));
      return;
    }
    if (auto* X = dyn_cast<CXXNewExpr>(S)) {
      json::Value V = J(X, 0);
      if (auto* O = V.getAsObject()) {
        loc(*O, S, fnFile);
        (*O)["sid"]  = sid(S);
        (*O)["text"] = text(S);
      }
      Ev.push_back(std::move(V));
      return;
    }
    if (auto* X = dyn_cast<CXXDeleteExpr>(S)) {
      json::Value V = J(X, 0);
      if (auto* O = V.getAsObject()) {
        loc(*O, S, fnFile);
        (*O)["p"]    = path(X->getArgument());
        (*O)["text"] = text(S);
      }
      Ev.push_back(std::move(V));
      return;
    }
    if (auto* X = dyn_cast<BinaryOperator>(S)) {
      if (!X->isAssignmentOp())
        return;
      json::Object O;
      O["k"]   = "assign";
      O["sid"] = sid(S);
      O["op"]  = X->getOpcodeStr().str();
      O["lhs"] = J(X->getLHS(), 1);
      O["rhs"] = J(X->getRHS(), 1);
      O["lp"]  = path(X->getLHS());
      O["rp"]  = path(X->getRHS());
      loc(O, S, fnFile);
      O["text"] = text(S);
      Ev.push_back(std::move(O));
      return;
    }
    if (auto* X = dyn_cast<UnaryOperator>(S)) {
      if (!X->isIncrementDecrementOp())
        return;
      json::Object O;
      O["k"]   = "assign";
      O["sid"] = sid(S);
      O["op"]  = X->isIncrementOp() ? "++" : "--";
      if (X->isPostfix())
        O["post"] = true;
      O["lhs"] = J(X->getSubExpr(), 1);
      O["lp"]  = path(X->getSubExpr());
      loc(O, S, fnFile);
      O["text"] = text(S);
      Ev.push_back(std::move(O));
      return;
    }
    if (auto* X = dyn_cast<ImplicitCastExpr>(S)) {
      if (X->getCastKind() != CK_LValueToRValue)
        return;
      const Expr* Sub = strip(X->getSubExpr());
      bool interesting = false;
      if (isa<MemberExpr>(Sub) || isa<ArraySubscriptExpr>(Sub))
        interesting = true;
      else if (auto* U = dyn_cast<UnaryOperator>(Sub))
        interesting = U->getOpcode() == UO_Deref;
      else if (auto* D = dyn_cast<DeclRefExpr>(Sub)) {
        if (auto* V = dyn_cast<VarDecl>(D->getDecl()))
          interesting = V->hasGlobalStorage() ||
                        D->refersToEnclosingVariableOrCapture() ||
                        V->getType()->isReferenceType();
      } else if (auto* OC = dyn_cast<CXXOperatorCallExpr>(Sub))
        interesting = OC->getOperator() == OO_Subscript ||
                      OC->getOperator() == OO_Star;
      else if (isa<CallExpr>(Sub))
        interesting = true; // load through a reference returned by a call
      if (!interesting)
        return;
      json::Object O;
      O["k"] = "read";
      O["e"] = J(Sub, 1);
      O["p"] = path(Sub);
      loc(O, S, fnFile);
      Ev.push_back(std::move(O));
      return;
    }
    if (auto* X = dyn_cast<DeclStmt>(S)) {
      for (const Decl* D : X->decls()) {
        auto* V = dyn_cast<VarDecl>(D);
        if (!V)
          continue;
        json::Object O;
        O["k"]  = "decl";
        O["n"]  = V->getNameAsString();
        O["t"]  = typeInfo(V->getType());
        O["ty"] = typeStr(V->getType());
        if (V->getType()->isReferenceType())
          O["ref"] = true;
        if (V->isStaticLocal())
          O["static"] = true;
        if (V->hasInit()) {
          O["init"] = J(V->getInit(), 1);
          O["ip"]   = path(V->getInit());
        }
        loc(O, S, fnFile);
        Ev.push_back(std::move(O));
      }
      return;
    }
    if (auto* X = dyn_cast<ReturnStmt>(S)) {
      json::Object O;
      O["k"] = "ret";
      if (X->getRetValue()) {
        O["e"]    = J(X->getRetValue(), 1);
        O["p"]    = path(X->getRetValue());
        O["text"] = text(X->getRetValue());
      }
      loc(O, S, fnFile);
      Ev.push_back(std::move(O));
      return;
    }
    if (auto* X = dyn_cast<CXXThrowExpr>(S)) {
      json::Object O;
      O["k"] = "throw";
      loc(O, S, fnFile);
      (void)X;
      Ev.push_back(std::move(O));
      return;
    }
    if (auto* X = dyn_cast<AtomicExpr>(S)) {
      json::Object O;
      O["k"]    = "c11atomic";
      O["text"] = text(X);
      loc(O, S, fnFile);
      Ev.push_back(std::move(O));
      return;
    }
  }

  // flat (no CFG) walk for dependent patterns: source-order events
  void flatWalk(const Stmt* S, json::Array& Ev, const std::string& fnFile,
                unsigned depth = 0) {
    if (!S || depth > 200)
      return;
    if (isa<LambdaExpr>(S))
      return;
    // structure markers (ph = then / else / body) let a rule rebuild which events are on exclusive branches or inside a
    // loop, so that an order relation over a pattern does not depend on how the branches are laid out in the text
    auto mark = [&](const char* ph) {
      json::Object O;
      O["k"]   = "ctl";
      O["cls"] = S->getStmtClassName();
      O["ph"]  = ph;
      loc(O, S, fnFile);
      Ev.push_back(std::move(O));
    };
    if (auto* I = dyn_cast<IfStmt>(S)) {
      flatWalk(I->getInit(), Ev, fnFile, depth + 1);
      if (I->getConditionVariableDeclStmt())
        flatWalk(I->getConditionVariableDeclStmt(), Ev, fnFile, depth + 1);
      else
        flatWalk(I->getCond(), Ev, fnFile, depth + 1);
      mark("then");
      flatWalk(I->getThen(), Ev, fnFile, depth + 1);
      mark("else");
      flatWalk(I->getElse(), Ev, fnFile, depth + 1);
    } else {
      if (isa<WhileStmt>(S) || isa<ForStmt>(S) || isa<DoStmt>(S) || isa<CXXForRangeStmt>(S))
        mark("body");
      if (isa<SwitchStmt>(S))
        mark("switch");
      for (const Stmt* C : S->children())
        flatWalk(C, Ev, fnFile, depth + 1);
    }
    if (isa<Expr>(S) || isa<DeclStmt>(S) || isa<ReturnStmt>(S))
      emitEvent(S, Ev, fnFile);
    if (isa<IfStmt>(S) || isa<WhileStmt>(S) || isa<ForStmt>(S) ||
        isa<DoStmt>(S) || isa<SwitchStmt>(S) || isa<CXXForRangeStmt>(S)) {
      json::Object O;
      O["k"]   = "ctl";
      O["cls"] = S->getStmtClassName();
      O["ph"]  = "end";
      loc(O, S, fnFile);
      Ev.push_back(std::move(O));
    }
  }

  // ------------------------------------------------------------ functions
  void processFunction(const FunctionDecl* FD, const std::string& keyOverride,
                       const std::string& parentKey) {
    if (!FD->doesThisDeclarationHaveABody())
      return;
    if (!SeenFD.insert(FD).second)
      return;
    std::string file = fileOf(FD->getLocation());
    if (!FileRx.match(file))
      return;
    bool dependent = FD->isDependentContext();
    if (dependent && !Patterns)
      return;
    std::string qn  = stripTargs(qnameOf(FD));
    std::string key = keyOverride.empty() ? keyOf(FD) : keyOverride;
    if (!keyOverride.empty())
      qn = stripTargs(keyOverride);
    if (!NameRx.match(qn))
      return;
    // signature to disambiguate overloads
    std::string sig;
    for (const auto* P : FD->parameters()) {
      if (!sig.empty())
        sig += ", ";
      sig += typeStr(P->getType());
    }
    std::string ukey = key + "(" + sig + ")" + (dependent ? "#pattern" : "");
    if (auto* MD = dyn_cast<CXXMethodDecl>(FD))
      if (MD->isConst())
        ukey += " const";
    if (!SeenFn.insert(ukey).second)
      return;

    Sid.clear();
    NextSid = 0;

    json::Object F;
    F["key"]  = ukey;
    F["qn"]   = qn;
    F["name"] = FD->getNameAsString();
    F["file"] = file;
    F["line"] = lineOf(FD->getLocation());
    F["end"]  = lineOf(FD->getEndLoc());
    F["ret"]  = typeStr(FD->getReturnType());
    F["rett"] = typeInfo(FD->getReturnType());
    if (!parentKey.empty())
      F["parent"] = parentKey;
    if (FD->isNoReturn())
      F["noreturn"] = true;
    F["kind"] = dependent ? "pattern"
                          : (FD->isTemplateInstantiation() ||
                                     (isa<CXXMethodDecl>(FD) &&
                                      isa<ClassTemplateSpecializationDecl>(
                                          cast<CXXMethodDecl>(FD)->getParent()))
                                 ? "inst"
                                 : "plain");
    if (auto* MD = dyn_cast<CXXMethodDecl>(FD)) {
      F["cls"]  = stripTargs(qnameOf(MD->getParent()));
      F["clsk"] = keyOf(MD->getParent());
      if (MD->isConst())
        F["const"] = true;
      if (MD->isStatic())
        F["static"] = true;
      if (MD->isVirtual())
        F["virtual"] = true;
      switch (MD->getAccess()) {
      case AS_public:
        F["access"] = "public";
        break;
      case AS_protected:
        F["access"] = "protected";
        break;
      case AS_private:
        F["access"] = "private";
        break;
      default:
        break;
      }
      if (auto* CD = dyn_cast<CXXConstructorDecl>(MD)) {
        F["ctor"] = true;
        if (CD->isCopyConstructor())
          F["copyctor"] = true;
        if (CD->isMoveConstructor())
          F["movector"] = true;
        json::Array Inits;
        for (const auto* I : CD->inits()) {
          if (!I->isWritten() && !I->isAnyMemberInitializer())
            continue;
          json::Object IO;
          if (I->isAnyMemberInitializer())
            IO["field"] = I->getAnyMember()->getNameAsString();
          else if (I->isBaseInitializer())
            IO["base"] = typeStr(QualType(I->getBaseClass(), 0));
          IO["written"] = I->isWritten();
          if (I->getInit()) {
            IO["init"] = J(I->getInit(), 1);
            IO["ip"]   = path(I->getInit());
          }
          Inits.push_back(std::move(IO));
        }
        F["inits"] = std::move(Inits);
      }
      if (isa<CXXDestructorDecl>(MD))
        F["dtor"] = true;
      if (MD->isMoveAssignmentOperator())
        F["moveassign"] = true;
      if (MD->isCopyAssignmentOperator())
        F["copyassign"] = true;
    }
    json::Array Params;
    for (const auto* P : FD->parameters()) {
      json::Object PO;
      PO["n"]  = P->getNameAsString();
      PO["ty"] = typeStr(P->getType());
      PO["t"]  = typeInfo(P->getType());
      if (P->hasDefaultArg() && !P->hasUnparsedDefaultArg()) {
        const Expr* DA = P->hasUninstantiatedDefaultArg()
                             ? P->getUninstantiatedDefaultArg()
                             : P->getDefaultArg();
        if (DA) {
          PO["def"]     = J(DA, 1);
          PO["deftext"] = text(DA);
        }
      }
      Params.push_back(std::move(PO));
    }
    F["params"] = std::move(Params);
    // template arguments of function and enclosing class
    {
      std::string TA;
      llvm::raw_string_ostream OS(TA);
      if (auto* MD = dyn_cast<CXXMethodDecl>(FD))
        if (auto* SD =
                dyn_cast<ClassTemplateSpecializationDecl>(MD->getParent())) {
          const auto& L = SD->getTemplateArgs();
          for (unsigned i = 0; i < L.size(); ++i) {
            if (i)
              OS << " | ";
            L[i].print(PP, OS, true);
          }
        }
      if (auto* L = FD->getTemplateSpecializationArgs()) {
        OS << " || ";
        for (unsigned i = 0; i < L->size(); ++i) {
          if (i)
            OS << " | ";
          (*L)[i].print(PP, OS, true);
        }
      }
      OS.flush();
      if (TA.size() > 2000)
        TA = TA.substr(0, 2000) + "...";
      F["targs"] = TA;
    }

    const Stmt* Body = FD->getBody();
    json::Array Blocks;
    bool built = false;
    if (!dependent && Body) {
      CFG::BuildOptions BO;
      BO.setAllAlwaysAdd();
      BO.AddImplicitDtors          = true;
      BO.AddTemporaryDtors         = false;
      BO.AddInitializers           = true;
      BO.PruneTriviallyFalseEdges  = true;
      BO.AddEHEdges                = false;
      BO.AddCXXDefaultInitExprInCtors = true;
      std::unique_ptr<CFG> G =
          CFG::buildCFG(FD, const_cast<Stmt*>(Body), &Ctx, BO);
      if (G) {
        built            = true;
        F["entry"]       = G->getEntry().getBlockID();
        F["exit"]        = G->getExit().getBlockID();
        for (const CFGBlock* B : *G) {
          json::Object BJ;
          BJ["id"] = B->getBlockID();
          json::Array Succ, USucc;
          for (auto I = B->succ_begin(); I != B->succ_end(); ++I) {
            if (const CFGBlock* SB = I->getReachableBlock()) {
              Succ.push_back((int64_t)SB->getBlockID());
              USucc.push_back(nullptr);
            } else {
              Succ.push_back(nullptr);
              if (const CFGBlock* UB = I->getPossiblyUnreachableBlock())
                USucc.push_back((int64_t)UB->getBlockID());
              else
                USucc.push_back(nullptr);
            }
          }
          BJ["succ"]  = std::move(Succ);
          BJ["usucc"] = std::move(USucc);
          if (B->hasNoReturnElement())
            BJ["noreturn"] = true;
          if (const Stmt* L = B->getLabel()) {
            json::Object LO;
            if (auto* CS = dyn_cast<CaseStmt>(L)) {
              LO["k"] = "case";
              Expr::EvalResult R;
              if (CS->getLHS() && !CS->getLHS()->isValueDependent() &&
                  CS->getLHS()->EvaluateAsInt(R, Ctx))
                LO["v"] = (int64_t)R.Val.getInt().getExtValue();
              LO["text"] = text(CS->getLHS());
            } else if (isa<DefaultStmt>(L))
              LO["k"] = "default";
            else if (auto* LS = dyn_cast<LabelStmt>(L)) {
              LO["k"] = "label";
              LO["n"] = LS->getName();
            } else if (isa<CXXCatchStmt>(L))
              LO["k"] = "catch";
            else
              LO["k"] = L->getStmtClassName();
            BJ["label"] = std::move(LO);
          }
          json::Array Ev;
          for (const CFGElement& El : *B) {
            if (auto CS = El.getAs<CFGStmt>()) {
              emitEvent(CS->getStmt(), Ev, file);
            } else if (auto AD = El.getAs<CFGAutomaticObjDtor>()) {
              json::Object O;
              O["k"] = "dtor";
              O["n"] = AD->getVarDecl()->getNameAsString();
              O["t"] = typeInfo(AD->getVarDecl()->getType());
              O["l"] = lineOf(AD->getTriggerStmt()
                                  ? AD->getTriggerStmt()->getEndLoc()
                                  : SourceLocation());
              Ev.push_back(std::move(O));
            } else if (auto IN = El.getAs<CFGInitializer>()) {
              const CXXCtorInitializer* I = IN->getInitializer();
              if (I->isAnyMemberInitializer()) {
                json::Object O;
                O["k"]  = "init";
                O["n"]  = I->getAnyMember()->getNameAsString();
                O["fq"] = stripTargs(qnameOf(I->getAnyMember()));
                if (I->getInit()) {
                  O["init"] = J(I->getInit(), 1);
                  O["ip"]   = path(I->getInit());
                }
                O["written"] = I->isWritten();
                O["l"]       = lineOf(I->getSourceLocation());
                Ev.push_back(std::move(O));
              }
            }
          }
          BJ["ev"] = std::move(Ev);
          if (const Stmt* T = B->getTerminatorStmt()) {
            json::Object TJ;
            TJ["cls"] = T->getStmtClassName();
            TJ["l"]   = lineOf(T->getBeginLoc());
            if (auto* BOp = dyn_cast<BinaryOperator>(T))
              TJ["op"] = BOp->getOpcodeStr().str();
            if (const Stmt* C = B->getTerminatorCondition()) {
              if (auto* CE = dyn_cast<Expr>(C)) {
                TJ["cond"] = J(CE, 1);
                TJ["text"] = text(CE);
                if (!CE->isValueDependent() && !CE->isTypeDependent()) {
                  bool bv;
                  if (CE->getType()->isBooleanType() ||
                      CE->getType()->isIntegralOrEnumerationType() ||
                      CE->getType()->isPointerType())
                    if (CE->EvaluateAsBooleanCondition(bv, Ctx))
                      TJ["const"] = bv;
                }
              }
            }
            BJ["term"] = std::move(TJ);
          }
          Blocks.push_back(std::move(BJ));
        }
      }
    }
    if (!built && Body) {
      F["nocfg"] = true;
      json::Object BJ;
      BJ["id"]   = 0;
      BJ["succ"] = json::Array();
      json::Array Ev;
      flatWalk(Body, Ev, file);
      BJ["ev"] = std::move(Ev);
      Blocks.push_back(std::move(BJ));
    }
    F["blocks"] = std::move(Blocks);
    Functions.push_back(std::move(F));

    // lambdas inside: RAV will visit LambdaExprs in the body; we register the
    // parent key for them here
    CurParentKey[FD] = ukey;
  }

  std::map<const FunctionDecl*, std::string> CurParentKey;

  std::string enclosingFnKey(const Decl* D) {
    const DeclContext* DC = D->getDeclContext();
    while (DC) {
      if (auto* FD = dyn_cast<FunctionDecl>(DC)) {
        if (!(isa<CXXMethodDecl>(FD) &&
              cast<CXXMethodDecl>(FD)->getParent()->isLambda())) {
          std::string k = keyOf(FD);
          return k;
        }
      }
      DC = DC->getParent();
    }
    return "";
  }

  bool VisitFunctionDecl(FunctionDecl* FD) {
    if (auto* MD = dyn_cast<CXXMethodDecl>(FD))
      if (MD->getParent()->isLambda())
        return true; // handled by VisitLambdaExpr
    processFunction(FD, "", "");
    return true;
  }

  bool VisitLambdaExpr(LambdaExpr* LE) {
    const CXXMethodDecl* Op = LE->getCallOperator();
    if (!Op)
      return true;
    std::string pk  = enclosingFnKey(LE->getLambdaClass());
    std::string key = pk + "::" + lambdaKey(LE);
    if (auto* FT = Op->getDescribedFunctionTemplate()) {
      // generic lambda: emit each instantiation
      unsigned n = 0;
      for (auto* Spec : FT->specializations()) {
        if (Spec->doesThisDeclarationHaveABody())
          processFunction(Spec, key + "#" + std::to_string(n++), pk);
      }
      if (Patterns)
        processFunction(Op, key, pk);
    } else
      processFunction(Op, key, pk);
    return true;
  }

  bool VisitCXXRecordDecl(CXXRecordDecl* RD) {
    if (!RD->isThisDeclarationADefinition() || RD->isLambda())
      return true;
    std::string file = fileOf(RD->getLocation());
    if (!FileRx.match(file))
      return true;
    bool dependent = RD->isDependentContext();
    if (dependent && !Patterns)
      return true;
    std::string key = keyOf(RD) + (dependent ? "#pattern" : "");
    if (!SeenRec.insert(key).second)
      return true;
    json::Object R;
    R["key"]  = key;
    R["qn"]   = stripTargs(qnameOf(RD));
    R["file"] = file;
    R["line"] = lineOf(RD->getLocation());
    R["kind"] = dependent ? "pattern" : "concrete";
    json::Array Fields;
    auto acc = [](AccessSpecifier A) {
      switch (A) {
      case AS_public:
        return "public";
      case AS_protected:
        return "protected";
      case AS_private:
        return "private";
      default:
        return "none";
      }
    };
    for (const Decl* D : RD->decls()) {
      if (auto* FDl = dyn_cast<FieldDecl>(D)) {
        json::Object FO;
        FO["n"]      = FDl->getNameAsString();
        FO["ty"]     = typeStr(FDl->getType());
        FO["t"]      = typeInfo(FDl->getType());
        FO["access"] = acc(FDl->getAccess());
        QualType T   = FDl->getType();
        if (T->isArrayType())
          T = Ctx.getBaseElementType(T);
        if (!T->isDependentType() && isAtomicType(T))
          FO["atomic"] = true;
        else if (T->isDependentType()) {
          std::string s = typeStr(T);
          if (s.find("std::atomic<") == 0 || s.find("atomic<") == 0)
            FO["atomic"] = true;
        }
        if (T.isVolatileQualified())
          FO["volatile"] = true;
        FO["l"] = lineOf(FDl->getLocation());
        Fields.push_back(std::move(FO));
      } else if (auto* VD = dyn_cast<VarDecl>(D)) {
        json::Object FO;
        FO["n"]      = VD->getNameAsString();
        FO["ty"]     = typeStr(VD->getType());
        FO["static"] = true;
        FO["access"] = acc(VD->getAccess());
        if (VD->hasInit() && !VD->getInit()->isValueDependent()) {
          Expr::EvalResult ER;
          if (VD->getType()->isIntegralOrEnumerationType() &&
              VD->getInit()->EvaluateAsInt(ER, Ctx))
            FO["c"] = (int64_t)ER.Val.getInt().getExtValue();
        }
        Fields.push_back(std::move(FO));
      }
    }
    R["fields"] = std::move(Fields);
    json::Array Bases;
    if (RD->getNumBases())
      for (const auto& B : RD->bases()) {
        json::Object BO;
        BO["ty"]     = typeStr(B.getType());
        BO["t"]      = typeInfo(B.getType());
        BO["access"] = acc(B.getAccessSpecifier());
        Bases.push_back(std::move(BO));
      }
    R["bases"] = std::move(Bases);
    json::Array Methods;
    for (const auto* M : RD->methods()) {
      if (M->isImplicit())
        continue;
      json::Object MO;
      MO["n"]      = M->getNameAsString();
      MO["access"] = acc(M->getAccess());
      if (M->isDeleted())
        MO["deleted"] = true;
      if (M->isDefaulted())
        MO["defaulted"] = true;
      std::string sig;
      for (const auto* P : M->parameters()) {
        if (!sig.empty())
          sig += ", ";
        sig += typeStr(P->getType());
      }
      MO["sig"] = sig;
      MO["l"]   = lineOf(M->getLocation());
      Methods.push_back(std::move(MO));
    }
    // member function templates
    for (const Decl* D : RD->decls())
      if (auto* FT = dyn_cast<FunctionTemplateDecl>(D)) {
        json::Object MO;
        MO["n"]      = FT->getNameAsString();
        MO["access"] = acc(FT->getAccess());
        MO["tmpl"]   = true;
        MO["l"]      = lineOf(FT->getLocation());
        Methods.push_back(std::move(MO));
      }
    R["methods"] = std::move(Methods);
    json::Array Friends;
    for (const auto* FR : RD->friends()) {
      if (auto* TSI = FR->getFriendType())
        Friends.push_back(typeStr(TSI->getType()));
      else if (auto* ND = FR->getFriendDecl())
        Friends.push_back(ND->getNameAsString());
    }
    R["friends"] = std::move(Friends);
    Records.push_back(std::move(R));
    return true;
  }

  bool VisitEnumDecl(EnumDecl* ED) {
    if (!ED->isThisDeclarationADefinition())
      return true;
    std::string file = fileOf(ED->getLocation());
    if (!FileRx.match(file))
      return true;
    json::Object O;
    O["qn"]   = stripTargs(qnameOf(ED));
    O["file"] = file;
    O["line"] = lineOf(ED->getLocation());
    json::Object Vals;
    for (const auto* EC : ED->enumerators())
      Vals[EC->getNameAsString()] = (int64_t)EC->getInitVal().getExtValue();
    O["values"] = std::move(Vals);
    Enums.push_back(std::move(O));
    return true;
  }

  bool VisitStaticAssertDecl(StaticAssertDecl* SA) {
    std::string file = fileOf(SA->getLocation());
    if (!FileRx.match(file))
      return true;
    json::Object O;
    O["file"] = file;
    O["line"] = lineOf(SA->getLocation());
    O["text"] = text(SA->getAssertExpr());
    O["e"]    = J(SA->getAssertExpr(), 1);
    if (auto* DC = dyn_cast<NamedDecl>(SA->getDeclContext()))
      O["in"] = stripTargs(qnameOf(DC));
    StaticAsserts.push_back(std::move(O));
    return true;
  }
};

class Consumer : public ASTConsumer {
public:
  void HandleTranslationUnit(ASTContext& Ctx) override {
    if (Ctx.getDiagnostics().hasUnrecoverableErrorOccurred()) {
      llvm::errs() << "gsa-extract: unrecoverable parse error\n";
    }
    Extractor X(Ctx);
    X.TraverseDecl(Ctx.getTranslationUnitDecl());
    json::Object Root;
    Root["functions"]      = std::move(X.Functions);
    Root["records"]        = std::move(X.Records);
    Root["static_asserts"] = std::move(X.StaticAsserts);
    Root["enums"]          = std::move(X.Enums);
    Root["errors"] = (int64_t)Ctx.getDiagnostics().getClient()->getNumErrors();
    {
      json::Array Deps;
      auto& SM = Ctx.getSourceManager();
      std::set<std::string> Seen;
      for (auto I = SM.fileinfo_begin(); I != SM.fileinfo_end(); ++I) {
        std::string N = I->first->tryGetRealPathName().str();
        if (N.empty())
          N = I->first->getName().str();
        if (N.rfind("/usr/", 0) == 0 || N.rfind("/root/miniconda", 0) == 0)
          continue;
        if (Seen.insert(N).second)
          Deps.push_back(N);
      }
      Root["deps"] = std::move(Deps);
    }
    std::error_code EC;
    llvm::raw_fd_ostream OS(OutFile, EC);
    if (EC) {
      llvm::errs() << "cannot write " << OutFile << "\n";
      return;
    }
    OS << json::Value(std::move(Root));
    OS << "\n";
  }
};

class Action : public ASTFrontendAction {
public:
  std::unique_ptr<ASTConsumer> CreateASTConsumer(CompilerInstance&,
                                                 llvm::StringRef) override {
    return std::make_unique<Consumer>();
  }
};

} // namespace

int main(int argc, const char** argv) {
  auto Exp = tooling::CommonOptionsParser::create(argc, argv, Cat);
  if (!Exp) {
    llvm::errs() << Exp.takeError();
    return 2;
  }
  tooling::ClangTool Tool(Exp->getCompilations(), Exp->getSourcePathList());
  return Tool.run(tooling::newFrontendActionFactory<Action>().get());
}
